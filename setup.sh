#!/bin/sh
# Offline self-test: nothing to build (pure Python, pipefunc is an editable install of /repo).
cd "$(dirname "$0")" || exit 2
mkdir -p evidence replays
PYTHONHASHSEED=0 /venv/bin/python - <<'PY'
import sys
sys.path.insert(0, '.')
from vmc import boot
boot.boot()
import numpy, networkx, jsonschema, pipefunc, pipefunc.map
from pipefunc.map import storage_registry
assert {'file_array', 'dict', 'shared_memory_dict'} <= set(storage_registry), storage_registry
print('setup ok: pipefunc from', pipefunc.__file__)
PY
