"""Plain pytest replay of violation artefacts without any explorer:

    /venv/bin/python -m pytest -q replays/test_replay.py            # every replays/*.json present
    REPLAY=replays/C14-xxxx.json /venv/bin/python -m pytest -q replays/test_replay.py

Each artefact is re-executed through `./check <ID> --replay <file>`, i.e. only the recorded case (pipeline, inputs,
schedule / crash point / history) runs; the test fails iff the recorded violation reproduces (exit code 1)."""
import glob
import json
import os
import subprocess

import pytest

HERE = os.path.dirname(os.path.abspath(__file__))
FILES = [os.environ["REPLAY"]] if os.environ.get("REPLAY") else sorted(glob.glob(os.path.join(HERE, "*.json")))


@pytest.mark.parametrize("path", FILES or [None])
def test_replay(path):
    if path is None:
        pytest.skip("no replay artefacts present")
    pid = json.load(open(path))["property"]
    r = subprocess.run([os.path.join(os.path.dirname(HERE), "check"), pid, "--replay", path], capture_output=True, text=True)
    assert r.returncode == 0, r.stdout[-2000:]
