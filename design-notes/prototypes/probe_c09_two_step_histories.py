import boot, itertools, io, contextlib, time, collections
from pipefunc import Pipeline, PipeFunc
from probe_gdag_c02_c18 import mkfunc, gen, LOG
print("=========== p16")
bad=collections.Counter(); ex={}
def note(k,e): bad[k]+=1; ex.setdefault(k,e)
stats=collections.Counter()
t=time.time()
for N in (2,):
    for specs in gen(N):
        if N==3 and any(len(ps)==0 for ps,_,_ in specs): continue   # prune a bit
        if N==3 and sum(n for _,n,_ in specs)>4: continue
        funcs_c=[PipeFunc(mkfunc(f"f{i}",ps,n), outs[0] if n==1 else outs, cache=True) for i,(ps,n,outs) in enumerate(specs)]
        funcs_u=[PipeFunc(mkfunc(f"f{i}",ps,n), outs[0] if n==1 else outs) for i,(ps,n,outs) in enumerate(specs)]
        with contextlib.redirect_stdout(io.StringIO()):
            pu=Pipeline(funcs_u)
        outs_all=[o for _,_,outs in specs for o in outs]
        steps=[]
        for out in outs_all:
            for cut in pu.arg_combinations(out):
                for vals in itertools.product((1,2), repeat=len(cut)):
                    for full in (False,True):
                        steps.append((out, dict(zip(cut,vals)), full))
        if len(steps)>60: steps=steps[:60]
        for s1,s2 in itertools.product(steps, repeat=2):
            with contextlib.redirect_stdout(io.StringIO()):
                pc=Pipeline(funcs_c, cache_type='simple')
            for k,(out,kw,full) in enumerate((s1,s2)):
                stats['steps']+=1
                try:
                    with contextlib.redirect_stdout(io.StringIO()): ru=pu.run(out, full_output=full, kwargs=kw)
                except Exception as e: ru=None; continue
                try:
                    LOG.clear()
                    with contextlib.redirect_stdout(io.StringIO()): rc=pc.run(out, full_output=full, kwargs=kw)
                except Exception as e:
                    note('cached raises '+type(e).__name__, (specs,s1,s2,str(e)[:100])); break
                if full: 
                    ok = all(rc.get(k_)==v for k_,v in ru.items())
                else: ok = rc==ru
                if not ok:
                    roots=set(pu.root_args(out)); has_inter=any(k_ not in ('x','y') for k_ in kw)
                    cls=('mismatch', 'step%d'%k, 'full' if full else 'plain', 'inter_in_cut' if has_inter else 'roots_only', 'allroots_given' if roots<=set(kw) else 'roots_missing')
                    note(cls,(specs,s1,s2,rc,ru)); break
        stats['pipelines']+=1
    print(N, dict(stats), f"{time.time()-t:.1f}s")
for k,v in bad.items(): print(v,k)
for k,v in ex.items(): print(k,'::',str(v)[:420])
