import boot, numpy as np, io, contextlib, asyncio, itertools, time
from concurrent.futures import Executor, Future
from pipefunc import Pipeline, PipeFunc
from probe_terms_and_c01_cases import T

class DFuture(Future):
    def __init__(self, ex, fn, args): super().__init__(); self.ex=ex; self.fn=fn; self.args=args
    def result(self, timeout=None):
        while not self.done():
            self.ex.sched.step(want=self)
        return super().result(0)
class Sched:
    def __init__(self, choices): self.pending=[]; self.choices=list(choices); self.trace=[]
    def step(self, want=None):
        if not self.pending: raise RuntimeError('deadlock')
        i = self.choices.pop(0) if self.choices else 0
        i %= len(self.pending)
        self.trace.append((i,len(self.pending)))
        fut = self.pending.pop(i)
        try: fut.set_result(fut.fn(*fut.args))
        except BaseException as e: fut.set_exception(e)
class DEx(Executor):
    def __init__(self, sched): self.sched=sched
    def submit(self, fn, *args, **kw):
        f = DFuture(self, fn, args); self.sched.pending.append(f); return f

log=[]
def f(x): log.append(('f',x)); return f"f({x})"
def g(x): log.append(('g',x)); return f"g({x})"
def h(y, z): log.append(('h',)); return f"h({T(y)},{T(z)})"
def build():
    return Pipeline([PipeFunc(f,'y',mapspec='x[i] -> y[i]'), PipeFunc(g,'z',mapspec='x[i] -> z[i]'), PipeFunc(h,'w')])
outs=set(); n=0; t=time.time()
for perm in itertools.product(range(4), repeat=4):
    log.clear()
    s=Sched(perm)
    with contextlib.redirect_stdout(io.StringIO()):
        r = build().map({'x':[1,2]}, parallel=True, executor=DEx(s), storage='dict')
    outs.add((r['w'].output, tuple(log))); n+=1
print(n, 'schedules', len(outs), 'distinct (result,log)', (time.time()-t)/n*1000,'ms each')
print(sorted(outs)[0])

# async with virtual loop
class VLoop(asyncio.BaseEventLoop):
    def __init__(self): super().__init__(); self._t=0.0
    def time(self): return self._t
    def _write_to_self(self): pass
    def _process_events(self, ev): pass
def run_async(choices):
    loop = VLoop(); s=Sched(choices); res={}
    async def main():
        am = build().map_async({'x':[1,2]}, executor=DEx(s), storage='dict')
        res['r'] = await am.task
    asyncio.events._set_running_loop(loop)
    try:
        task = loop.create_task(main())
        guard=0
        while not task.done():
            guard+=1; assert guard<10000
            if loop._ready:
                h_ = loop._ready.popleft()
                if not h_._cancelled: h_._run()
            elif s.pending:
                s.step()
            else:
                raise RuntimeError('idle & nothing pending: hang')
        return task.result(), res['r']
    finally:
        asyncio.events._set_running_loop(None); loop.close()
outs=set(); n=0; t=time.time()
for perm in itertools.product(range(4), repeat=4):
    log.clear()
    with contextlib.redirect_stdout(io.StringIO()):
        _, r = run_async(perm)
    outs.add((r['w'].output, tuple(log))); n+=1
print('async', n, len(outs), (time.time()-t)/n*1000,'ms each')
