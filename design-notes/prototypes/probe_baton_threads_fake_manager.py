import boot, threading, itertools, time, sys
import pipefunc.cache as pc
print("=========== p9")
# --- baton scheduler
class Sched:
    def __init__(self, choices):
        self.choices=list(choices); self.trace=[]; self.threads={}; self.blocked={}; self.done=set()
        self.cur=None; self.main=threading.Semaphore(0); self.npoints=0; self.preempt=0
    def spawn(self, tid, fn):
        sem=threading.Semaphore(0)
        def body():
            sem.acquire()
            try: fn()
            finally:
                self.done.add(tid); self.main.release()
        t=threading.Thread(target=body, daemon=True); self.threads[tid]=(t,sem); t.start()
    def point(self, label=None):
        # called by a running logical thread: hand control to scheduler
        tid=self.cur
        if tid is None or threading.current_thread() is not self.threads[tid][0]: return
        self.main.release(); self.threads[tid][1].acquire()
    def enabled(self):
        return [t for t in sorted(self.threads) if t not in self.done and not (t in self.blocked and self.blocked[t]())]
    def run(self):
        while True:
            en=self.enabled()
            if not en:
                self.cur=None
                if len(self.done)==len(self.threads): return 'ok'
                return 'deadlock'
            # canonical order: current first if enabled
            if self.cur in en: en=[self.cur]+[t for t in en if t!=self.cur]
            c=self.choices.pop(0) if self.choices else 0
            c%=len(en); self.trace.append((c,len(en)))
            self.cur=en[c]
            self.threads[self.cur][1].release(); self.main.acquire()
            
            self.npoints+=1
            if self.npoints>10000: return 'livelock'
S=None
class SDict(dict):
    def __contains__(self,k): S.point(); return dict.__contains__(self,k)
    def __getitem__(self,k): S.point(); return dict.__getitem__(self,k)
    def __setitem__(self,k,v): S.point(); return dict.__setitem__(self,k,v)
    def pop(self,*a): S.point(); return dict.pop(self,*a)
    def __len__(self): S.point(); return dict.__len__(self)
class SList(list):
    def remove(self,x): S.point(); return list.remove(self,x)
    def append(self,x): S.point(); return list.append(self,x)
    def pop(self,*a): S.point(); return list.pop(self,*a)
    def __len__(self): S.point(); return list.__len__(self)
class SLock:
    def __init__(self): self.owner=None
    def __enter__(self):
        S.point()
        me=S.cur
        while self.owner is not None:
            S.blocked[me]=lambda: self.owner is not None
            S.point()
        S.blocked.pop(me,None); self.owner=me
    def __exit__(self,*a): self.owner=None; S.point()
class FakeManager:
    def dict(self): return SDict()
    def list(self): return SList()
    def Lock(self): return SLock()
pc.Manager=FakeManager

def execute(choices):
    global S
    S=Sched(choices)
    S.cur=None
    # build cache without scheduling (S.point requires a running thread) -> construct with points disabled
    real_point=Sched.point; Sched.point=lambda self,label=None: None
    c=pc.LRUCache(max_size=1, shared=True, allow_cloudpickle=False)
    c.put('a',1)
    Sched.point=real_point
    res={}
    def t1():
        try: res['t1']=('ret',c.get('a'))
        except Exception as e: res['t1']=('exc',type(e).__name__)
    def t2():
        try: c.put('b',2); res['t2']=('ret',None)
        except Exception as e: res['t2']=('exc',type(e).__name__)
    S.spawn(1,t1); S.spawn(2,t2)
    st=S.run()
    return st, res, list(S.trace), dict(c._cache_dict), list(c._cache_queue)

# DFS with preemption bound
def explore(bound):
    seen=[]; outcomes={}
    def rec(prefix):
        st,res,trace,d,q=execute(prefix)
        seen.append(trace)
        key=(st,tuple(sorted(res.items())),tuple(sorted(d.items())),tuple(q))
        outcomes[key]=outcomes.get(key,0)+1
        # count preemptions in prefix: choice!=0 when current was enabled -> approximate: any nonzero choice after first
        for i in range(len(prefix), len(trace)):
            n=trace[i][1]
            for alt in range(1,n):
                newp=[t[0] for t in trace[:i]]+[alt]
                cost=sum(1 for j,(c,nn) in enumerate(newp_trace(newp,trace)) if c!=0 and j>0)
                if cost<=bound: rec(newp)
    def newp_trace(newp,trace): return [(c,0) for c in newp]
    rec([])
    return len(seen), outcomes
t=time.time()
n,out=explore(2)
print(n,'executions',(time.time()-t)/n*1000,'ms each')
for k,v in out.items(): print(v,k)
