import json, subprocess, sys, xml.etree.ElementTree as ET, os
d=sys.argv[1]
out='/tmp/probe/junit.xml'
subprocess.run(f"cd {d} && /venv/bin/python -m pytest -ra -q -p no:cacheprovider --timeout=900 --continue-on-collection-errors --no-cov --junitxml={out}", shell=True, capture_output=True)
b=json.load(open('/root/.vp/BASELINE.json'))
passed=set()
for tc in ET.parse(out).getroot().iter('testcase'):
    if not any(c.tag in('failure','error','skipped') for c in tc):
        passed.add(f"{tc.get('classname')}::{tc.get('name')}")
want=set(b['stable_pass'])
print('passed',len(passed),'baseline',len(want),'missing',len(want-passed))
for t in sorted(want-passed)[:20]: print('  MISSING',t)
