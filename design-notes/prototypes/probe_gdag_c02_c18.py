import boot, itertools, io, contextlib, time, collections, traceback
from pipefunc import Pipeline, PipeFunc
from pipefunc.exceptions import UnusedParametersError
print("=========== p14")
LOG=[]
def mkfunc(name, params, nout):
    src=f"def {name}({', '.join(params)}):\n    LOG.append('{name}')\n"
    args="+','+".join(f"str({p})" for p in params) if params else "''"
    if nout==1: src+=f"    return '{name}('+{args}+')'\n"
    else: src+=f"    return tuple('{name}.'+str(k)+'('+{args}+')' for k in range({nout}))\n"
    ns={'LOG':LOG}; exec(src,ns); return ns[name]
def gen(N):
    # spec: list of (params tuple, nout)
    def rec(k, specs, names):
        if k==N: yield list(specs); return
        pool=['x','y']+names
        for r in range(0,3):
            for ps in itertools.combinations(pool,r):
                for nout in (1,2):
                    outs=[f"o{k}"] if nout==1 else [f"o{k}",f"p{k}"]
                    yield from rec(k+1, specs+[(ps,nout,tuple(outs))], names+outs)
    yield from rec(0,[],[])
def ref_eval(specs, out, kw, defaults=None):
    prod={o:(i,j) for i,(ps,n,outs) in enumerate(specs) for j,o in enumerate(outs)}
    memo={}; ran=[]
    def val(name):
        if name in kw: return kw[name]
        if name in prod:
            i,j=prod[name]; r=run(i); return r[j] if specs[i][1]>1 else r
        raise KeyError(name)
    def run(i):
        if i in memo: return memo[i]
        ps,n,outs=specs[i]
        args=[val(p) for p in ps]; ran.append(i)
        a=','.join(str(v) for v in args)
        memo[i]=f"f{i}({a})" if n==1 else tuple(f"f{i}.{k}({a})" for k in range(n))
        return memo[i]
    if isinstance(out,tuple):
        i,_=prod[out[0]]; return run(i), ran
    return val(out), ran
stats=collections.Counter(); bad=collections.Counter(); examples={}
def note(kind, ex):
    bad[kind]+=1; examples.setdefault(kind, ex)
t=time.time()
for N in (1,2,3):
    for specs in gen(N):
        if N==3 and any(n==2 for _,n,_ in specs[:1]) and False: continue
        funcs=[PipeFunc(mkfunc(f"f{i}",ps,n), outs[0] if n==1 else outs) for i,(ps,n,outs) in enumerate(specs)]
        orders=[list(range(N))] if N==3 else list(itertools.permutations(range(N)))
        for order in orders:
            try:
                with contextlib.redirect_stdout(io.StringIO()):
                    p=Pipeline([funcs[i] for i in order])
            except Exception as e:
                note('construct:'+type(e).__name__, (specs, str(e)[:100])); continue
            outs_all=[o for _,_,outs in specs for o in outs]+[outs for _,n,outs in specs if n>1]
            for out in outs_all:
                try: combos=p.arg_combinations(out)
                except Exception as e: note('argcomb:'+type(e).__name__,(specs,out,str(e)[:100])); continue
                for cut in combos:
                    kw={a:f"<{a}>" for a in cut}
                    stats['calls']+=1
                    LOG.clear()
                    try: exp,ran=ref_eval(specs,out,kw)
                    except KeyError as e: note('ref-not-computable',(specs,out,cut)); continue
                    try:
                        with contextlib.redirect_stdout(io.StringIO()):
                            got=p(out, **kw)
                    except Exception as e:
                        note('call:'+type(e).__name__,(specs,out,cut,str(e)[:120])); continue
                    if got!=exp: note('value',(specs,out,cut,got,exp)); continue
                    if sorted(LOG)!=sorted(f"f{i}" for i in ran): note('calllog',(specs,out,cut,list(LOG),ran)); continue
                    # full_output
                    LOG.clear()
                    try:
                        with contextlib.redirect_stdout(io.StringIO()):
                            fo=p.run(out, full_output=True, kwargs=kw)
                        if fo[out]!=exp: note('full_output value',(specs,out,cut))
                    except Exception as e: note('full:'+type(e).__name__,(specs,out,cut,str(e)[:100]))
                    # surplus
                    try:
                        with contextlib.redirect_stdout(io.StringIO()):
                            p(out, **kw, zzz=1)
                        note('surplus accepted',(specs,out,cut))
                    except UnusedParametersError: pass
                    except Exception as e: note('surplus:'+type(e).__name__,(specs,out,cut,str(e)[:80]))
                    # lazy
                    if order==list(range(N)):
                        try:
                            with contextlib.redirect_stdout(io.StringIO()):
                                pl=Pipeline([funcs[i] for i in order], lazy=True)
                                LOG.clear(); lz=pl(out, **kw)
                                pre=list(LOG); v=lz.evaluate() if hasattr(lz,'evaluate') else lz; v2=lz.evaluate() if hasattr(lz,'evaluate') else lz
                            if pre: note('lazy ran early',(specs,out,cut,pre))
                            if v!=exp or v2!=exp: note('lazy value',(specs,out,cut,v,exp))
                            if sorted(LOG)!=sorted(f"f{i}" for i in ran): note('lazy calllog',(specs,out,cut,list(LOG),ran))
                        except Exception as e: note('lazy:'+type(e).__name__,(specs,out,cut,str(e)[:100]))
        stats['pipelines']+=1
    print(N, dict(stats), f"{time.time()-t:.1f}s")
print(dict(bad))
for k,v in examples.items(): print(k, '::', str(v)[:400])
