import boot, itertools, io, contextlib, time, collections, numpy as np, traceback, sys
from pipefunc import Pipeline, PipeFunc
print("=========== p18")
SIZES={'i':2,'j':3,'k':2,'u':2,'w':3}
def T(x):
    if isinstance(x, np.ndarray):
        if x.ndim==0: return T(x.item())
        return '['+','.join(T(e) for e in x)+']'
    if isinstance(x,(list,tuple)): return '['+','.join(T(e) for e in x)+']'
    if x is np.ma.masked: return '~'
    return str(x)
def mkbody(fn):
    name, params, nout, internal = fn['name'], fn['params'], len(fn['outs']), fn['internal']
    ishape=tuple(SIZES[a] for a in internal)
    def body(**kw):
        args=','.join(T(kw[p]) for p in params)
        def one(tag):
            if not ishape: return f"{tag}({args})"
            arr=np.empty(ishape,dtype=object)
            for idx in itertools.product(*map(range,ishape)): arr[idx]=f"{tag}{list(idx)}({args})"
            return arr
        if nout==1: return one(name)
        return tuple(one(f"{name}.{k}") for k in range(nout))
    # need a signature with the right param names
    src=f"def {name}({', '.join(params)}):\n    return _body({', '.join(f'{p}={p}' for p in params)})\n"
    ns={'_body':body}; exec(src,ns); return ns[name]
def spec_str(fn):
    if fn['ms'] is None: return None
    ins=', '.join(f"{p}[{', '.join(a or ':' for a in axes)}]" for p,axes in fn['ms'].items()) or '...'
    outs=', '.join(f"{o}[{', '.join(fn['out_axes'])}]" for o in fn['outs'])
    return f"{ins} -> {outs}"
def ref_eval(funcs, inputs):
    env=dict(inputs); 
    for fn in funcs:
        name, params, outs, internal = fn['name'], fn['params'], fn['outs'], fn['internal']
        tags=[name] if len(outs)==1 else [f"{name}.{k}" for k in range(len(outs))]
        if fn['ms'] is None:
            args=','.join(T(env[p]) for p in params)
            for o,tag in zip(outs,tags):
                if internal:
                    ishape=tuple(SIZES[a] for a in internal); arr=np.empty(ishape,dtype=object)
                    for idx in itertools.product(*map(range,ishape)): arr[idx]=f"{tag}{list(idx)}({args})"
                    env[o]=arr
                else: env[o]=f"{tag}({args})"
            continue
        ext=[a for a in fn['out_axes'] if a not in internal]
        size={}
        for p,axes in fn['ms'].items():
            arr=np.asarray(env[p],dtype=object) if not isinstance(env[p],np.ndarray) else env[p]
            for d,a in enumerate(axes):
                if a: size[a]=arr.shape[d]
        for a in internal: size[a]=SIZES[a]
        oshape=tuple(size[a] for a in fn['out_axes'])
        res={o:np.empty(oshape,dtype=object) for o in outs}
        for eidx in itertools.product(*(range(size[a]) for a in ext)):
            ids=dict(zip(ext,eidx)); vals={}
            for p in params:
                if p in fn['ms']:
                    arr=np.asarray(env[p],dtype=object) if not isinstance(env[p],np.ndarray) else env[p]
                    vals[p]=arr[tuple(ids[a] if a else slice(None) for a in fn['ms'][p])]
                else: vals[p]=env[p]
            args=','.join(T(vals[p]) for p in params)
            for iidx in itertools.product(*(range(size[a]) for a in internal)):
                ii=dict(zip(internal,iidx)); full=tuple(ids[a] if a in ids else ii[a] for a in fn['out_axes'])
                for o,tag in zip(outs,tags):
                    res[o][full]= f"{tag}{list(iidx)}({args})" if internal else f"{tag}({args})"
        env.update(res)
    return env
# ---------------- generator
def layer(avail, lvl, fresh_roots):
    """avail: dict array name -> axes tuple (names). yields function dicts + new roots dict"""
    names=list(avail)
    for r in (1,2):
      for arrs in itertools.combinations(names,r):
        # per-array axis patterns: keep all / one ':' / whole(unlisted)
        pats=[]
        for a in arrs:
            axes=avail[a]; opts=[tuple(axes)]
            for d in range(len(axes)): opts.append(tuple(None if e==d else ax for e,ax in enumerate(axes)))
            opts.append('whole')
            pats.append(opts)
        for combo in itertools.product(*pats):
            ms={a:p for a,p in zip(arrs,combo) if p!='whole'}
            kept=[]
            for p in ms.values():
                for ax in p:
                    if ax and ax not in kept: kept.append(ax)
            if not ms:
                # no mapspec at all (full reduction)
                yield dict(params=list(arrs), ms=None, out_axes=(), internal=()), {}
                continue
            perms=[tuple(kept)] if len(kept)<2 else [tuple(kept), tuple(reversed(kept))]
            for perm in perms:
                for internal_pos in [None]+list(range(len(perm)+1)):
                    if internal_pos is None: oa=perm; internal=()
                    else:
                        ia='u' if 'u' not in avail_all_axes(avail) else 'w'
                        oa=perm[:internal_pos]+(ia,)+perm[internal_pos:]; internal=(ia,)
                    yield dict(params=list(arrs), ms=dict(ms), out_axes=oa, internal=internal), {}
def avail_all_axes(avail): return {ax for axes in avail.values() for ax in axes}
def pipelines():
    roots_opts=[{'x':('i',)}, {'x':('i',),'y':('i',)}, {'x':('i',),'y':('j',)}, {'x':('i','j')}, {'x':('i','j'),'y':('j',)}]
    for roots in roots_opts:
        for f1,_ in layer(roots,1,None):
            if set(f1['params'])!=set(roots): continue   # use all roots in f1
            for nout in (1,2):
                fn1=dict(f1,name='f',outs=('a',) if nout==1 else ('a','b'))
                yield roots,[fn1]
                if fn1['ms'] is None: outaxes=tuple(fn1['internal'])
                else: outaxes=fn1['out_axes']
                if not outaxes: 
                    # scalar output: consumer without mapspec
                    yield roots,[fn1, dict(name='g',params=['a'],ms=None,out_axes=(),internal=(),outs=('c',))]
                    continue
                avail2={o:outaxes for o in fn1['outs']}
                for f2,_ in layer(avail2,2,None):
                    if 'a' not in f2['params']: continue
                    fn2=dict(f2,name='g',outs=('c',))
                    yield roots,[fn1,fn2]
def make_inputs(roots):
    inp={}
    for r,axes in roots.items():
        shape=tuple(SIZES[a] for a in axes)
        arr=np.empty(shape,dtype=object)
        for idx in itertools.product(*map(range,shape)): arr[idx]=r+''.join(map(str,idx))
        inp[r]=list(arr) if len(shape)==1 else arr
    return inp
bad=collections.Counter(); ex={}; n=0; t=time.time(); feats=collections.Counter()
for roots,funcs in pipelines():
    n+=1
    inputs=make_inputs(roots)
    try: exp=ref_eval(funcs,inputs)
    except Exception as e:
        bad['REF:'+type(e).__name__]+=1; ex.setdefault('REF:'+type(e).__name__,(roots,[spec_str(f) for f in funcs],traceback.format_exc()[-300:])); continue
    internal_shapes={}
    for fn in funcs:
        if fn['internal']:
            for o in fn['outs']: internal_shapes[o]=tuple(SIZES[a] for a in fn['internal'])
        if fn['internal'] and fn['ms'] is not None and fn['out_axes'].index(fn['internal'][0])<len(fn['out_axes'])-1: feats['internal not last']+=1
        if fn['ms'] is not None and any(None in ax for ax in fn['ms'].values()): feats['partial :']+=1
    try:
        with contextlib.redirect_stdout(io.StringIO()):
            pfs=[]
            for fn in funcs:
                # a no-mapspec producer with internal axes consumed by index needs an autogen mapspec: pipefunc handles
                pfs.append(PipeFunc(mkbody(fn), fn['outs'][0] if len(fn['outs'])==1 else fn['outs'], mapspec=spec_str(fn)))
            p=Pipeline(pfs)
            r=p.map(inputs, parallel=False, storage='dict', internal_shapes=internal_shapes or None)
    except Exception as e:
        tb=traceback.extract_tb(e.__traceback__); site=next((f"{fr.filename.split('/')[-1]}:{fr.name}" for fr in reversed(tb) if '/pipefunc/' in fr.filename),'?')
        k=f"EXC {type(e).__name__} @{site}"; bad[k]+=1; ex.setdefault(k,(roots,[spec_str(f) for f in funcs],str(e)[:150])); continue
    for fn in funcs:
        for o in fn['outs']:
            if T(r[o].output)!=T(exp[o]) or np.shape(r[o].output)!=np.shape(exp[o]):
                k='MISMATCH'; bad[k]+=1; ex.setdefault(k,(roots,[spec_str(f) for f in funcs],o,T(r[o].output)[:120],T(exp[o])[:120])); break
print(n,'pipelines',f"{time.time()-t:.1f}s", dict(feats))
for k,v in bad.items(): print(v,k)
for k,v in ex.items(): print(k,'::',str(v)[:600])
