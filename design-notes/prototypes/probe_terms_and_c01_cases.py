import boot, numpy as np, io, contextlib, traceback
from pipefunc import Pipeline, PipeFunc

def T(x):
    if isinstance(x, np.ndarray):
        if x.ndim==0: return T(x.item())
        return '['+','.join(T(e) for e in (x if x.ndim>1 else list(x)))+']'
    if isinstance(x,(list,tuple)): return '['+','.join(T(e) for e in x)+']'
    if x is np.ma.masked: return '~'
    return str(x)

def case(title, fn):
    print('---', title)
    try:
        with contextlib.redirect_stdout(io.StringIO()):
            r = fn()
        print('OK', r)
    except Exception as e:
        print('EXC', type(e).__name__, str(e)[:300])

# 1. internal axis before mapped axis
def c1():
    def gen(x): return [f"gen({x},{k})" for k in range(2)]
    f = PipeFunc(gen, 'v', mapspec='x[i] -> v[j, i]', internal_shape=(2,))
    p = Pipeline([f])
    r = p.map({'x':[10,20,30]}, parallel=False, storage='dict')
    return T(r['v'].output), r['v'].output.shape
case('internal axis before mapped axis', c1)
def c1b():
    def gen(x): return [f"gen({x},{k})" for k in range(2)]
    f = PipeFunc(gen, 'v', mapspec='x[i] -> v[i, j]', internal_shape=(2,))
    p = Pipeline([f])
    r = p.map({'x':[10,20,30]}, parallel=False, storage='dict')
    return T(r['v'].output), r['v'].output.shape
case('internal axis after mapped axis', c1b)

# 2. ':' on one output of a tuple-output function
def c2():
    def two(x): return (f"a({x})", f"b({x})")
    def red(a, b): return f"red({T(a)},{b})"
    f = PipeFunc(two, ('a','b'), mapspec='x[i] -> a[i], b[i]')
    g = PipeFunc(red, 'c', mapspec='a[:], b[i] -> c[i]')
    p = Pipeline([f,g])
    r = p.map({'x':[1,2]}, parallel=False, storage='dict')
    return T(r['c'].output)
case("':' on one output of tuple-output", c2)

# 3. generator '... -> v[j]' consumed elementwise
def c3():
    def gen(n): return [f"g{k}" for k in range(n)]
    def use(v, y): return f"use({v},{y})"
    f = PipeFunc(gen, 'v', mapspec='... -> v[j]', internal_shape=(3,))
    g = PipeFunc(use, 'w', mapspec='v[j], y[k] -> w[j, k]')
    p = Pipeline([f,g])
    r = p.map({'n':3,'y':[7,8]}, parallel=False, storage='dict')
    return T(r['w'].output)
case('generator consumed', c3)

# 4. producer w/o mapspec consumed with mapspec (autogen)
def c4():
    def gen(n): return [f"g{k}" for k in range(n)]
    def use(v): return f"use({v})"
    f = PipeFunc(gen, 'v')
    g = PipeFunc(use, 'w', mapspec='v[j] -> w[j]')
    p = Pipeline([f,g])
    r = p.map({'n':3}, parallel=False, storage='dict', internal_shapes={'v':(3,)})
    return T(r['w'].output), str(p['v'].mapspec)
case('autogen mapspec', c4)

# 5. 2-D internal + external interleaved 
def c5():
    def gen(x, y): return np.array([[f"e({x},{y},{a},{b})" for b in range(2)] for a in range(3)], dtype=object)
    f = PipeFunc(gen, 'v', mapspec='x[i], y[k] -> v[i, a, k, b]', internal_shape=(3,2))
    p = Pipeline([f])
    r = p.map({'x':[1,2],'y':[5]}, parallel=False, storage='dict')
    return T(r['v'].output), r['v'].output.shape
case('interleaved internal', c5)
def c5f():
    import tempfile
    def gen(x, y): return np.array([[f"e({x},{y},{a},{b})" for b in range(2)] for a in range(3)], dtype=object)
    f = PipeFunc(gen, 'v', mapspec='x[i], y[k] -> v[i, a, k, b]', internal_shape=(3,2))
    p = Pipeline([f])
    d=tempfile.mkdtemp()
    r = p.map({'x':[1,2],'y':[5]}, d, parallel=False, storage='file_array')
    from pipefunc.map import load_outputs
    return T(r['v'].output)==T(load_outputs('v', run_folder=d)), load_outputs('v', run_folder=d).shape
case('interleaved internal file', c5f)
