import sys
sys.modules['zarr'] = None
import pipefunc, pipefunc.map
