import boot, numpy as np, io, builtins, contextlib, os, sys, tempfile, shutil, time, pickle, json, traceback
from pipefunc import Pipeline, PipeFunc
from pipefunc.map import load_outputs
from probe_terms_and_c01_cases import T

ROOT=None
class Ctl:
    crash_at=None; n=0; log=[]
    @classmethod
    def event(cls, kind, path, extra=None):
        cls.n+=1
        cls.log.append((cls.n, kind, os.path.relpath(str(path), ROOT), extra))
        if cls.crash_at is not None and cls.n==cls.crash_at[0]:
            return True
        return False

_real_open = io.open
class WFile:
    def __init__(self, path, mode, **kw):
        self.path=path; self.binary='b' in mode
        self.f=_real_open(path, mode if self.binary else mode, **kw) if False else None
        self.fd=os.open(path, os.O_WRONLY|os.O_CREAT|os.O_TRUNC, 0o644)
    def write(self, data):
        b = data if isinstance(data,(bytes,bytearray,memoryview)) else data.encode()
        b=bytes(b)
        if Ctl.event('write', self.path, len(b)):
            frac=Ctl.crash_at[1]
            os.write(self.fd, b[:int(len(b)*frac)]); os._exit(77)
        os.write(self.fd, b); return len(data)
    def flush(self): pass
    def close(self):
        if self.fd is not None:
            if Ctl.event('close', self.path): os._exit(77)
            os.close(self.fd); self.fd=None
    def __enter__(self): return self
    def __exit__(self,*a): self.close()
    def writable(self): return True
def my_open(file, mode='r', *a, **kw):
    p=os.fspath(file)
    if isinstance(p,str) and ROOT and os.path.abspath(p).startswith(ROOT) and any(c in mode for c in 'wax+'):
        if Ctl.event('open', p, mode): os._exit(77)
        return WFile(p, mode)
    return _real_open(file, mode, *a, **kw)
def hook(ev, args):
    if ROOT is None: return
    if ev in ('os.mkdir','os.remove','os.rmdir','os.rename'):
        p=args[0]
        try: ap=os.path.abspath(os.fspath(p))
        except Exception: return
        dir_fd = args[-1] if ev!='os.rename' else None
        if (isinstance(ap,str) and ap.startswith(ROOT)) or (dir_fd not in (None,-1)):
            if dir_fd not in (None,-1) and isinstance(dir_fd,int):
                try: ap=os.path.join(os.readlink(f'/proc/self/fd/{dir_fd}'), os.fspath(p))
                except Exception: pass
                if not ap.startswith(ROOT): return
            if Ctl.event(ev, ap): os._exit(77)
sys.addaudithook(hook)
io.open=my_open; builtins.open=my_open

calls=[]
def f(x): calls.append(('f',x)); return f"f({x})"
def g(y): calls.append(('g',)); return f"g({T(y)})"
def build(): return Pipeline([PipeFunc(f,'y',mapspec='x[i] -> y[i]'), PipeFunc(g,'w')])

def run_child(d, crash_at, cleanup, out):
    global ROOT
    pid=os.fork()
    if pid==0:
        try:
            ROOT=os.path.abspath(d); Ctl.crash_at=crash_at; Ctl.n=0; Ctl.log=[]
            calls.clear()
            with contextlib.redirect_stdout(io.StringIO()):
                r=build().map({'x':[1,2]}, d, parallel=False, storage='file_array', cleanup=cleanup)
            ROOT=None
            with _real_open(out,'w') as fh: json.dump({'w':r['w'].output,'y':T(r['y'].output),'calls':calls,'n':Ctl.n,'log':Ctl.log}, fh)
            os._exit(0)
        except BaseException as e:
            ROOT=None
            with _real_open(out,'w') as fh: json.dump({'exc':f"{type(e).__name__}: {e}"[:300],'calls':calls,'n':Ctl.n}, fh)
            os._exit(1)
    _,st=os.waitpid(pid,0)
    code=os.waitstatus_to_exitcode(st)
    res=json.load(_real_open(out)) if code in (0,1) and os.path.exists(out) else None
    if os.path.exists(out): os.remove(out)
    return code,res

base=tempfile.mkdtemp(); d=os.path.join(base,'run'); out=os.path.join(base,'out.json')
code,ref=run_child(d,None,True,out)
print('reference', code, ref['w'], ref['n'], 'events')
for e in ref['log']: print('  ',e)
bad=0; t=time.time(); tot=0
for k in range(1, ref['n']+1):
    for frac in ((0.0,0.5) if ref['log'][k-1][1]=='write' else (0.0,)):
        shutil.rmtree(d, ignore_errors=True)
        code,_=run_child(d,(k,frac),True,out)
        assert code==77, code
        code2,res=run_child(d,None,False,out)
        tot+=1
        if code2!=0 or res['w']!=ref['w']:
            bad+=1; print('crash@',k,frac,ref['log'][k-1][1:3],'-> resume', code2, (res or {}).get('exc'))
print(tot,'crash points',bad,'bad', (time.time()-t)/tot*1000,'ms each')
shutil.rmtree(base)
