"""Known-finding matching (DESIGN.md §6). The file is read-only at run time."""
from __future__ import annotations

import json
import os
import traceback

from . import boot

PATH = os.path.join(boot.VERIF, "known_findings.json")


def load(pid: str) -> list[dict]:
    if not os.path.exists(PATH):
        return []
    with open(PATH) as fh:
        data = json.load(fh)
    return [e for e in data.get("findings", []) if e.get("property") == pid]


def matches(entry: dict, sig: dict) -> bool:
    """An entry matches only if it is 'known' and every key of its signature equals the violation's."""
    if entry.get("status") != "known":
        return False
    want = entry.get("signature") or {}
    if not want:
        return False
    for k, v in want.items():
        got = sig.get(k, None)
        if isinstance(v, list):
            if got not in v:
                return False
        elif got != v:
            return False
    return True


def match(entries: list[dict], sig: dict) -> dict | None:
    for e in entries:
        if matches(e, sig):
            return e
    return None


def exc_site(e: BaseException) -> str:
    """Innermost pipefunc frame of an exception as 'file.py:function' (no line numbers)."""
    tb = traceback.extract_tb(e.__traceback__)
    for fr in reversed(tb):
        fn = fr.filename.replace("\\", "/")
        if "/pipefunc/" in fn and "/vmc/" not in fn:
            return f"{fn.split('/pipefunc/')[-1]}:{fr.name}"
    return "?"


def exc_sig(e: BaseException, **extra) -> dict:
    d = {"kind": "exception", "exc": type(e).__name__, "site": exc_site(e)}
    d.update(extra)
    return d
