"""Process bootstrap shared by every check.

* pins PYTHONHASHSEED (re-exec) so that set/dict-of-str iteration inside pipefunc — and therefore the order
  of file-system events — is the same in every process of a run;
* blocks the zarr import (zarr 3.4 in this image raises AttributeError inside pipefunc.map's
  ``suppress(ImportError)``; ``sys.modules['zarr'] = None`` turns it into the ImportError pipefunc handles);
* puts VERIF_REPO (default /repo) first on sys.path so scratch copies can be checked;
* provides a scratch root on /dev/shm (falls back to the system temp dir).
"""
from __future__ import annotations

import os
import sys
import tempfile

REPO = os.environ.get("VERIF_REPO", "/repo")
VERIF = os.path.dirname(os.path.dirname(os.path.abspath(__file__)))
GUARD = "PIPEFUNC_VERIF"


def pin_hashseed() -> None:
    if os.environ.get("PYTHONHASHSEED") != "0":
        os.environ["PYTHONHASHSEED"] = "0"
        os.execv(sys.executable, [sys.executable, "-m", "vmc.runner", *sys.argv[1:]])


def preboot() -> None:
    """everything that must happen before the first `import pipefunc` (called when the vmc package is imported)"""
    os.environ.setdefault(GUARD, "1")
    sys.modules.setdefault("zarr", None)  # type: ignore[arg-type]
    if REPO not in sys.path:
        sys.path.insert(0, REPO)


def boot() -> None:
    preboot()
    import pipefunc  # noqa: F401
    import pipefunc.map  # noqa: F401

    got = os.path.dirname(os.path.dirname(os.path.abspath(pipefunc.__file__)))
    if os.path.realpath(got) != os.path.realpath(REPO):
        raise SystemExit(f"vmc.boot: pipefunc imported from {got}, expected {REPO}")


def scratch_root() -> str:
    if os.environ.get("VMC_SCRATCH") and os.path.isdir(os.environ["VMC_SCRATCH"]):
        return os.environ["VMC_SCRATCH"]  # per-invocation directory made and removed by ./check
    base = "/dev/shm" if os.path.isdir("/dev/shm") and os.access("/dev/shm", os.W_OK) else tempfile.gettempdir()
    return base


def mkscratch(prefix: str = "vmc-") -> str:
    return tempfile.mkdtemp(prefix=prefix, dir=scratch_root())
