"""Controllable executor + virtual asyncio loop for exploring task schedules of Pipeline.map / map_async
(DESIGN.md §3.1, §5 C03).

The executor is passed through the public ``executor=`` argument. A submitted task does not run until the scheduler
says so. Scheduling points:
  * every ``submit`` return       — default: the caller continues; alternatives: run pending task k now (cost 1)
  * every ``Future.result()`` on an unfinished future — some pending task MUST run; default: the oldest (cost 0),
    alternatives: any other pending task (cost 1); repeated until the awaited future is done
  * (async) every loop iteration — default: run the next ready handle / the oldest pending task if the loop is idle;
    alternatives: complete a pending task before the loop proceeds, or another pending task first (cost 1)
A blocked ``result()`` or an idle loop with no pending task is reported as a hang. Tasks run atomically on the
caller's thread in this engine (task-splitting is in vmc/threads-based mode, C03 thorough).
"""
from __future__ import annotations

import asyncio
from concurrent.futures import Executor, Future
from typing import Any

from .explore import Chooser

HORIZON = 10000


class Hang(RuntimeError):
    pass


class Sched:
    def __init__(self, chooser: Chooser, eager_points: bool = True, eager_loop: bool = True) -> None:
        self.ch = chooser
        self.pending: list[DFuture] = []
        self.eager_points = eager_points
        self.eager_loop = eager_loop  # offer "complete a pending task now" between any two ready loop handles
        self.steps = 0
        self.order: list[Any] = []  # labels of tasks in the order they ran
        self.submitted = 0

    def run_task(self, i: int) -> None:
        fut = self.pending.pop(i)
        self.order.append(fut.label)
        self.steps += 1
        if self.steps > HORIZON:
            raise Hang("horizon exceeded (livelock)")
        if not fut.set_running_or_notify_cancel():
            return
        try:
            r = fut.fn(*fut.args, **fut.kwargs)
        except BaseException as e:  # noqa: BLE001
            fut.set_exception(e)
        else:
            fut.set_result(r)

    def after_submit(self) -> None:
        if not self.eager_points:
            return
        n = len(self.pending)
        c = self.ch.choose(1 + n, (0,) + (1,) * n, label=("submit", n))
        if c:
            self.run_task(c - 1)

    def force(self, want: "DFuture") -> None:
        """called from result() of an unfinished future"""
        while not want.done():
            if not self.pending:
                raise Hang("result() awaited but no task is pending (deadlock)")
            n = len(self.pending)
            c = self.ch.choose(n, (0,) + (1,) * (n - 1), label=("result", n))
            self.run_task(c)


class DFuture(Future):
    def __init__(self, sched: Sched, fn, args, kwargs, label) -> None:
        super().__init__()
        self.sched, self.fn, self.args, self.kwargs, self.label = sched, fn, args, kwargs, label

    def result(self, timeout=None):
        if not self.done():
            self.sched.force(self)
        return super().result(0)

    def exception(self, timeout=None):
        if not self.done():
            self.sched.force(self)
        return super().exception(0)


class DeferredExecutor(Executor):
    def __init__(self, sched: Sched, name: str = "ex") -> None:
        self.sched = sched
        self.name = name
        self.nsubmitted = 0
        self.shutdown_called = False

    def submit(self, fn, /, *args, **kwargs):
        self.nsubmitted += 1
        self.sched.submitted += 1
        label = (self.name, self.sched.submitted)
        f = DFuture(self.sched, fn, args, kwargs, label)
        self.sched.pending.append(f)
        self.sched.after_submit()
        return f

    def shutdown(self, wait=True, *, cancel_futures=False):
        self.shutdown_called = True


# ------------------------------------------------------------------------------------------------
class VirtualLoop(asyncio.BaseEventLoop):
    """An event loop without selector and with a virtual clock; the harness pops _ready / _scheduled by hand."""

    def __init__(self) -> None:
        super().__init__()
        self._vt = 0.0

    def time(self) -> float:
        return self._vt

    def _write_to_self(self) -> None:
        pass

    def _process_events(self, event_list) -> None:
        pass


def run_async(main_factory, sched: Sched):
    """Drive `await main_factory()` on a VirtualLoop, interleaving loop handles and pending executor tasks by choice."""
    loop = VirtualLoop()
    asyncio.events._set_running_loop(loop)
    try:
        task = loop.create_task(main_factory())
        guard = 0
        while not task.done():
            guard += 1
            if guard > HORIZON:
                raise Hang("async horizon exceeded")
            # timers whose time has come
            while loop._scheduled and loop._scheduled[0]._when <= loop._vt:
                import heapq
                h = heapq.heappop(loop._scheduled)
                h._scheduled = False
                if not h._cancelled:
                    loop._ready.append(h)
            n = len(sched.pending)
            if loop._ready:
                c = sched.ch.choose(1 + n, (0,) + (1,) * n, label=("loop-ready", n)) if (sched.eager_loop and n) else 0
                if c == 0:
                    h = loop._ready.popleft()
                    if not h._cancelled:
                        h._run()
                else:
                    sched.run_task(c - 1)
            elif n:
                c = sched.ch.choose(n, (0,) + (1,) * (n - 1), label=("loop-idle", n))
                sched.run_task(c)
            elif loop._scheduled:
                import heapq
                h = heapq.heappop(loop._scheduled)
                h._scheduled = False
                loop._vt = max(loop._vt, h._when)
                if not h._cancelled:
                    loop._ready.append(h)
            else:
                raise Hang("event loop idle, nothing pending, task not done (hang)")
        return task.result()
    finally:
        asyncio.events._set_running_loop(None)
        try:
            loop.close()
        except Exception:  # noqa: BLE001, S110
            pass
