"""C08 — MapSpec parsing, printing, shapes and index maps are mutually consistent (DESIGN.md §5 C08).

Bounded-exhaustive enumeration of MapSpec structures, string forms, input shapes and linear indices against an
own reference printer / parser / denotation (all in this file, nothing of pipefunc is reused by the oracle).

A *spec* is the JSON structure ``{"ins": [[name, [axis|None, ...]], ...], "outs": [[name, [axis, ...]], ...]}``
(``None`` is ``:``).  Reference denotation of a well-formed spec:

* used      = index names occurring in the inputs; ext = output axes (of the first output) that are used, in output
              order; the other output axes are internal;
* shape     : every input shape must have the rank of its array and every index one common size, else *must raise*;
              otherwise (size of each output axis, mask = axis is external);
* keys      : linear index n of the external shape <-> n-th element of the row-major product of the external ranges;
              input key of array x = that position at the named axes of x, a full slice at ``:``.

Three-valued oracle: must-hold / must-raise / unconstrained.  Unconstrained (recorded as outcomes, never flagged):
syntax errors that are none of the statement's malformed classes (missing comma / bracket / arrow, duplicated arrow,
empty axis list), a repeated index inside one array, the exception *type* of a rejection, and whether unusual white
space (before ``[``, a newline inside brackets) is accepted at all — but *if* such a string is accepted it has to
denote what is written (for the syntax mutations: printing the accepted spec gives the string back, up to white space).
"""
from __future__ import annotations

import functools
import itertools
import json
import math
import re

from pipefunc.map import MapSpec
from pipefunc.map._mapspec import ArraySpec

from .. import findings
from ..acc import Acc

ID = "C08"
LEVEL = "exploration"
TECHNIQUE = "bounded-exhaustive enumeration of MapSpec structures x strings x shapes x linear indices against an own parser/printer/denotation"
RULE = ("every MapSpec structure with <=2 inputs of rank<=3 (plus 3 inputs of total rank <=4; thorough: 3 inputs of total rank "
        "<=6), <=4 index names (canonical by first appearance in the inputs; every injective renaming into i,j,k,l is "
        "covered by a separate stage), ':' at any input axis, output = every permutation of the used indices with <=1 extra "
        "internal index at every position (1 or 2 internal indices for the '...' form), 1 or 2 outputs, three name styles "
        "(plain, scoped, mixed); per structure: 9 white-space renderings + 3 unusual ones; every single-edit mutation of a "
        "fixed operator list, as a string and by direct construction (quick: structures with <=5 input axes; thorough: also the "
        "two-input structures with 6); every tuple of input shapes with sizes 1..3 (quick: 1..2 for two outputs or 6 input "
        "axes; thorough: 1..4 for <=2 inputs, one less for two outputs, 1..2 for three inputs with 6 axes) incl. mismatching ones, plus one-axis rank edits; every "
        "assignment of those sizes to the external indices x every linear index; renames of every non-empty subset of array "
        "names (+ swap, identity, unrelated and index-name keys); add_axes with 1-2 fresh names; every other injective naming of "
        "the indices into i,j,k,l on one generic size assignment. An evaluation is one call (or one output_key+input_keys pair "
        "at one linear index) compared with the reference. non-trivial = distinct spec (structure incl. array and index names) "
        "with >=2 distinct index names or a ':'")
ASSUMPTIONS = ["the reference grammar: spec := side '->' side; side := '...' | array (',' array)*; array := name '[' axis (',' axis)* ']'; "
               "a name is ident or ident.ident; an axis is ident or ':'",
               "a rejection may be any Exception subclass (the statement fixes no type)",
               "shape() is called with internal_shapes for every output name whenever the output has an internal index",
               "index-name symmetry: the heavy shape/index sweeps use index names canonical by first appearance; the 23 other "
               "injective namings are checked with one generic size assignment each"]
BUDGET = {"quick": 200.0, "thorough": 1200.0}

NAMES = "ijkl"
IN_NAMES = ("a", "b", "c")
OUT_NAMES = ("y", "z")
GENERIC = {"i": 2, "j": 3, "k": 2, "l": 3, "m": 2, "h": 3, "n": 2}
SL = slice(None)


# =================================================================================================
# reference printer / parser / classification
def valid_name(n):
    parts = n.split(".")
    return isinstance(n, str) and len(parts) in (1, 2) and all(p.isidentifier() for p in parts)


def valid_axis(a):
    return a is None or (isinstance(a, str) and a.isidentifier())


WS_MUST = ("canon", "none", "doubled", "arrow-only", "comma-both", "inside-brackets", "outer", "tabs", "newline-between")
WS_UNUSUAL = ("space-before-bracket-in", "space-before-bracket-out", "newline-in-brackets")
# Unusual white space may be rejected (unconstrained), but a string that is *accepted* has to denote what is written
# ("parsing ... mutually consistent", quantifier "arbitrary whitespace"). Set to False to only record the outcome.
UNUSUAL_WS_MISPARSE_IS_VIOLATION = True


def render(spec, ws="canon", which=0):
    """own printer; `which` selects the array that receives the unusual white space"""
    comma, arrow, lb, rb, icomma, pre, post = ", ", " -> ", "[", "]", ", ", "", ""
    if ws == "none":
        comma, arrow, icomma = ",", "->", ","
    elif ws == "doubled":
        comma, arrow, icomma = ",  ", "  ->  ", ",  "
    elif ws == "arrow-only":
        comma, icomma = ",", ","
    elif ws == "comma-both":
        comma, icomma = " , ", " , "
    elif ws == "inside-brackets":
        lb, rb = "[ ", " ]"
    elif ws == "outer":
        pre, post = "  ", "   "
    elif ws == "tabs":
        comma, arrow, icomma = ",\t", "\t->\t", ",\t"
    elif ws == "newline-between":
        comma, arrow = ",\n", "\n->\n"

    def arr(k, name, axes, side):
        l = lb
        if ws == "space-before-bracket-in" and side == "in" and k == which:
            l = " ["
        if ws == "space-before-bracket-out" and side == "out" and k == which:
            l = " ["
        if ws == "newline-in-brackets" and side == "in" and k == which:
            l = "[\n"
        return f"{name}{l}{icomma.join(':' if a is None else a for a in axes)}{rb}"

    ins = comma.join(arr(k, n, ax, "in") for k, (n, ax) in enumerate(spec["ins"])) if spec["ins"] else "..."
    outs = comma.join(arr(k, n, ax, "out") for k, (n, ax) in enumerate(spec["outs"]))
    return f"{pre}{ins}{arrow}{outs}{post}"


class RefSyntax(Exception):
    pass


_ARRAY = re.compile(r"\s*([^\[\],]*?)\s*\[([^\[\]]*)\]\s*")


def ref_parse(s):
    """own parser (strict grammar of ASSUMPTIONS); returns a spec structure or raises RefSyntax"""
    sides = s.split("->")
    if len(sides) != 2:
        raise RefSyntax("arrow")
    out = []
    for side in sides:
        if side.strip() == "...":
            out.append([])
            continue
        parsed, pos = [], 0
        while True:
            mm = _ARRAY.match(side, pos)  # anchored at pos: name '[' axes ']' and nothing else
            if mm is None:
                raise RefSyntax("array")
            if not mm.group(2).strip():
                raise RefSyntax("empty-axes")
            parsed.append([mm.group(1), [None if x.strip() == ":" else x.strip() for x in mm.group(2).split(",")]])
            pos = mm.end()
            if pos == len(side):
                break
            if side[pos] != ",":
                raise RefSyntax("separator")
            pos += 1
        out.append(parsed)
    if not out[1]:
        raise RefSyntax("no-output")
    return {"ins": out[0], "outs": out[1]}


def classify(spec):
    """malformed classes of the statement that apply to a structure ([] = well-formed w.r.t. the statement)"""
    cls = []
    if not all(valid_name(n) for n, _ in spec["ins"] + spec["outs"]):
        cls.append("nonident-array-name")
    if not all(valid_axis(a) for _, ax in spec["ins"] + spec["outs"] for a in ax):
        cls.append("nonident-index-name")
    if any(a is None for _, ax in spec["outs"] for a in ax):
        cls.append("colon-in-output")
    o0 = [a for a in spec["outs"][0][1] if a is not None]
    if any([a for a in ax if a is not None] != o0 for _, ax in spec["outs"][1:]):
        cls.append("outputs-differ")
    if {a for _, ax in spec["ins"] for a in ax if a is not None} - set(o0):
        cls.append("input-index-absent")
    return cls


def prep(spec):
    ins, outs = spec["ins"], spec["outs"]
    used = {a for _, ax in ins for a in ax if a is not None}
    oax = list(outs[0][1])
    ext = [a for a in oax if a in used]
    return {"ins": ins, "outs": outs, "in_names": [n for n, _ in ins], "out_names": [n for n, _ in outs], "used": used, "oax": oax,
            "ext": ext, "internal": [a for a in oax if a not in used],
            "plans": [(n, tuple(None if a is None else ext.index(a) for a in ax)) for n, ax in ins],
            "flat": [a for _, ax in ins for a in ax], "ranks": [len(ax) for _, ax in ins]}


def features(spec):
    names = [n for n, _ in spec["ins"] + spec["outs"]]
    return {"ellipsis": not spec["ins"], "scoped": any("." in n for n in names),
            "colon": any(a is None for _, ax in spec["ins"] for a in ax)}


def spec_key(spec):
    return render(spec, "none")


def nontrivial(spec):
    idx = {a for _, ax in spec["ins"] + spec["outs"] for a in ax if a is not None}
    return len(idx) >= 2 or any(a is None for _, ax in spec["ins"] for a in ax)


# =================================================================================================
# implementation access
def build(spec):
    return MapSpec(tuple(ArraySpec(n, tuple(ax)) for n, ax in spec["ins"]), tuple(ArraySpec(n, tuple(ax)) for n, ax in spec["outs"]))


def struct(m):
    return {"ins": [[x.name, list(x.axes)] for x in m.inputs], "outs": [[x.name, list(x.axes)] for x in m.outputs]}


def _exc(e, **kw):
    return findings.exc_sig(e, **kw)


# =================================================================================================
# checks: each returns a list of (signature, text); `n` evaluations are counted by the callers
def check_print_parse(spec):
    """returns (violations, evaluations, outcomes)"""
    out, ev, oc = [], 0, set()
    f = features(spec)
    ev += 1
    try:
        m = build(spec)
    except Exception as e:  # noqa: BLE001
        return [(_exc(e, check="construct-valid", **f), f"well-formed {render(spec)!r} rejected at construction: {e!r}")], ev, oc
    if struct(m) != spec:
        out.append(({"kind": "value-mismatch", "check": "construct-valid", **f}, f"MapSpec fields differ from what was passed for {render(spec)!r}"))
    ev += 1
    try:
        s = str(m)
        try:
            back = ref_parse(s)
        except RefSyntax as e:
            back = f"<unparseable: {e}>"
        if back != spec:
            out.append(({"kind": "value-mismatch", "check": "str-denotes", **f}, f"str(m) = {s!r} does not denote {render(spec)!r}"))
        m2 = MapSpec.from_string(s)
        if not (m2 == m and struct(m2) == spec):
            out.append(({"kind": "value-mismatch", "check": "roundtrip", **f}, f"from_string(str(m)) != m for {render(spec)!r} (str = {s!r}, back = {m2!s})"))
    except Exception as e:  # noqa: BLE001
        out.append((_exc(e, check="roundtrip", **f), f"str/from_string round trip of {render(spec)!r} raised {e!r}"))
    for ws in WS_MUST:
        w = render(spec, ws)
        ev += 1
        try:
            m2 = MapSpec.from_string(w)
        except Exception as e:  # noqa: BLE001
            out.append((_exc(e, check="ws-variant", ws=ws, **f), f"from_string({w!r}) raised {e!r}"))
            continue
        if not (m2 == m and struct(m2) == spec):
            out.append(({"kind": "misparse", "check": "ws-variant", "ws": ws, **f, "impl": _symptom(spec, m2)},
                        f"from_string({w!r}) gave {m2!s}"))
    for ws in WS_UNUSUAL:
        side = "outs" if ws.endswith("-out") else "ins"
        for which in range(len(spec[side])):
            w = render(spec, ws, which)
            ev += 1
            try:
                m2 = MapSpec.from_string(w)
            except Exception as e:  # noqa: BLE001
                oc.add(f"unusual-ws:{ws}:rejected:{type(e).__name__}")
                continue
            if m2 == m and struct(m2) == spec:
                oc.add(f"unusual-ws:{ws}:accepted-as-written")
            else:
                oc.add(f"unusual-ws:{ws}:misparsed")
                if UNUSUAL_WS_MISPARSE_IS_VIOLATION:
                    out.append(({"kind": "misparse", "check": "ws-variant", "ws": ws.rsplit("-", 1)[0] if ws.startswith("space") else ws,
                                 "side": "output" if side == "outs" else "input", "impl": _symptom(spec, m2)},
                                f"from_string({w!r}) silently gave {m2!s}"))
    return out, ev, oc


def _symptom(intended, m):
    """how an accepted result relates to the intended structure (observable classification for signatures)"""
    got = struct(m)
    if got == intended:
        return "as-written"
    for side in ("ins", "outs"):
        if len(got[side]) < len(intended[side]):
            return "array-dropped"
    for side in ("ins", "outs"):
        if len(got[side]) == len(intended[side]):
            for (gn, _), (wn, _) in zip(got[side], intended[side]):
                if gn != wn and wn.endswith(gn):
                    return "name-truncated"
    return "other"


# -------------------------------------------------------------------------------------------------
BAD_IDX = ("1", "{}-x", "{} x", "", "{}.x", "2{}", "{}:")  # applied to every occurrence of an index name at once
BAD_IDX_ONCE = ("1", "{}-x")  # applied to one occurrence (other malformed classes apply as well)


def bad_names(n):
    """(pattern, name): the pattern is part of the violation signature, so that a known finding about one way of
    spelling a non-identifier does not cover another"""
    base = n.split(".")[-1]
    return [("digit-first", "1" + n), ("hyphen", n + "-x"), ("space", n + " x"), ("empty", ""), ("trailing-dot", n + "."),
            ("leading-dot", "." + n), ("two-dots", "s.t." + base), ("bang", n + "!"), ("digit-first-after-scope", "s.1" + base),
            ("digit-only-after-scope", n.split(".")[0] + ".1")]


def _copy(spec):
    return {"ins": [[n, list(ax)] for n, ax in spec["ins"]], "outs": [[n, list(ax)] for n, ax in spec["outs"]]}


def mutations(spec, only_names=False):
    """single-edit mutation operators -> (mutated structure, operator, {signature extras}).
    Edits of an input array (its name or indices) are generated for the one-output form of a structure only: the
    two-output form differs in nothing an input edit touches; every output-side edit is generated for both."""
    p = prep(spec)
    nout = len(spec["outs"])
    res = []

    def add(s, op, **kw):
        res.append((s, op, kw))

    sides = ("ins", "outs") if nout == 1 else ("outs",)
    if only_names:
        for side in sides:
            for k, (n, _) in enumerate(spec[side]):
                for pat, bad in bad_names(n):
                    s = _copy(spec)
                    s[side][k][0] = bad
                    add(s, "bad-array-name", where=side[:-1] + "put", pattern=pat)
        return res

    for o in range(nout):
        rank = len(spec["outs"][o][1])
        where = "first-output" if o == 0 else "non-first-output"
        for pos in range(rank):
            ax = spec["outs"][o][1][pos]
            if ax in p["used"]:
                s = _copy(spec)
                del s["outs"][o][1][pos]
                add(s, "drop-out-index", where=where)
            s = _copy(spec)
            s["outs"][o][1][pos] = None
            add(s, "colon-replace-out", where=where)
            s = _copy(spec)
            s["outs"][o][1][pos] = "m"
            add(s, "rename-out-index", where=where)
            if pos + 1 < rank and nout == 2:
                s = _copy(spec)
                a = s["outs"][o][1]
                a[pos], a[pos + 1] = a[pos + 1], a[pos]
                add(s, "swap-out-indices", where=where)
        for pos in range(rank + 1):
            s = _copy(spec)
            s["outs"][o][1].insert(pos, None)
            add(s, "colon-insert-out", where=where)
            if nout == 2:
                s = _copy(spec)
                s["outs"][o][1].insert(pos, "m")
                add(s, "add-out-index", where=where)
    if nout == 2:
        for pos in range(len(spec["outs"][0][1]) + 1):
            s = _copy(spec)
            for o in range(nout):
                s["outs"][o][1].insert(pos, None)
            add(s, "colon-insert-out", where="all-outputs")
        for pos, ax in enumerate(spec["outs"][0][1]):
            if ax in p["used"]:
                s = _copy(spec)
                for o in range(nout):
                    del s["outs"][o][1][pos]
                add(s, "drop-out-index", where="all-outputs")
    for k, (_, axes) in enumerate(spec["ins"] if nout == 1 else ()):
        for pos, ax in enumerate(axes):
            if ax is not None:
                s = _copy(spec)
                s["ins"][k][1][pos] = "m"
                add(s, "rename-in-index", where=f"input{k}")
        s = _copy(spec)
        s["ins"][k][1].append("m")
        add(s, "add-in-index", where=f"input{k}")
    # non-identifier names
    for side in sides:
        for k, (n, axes) in enumerate(spec[side]):
            for pat, bad in bad_names(n):
                s = _copy(spec)
                s[side][k][0] = bad
                add(s, "bad-array-name", where=side[:-1] + "put", pattern=pat)
            if side == "outs" and k > 0:
                continue
            for pos, ax in enumerate(axes):
                if ax is not None and (side == "outs") == (ax not in p["used"]):
                    # one occurrence: the first one of a used index in the inputs / an internal index in the first output
                    if any(ax in a2 for _, a2 in spec[side][:k]):
                        continue
                    for b in BAD_IDX_ONCE:
                        s = _copy(spec)
                        s[side][k][1][pos] = b.format(ax)
                        add(s, "bad-index-name-once", where=side[:-1] + "put")
    for ax in sorted({a for _, axs in spec["ins"] + spec["outs"] for a in axs if a is not None}):
        for b in BAD_IDX:
            s = _copy(spec)
            for side in ("ins", "outs"):
                for arr in s[side]:
                    arr[1] = [b.format(ax) if a == ax else a for a in arr[1]]
            add(s, "bad-index-name-everywhere", where="all")
    return res


def _lenient_model(text):
    """defect model of the recorded finding 'from_string is a lenient re.findall': exactly one arrow and both sides still show
    both kinds of bracket (or are '...'), so the up-front guards pass and the regex silently skips the fragment it cannot
    match. An accepted misparse that this model does NOT explain is a different defect."""
    sides = text.split("->")
    return len(sides) == 2 and all(sd.strip() == "..." or ("[" in sd and "]" in sd) for sd in sides)


def syntax_mutations(spec):
    """strings outside the statement's malformed classes: executed, outcome recorded, never flagged"""
    c = render(spec)
    res = [("missing-arrow", c.replace(" -> ", " ")), ("duplicated-arrow", c.replace(" -> ", " -> -> ")),
           ("second-arrow", c + " -> " + c.split(" -> ")[1])]
    if "], " in c:
        res.append(("missing-comma", c.replace("], ", "] ", 1)))
    res.append(("missing-open-bracket", c.replace("[", "", 1)))
    res.append(("missing-close-bracket", c[::-1].replace("]", "", 1)[::-1]))
    for k, (_, axes) in enumerate(spec["ins"]):
        named = [a for a in axes if a is not None]
        if named and len(axes) < 4:
            s = _copy(spec)
            s["ins"][k][1].append(named[0])
            res.append(("repeated-index-in-array", render(s)))
            break
    s = _copy(spec)
    s["outs"][0][1] = []
    res.append(("empty-axis-list", render(s)))
    return res


PRIORITY = ("colon-in-output", "nonident-array-name", "nonident-index-name", "outputs-differ", "input-index-absent")


def check_malformed(mut, via, op, extras, cls=None):
    """mut: mutated structure; must be rejected when one of the statement's classes applies.
    -> None (unconstrained) | ("rejected", exception type) | ("accepted", signature, text)"""
    cls = classify(mut) if cls is None else cls
    if not cls:
        return None  # the edit happened to keep the spec well-formed (e.g. renaming an internal index)
    text_form = None
    try:
        if via == "string":
            text_form = render(mut)
            try:
                if ref_parse(text_form) != mut:
                    return None
            except RefSyntax:
                return None  # not expressible in the reference grammar (e.g. an empty axis list): unconstrained
            m = MapSpec.from_string(text_form)
        else:
            m = build(mut)
    except Exception as e:  # noqa: BLE001
        return ("rejected", type(e).__name__)
    main = next(c for c in PRIORITY if c in cls)
    sig = {"kind": "accepted-invalid", "cls": main, "only_class": len(cls) == 1, "via": via, "impl": _symptom(mut, m)}
    if main in ("colon-in-output", "nonident-array-name"):
        sig["where"] = extras.get("where")  # first-output / non-first-output / all-outputs; input / output
    if main == "nonident-array-name":
        sig["pattern"] = extras.get("pattern")
    shown = text_form if text_form is not None else f"MapSpec(direct: {render(mut)})"
    return ("accepted", sig, f"malformed ({'+'.join(cls)}) {shown!r} was accepted as {m!s}")


# -------------------------------------------------------------------------------------------------
def ref_shape(p, shapes, internal):
    """('raise', reason) | ('ok', shape, mask)"""
    sizes = {}
    zip_bad = False
    for (n, _), r in zip(p["ins"], p["ranks"]):
        if len(shapes[n]) != r:
            return ("raise", "rank")
    for n, ax in p["ins"]:
        for a, d in zip(ax, shapes[n]):
            if a is not None and sizes.setdefault(a, d) != d:
                zip_bad = True
    if zip_bad:
        return ("raise", "zip")
    it = iter(internal or ())
    used = p["used"]
    return ("ok", tuple(sizes[a] if a in used else next(it) for a in p["oax"]), tuple(a in used for a in p["oax"]))


def check_shape(m, p, shapes, internal, ctx, want=None):
    """one shape() call against the reference; shapes: name -> tuple; returns (violations, outcome)"""
    if want is None:
        want = ref_shape(p, shapes, internal)
    ishapes = {n: tuple(internal) for n in p["out_names"]} if internal else None
    if len(shapes) >= 2:
        # the answer must not depend on the insertion order of the caller's dict: asked again with the keys reversed
        def _ask(d):
            try:
                return ("ok", m.shape(d, ishapes))
            except Exception as e:  # noqa: BLE001
                return ("raise", type(e).__name__)
        a1, a2 = _ask(dict(shapes)), _ask(dict(reversed(list(shapes.items()))))
        if a1 != a2:
            return [({"kind": "depends-on-dict-order", "check": "shape", "ctx": ctx},
                     f"shape() of {m!s} answers {a1} for {dict(shapes)} and {a2} for the same shapes inserted in reverse order")], "shape:bad"
    try:
        got = m.shape(dict(shapes), ishapes)
    except Exception as e:  # noqa: BLE001
        if want[0] == "raise":
            return (), f"shape:raise-{want[1]}:{type(e).__name__}"
        return [(_exc(e, check="shape", ctx=ctx, expect="ok"), f"shape({shapes}, {ishapes}) of {m!s} raised {e!r}, expected {want[1:]}")], "shape:bad"
    if want[0] == "raise":
        return [({"kind": "missing-raise", "check": "shape", "ctx": ctx, "expect": "raise-" + want[1]},
                 f"shape({shapes}, {ishapes}) of {m!s} returned {got} despite a {want[1]} mismatch")], "shape:bad"
    if got == (want[1], want[2]) and all(b is True or b is False for b in got[1]):
        return (), "shape:ok"
    return [({"kind": "value-mismatch", "check": "shape", "ctx": ctx, "expect": "ok"},
             f"shape({shapes}, {ishapes}) of {m!s} = {got}, expected {want[1:]}")], "shape:bad"


def _full_slice(x):
    return isinstance(x, slice) and all(x.indices(d) == (0, d, 1) for d in (1, 2, 3, 4, 5))


def check_keys(m, p, ext_shape, ctx):
    """all linear indices of one external shape; returns (violations, number of indices)"""
    ext_shape = tuple(ext_shape)
    n_total = math.prod(ext_shape)
    plans = p["plans"]
    out = []
    seen = []
    bad_ok = bad_ik = None
    try:
        for n, pos in enumerate(itertools.product(*[range(d) for d in ext_shape])):
            ok = m.output_key(ext_shape, n)
            seen.append(ok)
            if ok != pos and bad_ok is None:
                bad_ok = (n, ok, pos)
            ik = m.input_keys(ext_shape, n)
            want = {name: tuple(SL if q is None else pos[q] for q in plan) for name, plan in plans}
            if ik != want and bad_ik is None:
                how = _ik_diff(ik, want)
                if how:
                    bad_ik = (n, ik, want, how)
    except Exception as e:  # noqa: BLE001
        return [(_exc(e, check="keys", ctx=ctx), f"output_key/input_keys({ext_shape}, {len(seen)}) of {m!s} raised {e!r}")], n_total
    if bad_ok:
        want_all = list(itertools.product(*[range(d) for d in ext_shape]))
        try:
            bij = len(set(seen)) == len(seen) and set(seen) == set(want_all)
        except TypeError:
            bij = False
        out.append(({"kind": "value-mismatch", "check": "output_key", "ctx": ctx, "how": "bijection-but-not-row-major" if bij else "not-a-bijection"},
                    f"{m!s}: output_key({ext_shape}, {bad_ok[0]}) = {bad_ok[1]}, row-major position is {bad_ok[2]}"))
    if bad_ik:
        out.append(({"kind": "value-mismatch", "check": "input_keys", "ctx": ctx, "how": bad_ik[3]},
                    f"{m!s}: input_keys({ext_shape}, {bad_ik[0]}) = {bad_ik[1]}, expected {bad_ik[2]}"))
    return out, n_total


def _ik_diff(ik, want):
    if not isinstance(ik, dict) or set(ik) != set(want):
        return "array-names"
    for name, w in want.items():
        g = ik[name]
        if not isinstance(g, tuple) or len(g) != len(w):
            return "key-rank"
        for ge, we in zip(g, w):
            if isinstance(we, slice):
                if not _full_slice(ge):
                    return "not-a-full-slice"
            elif isinstance(ge, slice) or isinstance(ge, bool) or ge != we:
                return "wrong-position"
    return None


def denote_generic(m, spec, ctx, sizes=GENERIC):
    """shape() + all keys of the renamed/extended spec on the generic size assignment; (violations, evaluations)"""
    p = prep(spec)
    shapes = {n: tuple(sizes.get(a, 2) if a is not None else 3 for a in ax) for n, ax in p["ins"]}
    internal = [sizes.get(a, 2) for a in p["internal"]]
    v, _ = check_shape(m, p, shapes, internal, ctx)
    v = list(v)
    v2, n = check_keys(m, p, [sizes.get(a, 2) for a in p["ext"]], ctx)
    return v + v2, n + 1


# -------------------------------------------------------------------------------------------------
def alt_name(n):
    return n.split(".")[-1] + "_r" if "." in n else "t." + n + "_r"


def rename_menu(spec, all_subsets=True):
    names = [n for n, _ in spec["ins"] + spec["outs"]]
    menu = []
    for r in range(1, len(names) + 1):
        if not all_subsets and 1 < r < len(names):
            continue
        for sub in itertools.combinations(names, r):
            menu.append(({n: alt_name(n) for n in sub}, r == len(names)))
    full = {n: alt_name(n) for n in names}
    menu.append(({**full, "i": "w", "j": "i"}, True))  # index names are not array names: axes must stay
    if len(spec["ins"]) >= 2:
        a, b = spec["ins"][0][0], spec["ins"][1][0]
        menu.append(({a: b, b: a, "i": "j"}, True))
    menu.append(({"nope": "q", "i": "w"}, False))
    menu.append(({names[-1]: names[-1]}, False))
    return menu


def ref_rename(spec, ren):
    return {side: [[ren.get(n, n), list(ax)] for n, ax in spec[side]] for side in ("ins", "outs")}


def check_rename(spec, ren, sweep):
    m = build(spec)
    want = ref_rename(spec, ren)
    try:
        m2 = m.rename(dict(ren))
    except Exception as e:  # noqa: BLE001
        return [(_exc(e, check="rename"), f"{m!s}.rename({ren}) raised {e!r}")], 1
    if not isinstance(m2, MapSpec) or struct(m2) != want:
        touched = isinstance(m2, MapSpec) and [ax for _, ax in struct(m2)["ins"] + struct(m2)["outs"]] != [ax for _, ax in want["ins"] + want["outs"]]
        return [({"kind": "value-mismatch", "check": "rename", "how": "axes-changed" if touched else "names"},
                 f"{m!s}.rename({ren}) = {m2!s}, expected {render(want)}")], 1
    out, ev = [], 1
    if struct(m) != spec:
        out.append(({"kind": "operand-mutated", "check": "rename"}, f"rename({ren}) changed the receiver {render(spec)}"))
    if sweep:
        v, n = denote_generic(m2, want, "rename")
        out += v
        ev += n
    return out, ev


ADD_AXES = (("m",), ("h",), ("m", "h"))


def check_add_axes(spec, axes, sweep=True):
    m = build(spec)
    want = {side: [[n, list(ax) + list(axes)] for n, ax in spec[side]] for side in ("ins", "outs")}
    try:
        m2 = m.add_axes(*axes)
    except Exception as e:  # noqa: BLE001
        return [(_exc(e, check="add_axes"), f"{m!s}.add_axes{axes} raised {e!r}")], 1
    if not isinstance(m2, MapSpec) or struct(m2) != want:
        return [({"kind": "value-mismatch", "check": "add_axes", "how": "structure"}, f"{m!s}.add_axes{axes} = {m2!s}, expected {render(want)}")], 1
    out = []
    if struct(m) != spec:
        out.append(({"kind": "operand-mutated", "check": "add_axes"}, f"add_axes{axes} changed the receiver {render(spec)}"))
    if not sweep:
        return out, 1
    v, n = denote_generic(m2, want, "add_axes")
    return out + v, n + 1


# =================================================================================================
# case dispatcher (a case fully determines one execution)
def run_case(case):  # noqa: C901, PLR0911, PLR0912
    op = case["op"]
    spec = case.get("spec")
    if op == "print-parse":
        return check_print_parse(spec)[0]
    if op == "syntax-mutation":
        try:
            got = MapSpec.from_string(case["text"])
        except Exception:  # noqa: BLE001
            return []
        if "".join(str(got).split()) != "".join(case["text"].split()):
            return [({"kind": "misparse", "check": "syntax-mutation", "mop": case["mop"], "lenient_regex_model": _lenient_model(case["text"])},
                     f"{case['text']!r} accepted as {got!s}")]
        return []
    if op == "malformed":
        r = check_malformed(case["mutant"], case["via"], case["mop"], case.get("extras", {}))
        return [(r[1], r[2])] if r and r[0] == "accepted" else []
    if op == "shape":
        return list(check_shape(build(spec), prep(spec), {k: tuple(v) for k, v in case["shapes"].items()}, case["internal"], "plain")[0])
    if op == "keys":
        return check_keys(build(spec), prep(spec), case["ext_shape"], "plain")[0]
    if op == "rename":
        return check_rename(spec, case["renames"], case["sweep"])[0]
    if op == "add_axes":
        return check_add_axes(spec, tuple(case["axes"]), case.get("sweep", True))[0]
    if op == "index-naming":
        return check_index_naming(spec)[0]
    raise ValueError(op)


def replay(art):
    return [sig for sig, _ in run_case(art)]


def apply_naming(spec, naming):
    return {side: [[n, [naming.get(a, a) if a is not None else None for a in ax]] for n, ax in spec[side]] for side in ("ins", "outs")}


def check_index_naming(s2):
    """a spec whose index names were mapped injectively into i,j,k,l: round trip + denotation on generic sizes"""
    try:
        m = build(s2)
        ok = MapSpec.from_string(str(m)) == m and struct(MapSpec.from_string(render(s2))) == s2
    except Exception as e:  # noqa: BLE001
        return [(_exc(e, check="index-naming"), f"{render(s2)!r}: construction/round trip raised {e!r}")], 1
    out = []
    if not ok:
        out.append(({"kind": "value-mismatch", "check": "roundtrip", "ctx": "index-naming"}, f"round trip of {render(s2)!r} failed"))
    v, n = denote_generic(m, s2, "index-naming", {"i": 2, "j": 3, "k": 2, "l": 2})
    return out + v, n + 2


# =================================================================================================
# enumeration
def in_structs(n_in, maxrank, total_cap):
    """input axis tuples, index names canonical by first appearance, no repeated name inside one array"""
    out = []

    def rec(k, used, acc, total):
        if k == n_in:
            out.append(tuple(acc))
            return
        for r in range(1, maxrank + 1):
            if total + r > total_cap:
                break

            def axes(pos, cur, u, r=r):
                if pos == r:
                    rec(k + 1, u, [*acc, tuple(cur)], total + r)
                    return
                axes(pos + 1, [*cur, None], u)
                for n in range(min(u + 1, len(NAMES))):
                    if NAMES[n] not in cur:
                        axes(pos + 1, [*cur, NAMES[n]], max(u, n + 1))

            axes(0, [], used)

    rec(0, 0, [], 0)
    return out


def out_axes_menu(ins):
    used = []
    for ax in ins:
        for a in ax:
            if a is not None and a not in used:
                used.append(a)
    u = len(used)
    free = [n for n in NAMES if n not in used]
    res = []
    for perm in itertools.permutations(used):
        if perm:
            res.append(list(perm))
        if free:
            for pos in range(u + 1):
                res.append([*perm[:pos], free[0], *perm[pos:]])
    if not ins:  # the '...' form: one or two internal indices
        res.append(["i", "j"])
        res.append(["j", "i"])
    return res


def style_names(style, n_in, n_out):
    if style == 0:
        return list(IN_NAMES[:n_in]), list(OUT_NAMES[:n_out])
    if style == 1:
        return ["s." + n for n in IN_NAMES[:n_in]], ["s." + n for n in OUT_NAMES[:n_out]]
    return [("s.a", "b", "t.c")[k] for k in range(n_in)], [("y", "t.z")[k] for k in range(n_out)]


def make_spec(ins, oax, n_out, style):
    inn, outn = style_names(style, len(ins), n_out)
    return {"ins": [[n, list(ax)] for n, ax in zip(inn, ins)], "outs": [[n, list(oax)] for n in outn]}


def _cost(ins):
    u = len({a for ax in ins for a in ax if a})
    return math.factorial(u) * (u + 2) * 6 ** u + 3 ** sum(len(ax) for ax in ins)


@functools.lru_cache(maxsize=None)
def families(tier):
    """list of (family name, [input structures], size bound S)"""
    fam = [("0-2 inputs", in_structs(0, 3, 99) + in_structs(1, 3, 99) + in_structs(2, 3, 99), 3 if tier == "quick" else 4),
           ("3 inputs", in_structs(3, 3, 4 if tier == "quick" else 6), 3)]
    return [(name, sorted(sts, key=lambda s: (-_cost(s), str(s))), S) for name, sts, S in fam]


STAGES = ("print-parse", "malformed", "shape", "keys", "rename-add_axes", "index-naming")


def plan(tier, seed):
    nchunks = {"quick": (40, 8), "thorough": (64, 192)}[tier]
    units = []
    for st in STAGES:
        us = [(st, (st, tier, f, c, nc)) for f, nc in enumerate(nchunks) for c in range(nc)]
        r = seed % len(us)
        units.extend(us[r:] + us[:r])
    return units


def _sweep_sizes(tier, S, n_out, shape_axes=0, n_in=0):
    """size bound of the shape / key sweeps (shape_axes: total number of input axes, given by the shape stage only).
    quick: 1..2 for two-output specs (shape()/keys never look at the second output) and for the shape tuples of specs with
    6 input axes; thorough: one less for two-output specs, 1..2 for the shape tuples of three-input specs with 6 axes"""
    if tier == "quick":
        return 2 if (n_out == 2 or shape_axes >= 6) else S
    if n_in == 3 and shape_axes >= 6:
        return 2
    return S - 1 if n_out == 2 else S


def run_unit(unit):  # noqa: C901, PLR0912, PLR0915
    stage, tier, f, chunk, nchunks = unit
    _, structs, S = families(tier)[f]
    acc = Acc()
    mine = structs[chunk::nchunks][::-1]  # cheapest first, so that the examples kept for a signature are small

    def report(case, vs):
        for sig, text in vs:
            acc.violation(sig, case, text)

    for ins in mine:
        menu = out_axes_menu(ins)
        n_used = len({a for ax in ins for a in ax if a})
        total_rank = sum(len(ax) for ax in ins)
        for oax in menu:
            if stage == "print-parse":
                for n_out in (1, 2):
                    for style in (0, 1, 2):
                        spec = make_spec(ins, oax, n_out, style)
                        vs, ev, oc = check_print_parse(spec)
                        acc.case(spec_key(spec) if nontrivial(spec) else None, n=ev)
                        for o in oc:
                            acc.outcome(o)
                        report({"op": "print-parse", "spec": spec}, vs)
                        acc.stratum(f"spec:inputs={len(ins)}")
                        acc.stratum(f"spec:outputs={n_out}")
                        acc.stratum(f"spec:name-style={('plain', 'scoped', 'mixed')[style]}")
                        for k, v in features(spec).items():
                            if v:
                                acc.stratum(f"spec:{k}")
                        if len(oax) > n_used:
                            acc.stratum("spec:internal-index")
                        acc.stratum(f"spec:rank-out={len(oax)}")
                        acc.stratum("ws-variants", len(WS_MUST))
            elif stage == "malformed":
                if total_rank > 5 and (tier == "quick" or len(ins) == 3):
                    acc.stratum("malformed:not-in-this-tier(6-input-axes)")
                    continue
                for n_out in (1, 2):
                    for style in (0, 2):
                        spec = make_spec(ins, oax, n_out, style)
                        key = spec_key(spec) if nontrivial(spec) else None
                        for mut, mop, extras in mutations(spec, only_names=style != 0):
                            cls = classify(mut)
                            for via in ("string", "direct"):
                                r = check_malformed(mut, via, mop, extras, cls)
                                if r is None:
                                    acc.stratum("mut:still-well-formed-or-not-expressible(not-checked)")
                                    continue
                                acc.case(key)
                                acc.stratum(f"mut:{mop}")
                                if r[0] == "rejected":
                                    acc.outcome(f"malformed:{mop}:{via}:rejected:{r[1]}")
                                else:
                                    acc.outcome(f"malformed:{mop}:{via}:accepted")
                                    acc.violation(r[1], {"op": "malformed", "mutant": mut, "via": via, "mop": mop, "extras": extras}, r[2])
                        if style == 0:
                            for mop, text in syntax_mutations(spec):
                                acc.stratum("unconstrained:" + mop)
                                try:
                                    got = MapSpec.from_string(text)
                                except Exception as e:  # noqa: BLE001
                                    acc.outcome(f"unconstrained:{mop}:rejected:{type(e).__name__}")
                                    continue
                                acc.outcome(f"unconstrained:{mop}:accepted")
                                # whether such a string is accepted is not constrained - but an ACCEPTED string has to denote
                                # what is written: printing the result gives the string back (up to white space)
                                if "".join(str(got).split()) != "".join(text.split()):
                                    acc.violation({"kind": "misparse", "check": "syntax-mutation", "mop": mop, "lenient_regex_model": _lenient_model(text)},
                                                  {"op": "syntax-mutation", "text": text, "mop": mop},
                                                  f"{text!r} ({mop}) was accepted as {got!s}: not what is written")
            elif stage == "shape":
                for n_out in (1, 2):
                    _shape_sweep(acc, make_spec(ins, oax, n_out, 0), _sweep_sizes(tier, S, n_out, total_rank, len(ins)))
            elif stage == "keys":
                for n_out in (1, 2):
                    spec = make_spec(ins, oax, n_out, 0)
                    m, p = build(spec), prep(spec)
                    key = spec_key(spec) if nontrivial(spec) else None
                    for ext_shape in itertools.product(range(1, _sweep_sizes(tier, S, n_out) + 1), repeat=len(p["ext"])):
                        vs, n = check_keys(m, p, ext_shape, "plain")
                        acc.case(key, n=n)
                        if vs:
                            report({"op": "keys", "spec": spec, "ext_shape": list(ext_shape)}, vs)
                    acc.stratum(f"keys:external-rank={len(p['ext'])}")
                    acc.outcome(f"keys:ext{len(p['ext'])}:arrays{len(ins)}")
            elif stage == "rename-add_axes":
                for n_out in (1, 2):
                    for style in (0, 2):
                        spec = make_spec(ins, oax, n_out, style)
                        key = spec_key(spec) if nontrivial(spec) else None
                        for ren, sweep in rename_menu(spec, all_subsets=style == 0 or tier != "quick"):
                            sweep = bool(sweep and style == 0 and (n_out == 1 or tier != "quick"))
                            vs, ev = check_rename(spec, ren, sweep)
                            acc.case(key, n=ev)
                            acc.stratum("rename:" + ("with-sweep" if sweep else "structure"))
                            report({"op": "rename", "spec": spec, "renames": ren, "sweep": sweep}, vs)
                        if style == 0:
                            for axes in ADD_AXES:
                                sweep = n_out == 1 or tier != "quick"
                                vs, ev = check_add_axes(spec, axes, sweep)
                                acc.case(key, n=ev)
                                acc.stratum(f"add_axes:{len(axes)}-new:" + ("with-sweep" if sweep else "structure"))
                                report({"op": "add_axes", "spec": spec, "axes": list(axes), "sweep": sweep}, vs)
            elif stage == "index-naming":
                if tier == "quick" and total_rank > 5:
                    acc.stratum("index-naming:not-in-this-tier(6-input-axes)")
                    continue
                spec = make_spec(ins, oax, 1, 0)
                names = []
                for _, ax in spec["ins"] + spec["outs"]:
                    for a in ax:
                        if a is not None and a not in names:
                            names.append(a)
                for target in itertools.permutations(NAMES, len(names)):
                    naming = dict(zip(names, target))
                    if all(k == v for k, v in naming.items()):
                        continue
                    s2 = apply_naming(spec, naming)
                    vs, ev = check_index_naming(s2)
                    acc.case(spec_key(s2) if nontrivial(s2) else None, n=ev)
                    acc.stratum("index-naming")
                    report({"op": "index-naming", "spec": s2}, vs)
    if mine and chunk == 0 and f == 0:  # one written-out case per stage (the runner keeps the first four)
        ins = mine[len(mine) // 2]
        spec = make_spec(ins, out_axes_menu(ins)[-1], 2 if stage in ("print-parse", "malformed") else 1, 2 if stage == "print-parse" else 0)
        p = prep(spec)
        if stage == "print-parse":
            acc.sample({"op": "print-parse", "spec": spec, "strings": [render(spec, ws) for ws in ("canon", "none", "inside-brackets")]})
        elif stage == "malformed":
            mut, mop, extras = mutations(spec)[len(spec["outs"][0][1])]
            acc.sample({"op": "malformed", "mutant": mut, "via": "string", "mop": mop, "extras": extras, "string": render(mut)})
        elif stage == "shape":
            acc.sample({"op": "shape", "spec": spec, "shapes": {n: [1 + (k + q) % 3 for q in range(len(ax))] for k, (n, ax) in enumerate(spec["ins"])},
                        "internal": [2] * len(p["internal"]) or None})
        elif stage == "keys":
            acc.sample({"op": "keys", "spec": spec, "ext_shape": [2 + q % 2 for q in range(len(p["ext"]))]})
        elif stage == "rename-add_axes":
            acc.sample({"op": "rename", "spec": spec, "renames": rename_menu(spec)[-4][0], "sweep": True})
        else:
            acc.sample({"op": "index-naming", "spec": apply_naming(spec, dict(zip(NAMES, NAMES[::-1])))})
    return acc


def _shape_sweep(acc, spec, S):
    m, p = build(spec), prep(spec)
    key = spec_key(spec) if nontrivial(spec) else None
    ranks, names = p["ranks"], p["in_names"]
    n_int = len(p["internal"])
    sizes = range(1, S + 1)
    cuts = [0, *itertools.accumulate(ranks)]
    spans = [(n, cuts[k], cuts[k + 1]) for k, n in enumerate(names)]
    one = [1] * n_int or None
    outcomes = set()
    n_cases = 0

    def bad(vs, shapes, internal):
        for sig, text in vs:
            acc.violation(sig, {"op": "shape", "spec": spec, "shapes": {k: list(v) for k, v in shapes.items()}, "internal": internal}, text)

    for combo in itertools.product(sizes, repeat=cuts[-1]):
        shapes = {n: combo[lo:hi] for n, lo, hi in spans}
        want = ref_shape(p, shapes, one)
        if want[0] == "ok" and n_int:
            for internal in itertools.product(sizes, repeat=n_int):
                internal = list(internal)
                vs, oc = check_shape(m, p, shapes, internal, "plain")
                n_cases += 1
                outcomes.add(oc)
                if vs:
                    bad(vs, shapes, internal)
        else:
            vs, oc = check_shape(m, p, shapes, one, "plain", want)
            n_cases += 1
            outcomes.add(oc)
            if vs:
                bad(vs, shapes, one)
    # one-axis rank edits on the uniform shapes
    n_edit = 0
    for c in sizes:
        base = {n: (c,) * r for n, r in zip(names, ranks)}
        internal = [c] * n_int or None
        for k, n in enumerate(names):
            edits = [base[n][:pos] + base[n][pos + 1:] for pos in range(ranks[k])] + [base[n] + (d,) for d in sizes]
            for e in edits:
                shapes = {**base, n: e}
                vs, oc = check_shape(m, p, shapes, internal, "plain")
                n_edit += 1
                outcomes.add(oc)
                if vs:
                    bad(vs, shapes, internal)
    acc.case(key, n=n_cases + n_edit)
    acc.stratum("shape:all-size-tuples", n_cases)
    acc.stratum("shape:rank-edit", n_edit)
    acc.stratum("shape:specs")
    for oc in outcomes:
        acc.outcome(oc)


if __name__ == "__main__":  # pragma: no cover  (stand-alone replay helper: python -m vmc.props.c08 '<case json>')
    import sys

    print(json.dumps([s for s, _ in run_case(json.loads(sys.argv[1]))], indent=1))
