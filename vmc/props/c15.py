"""C15 — Cache keys identify argument values: equal key iff equal value (DESIGN.md §5 C15).

Bounded-exhaustive enumeration of a recursive value grammar (JSON-able constructor expression trees), all ordered
pairs compared in-process against a three-valued reference identity (must-equal / must-differ / unconstrained), every
key recomputed in two fresh interpreters with other PYTHONHASHSEEDs, and memoize x cache type over look-alike pairs.

The reference identity is computed from the *built values* by `canon` (boring Python, exact-type dispatch):
  S (strict form)  — type-tagged structure; 1 / 1.0 / True are different; dict/set/frozenset/Counter/defaultdict
                     order-insensitive, tuple/list/deque/OrderedDict/array/Series/DataFrame order-sensitive
  L (loose form)   — as S, but Python-equal numbers collapsed, pandas dtypes dropped, data under a mask dropped,
                     zero counts of a Counter dropped
  must-equal  = same S (and no NaN / identity-compared object inside);  must-differ = different L;  else unconstrained.

In violation texts `objarr([x, y])` stands for a 1-D object ndarray with the cells x, y
(`a = np.empty(2, dtype=object); a[0] = x; a[1] = y`), `deque`/`defaultdict`/`Counter`/`OrderedDict` are from collections.
"""
from __future__ import annotations

import array
import collections
import gc
import itertools
import json
import os
import pickle
import re
import shutil
import subprocess
import sys
import warnings

import numpy as np
import pandas as pd
from pipefunc import cache as pc

from .. import boot, findings
from ..acc import MAX_EXAMPLES, Acc, sig_key

ID = "C15"
LEVEL = "exploration"
TECHNIQUE = ("bounded-exhaustive enumeration of a recursive value grammar; all ordered pairs against a three-valued "
             "reference identity; keys recomputed in two fresh interpreters with other hash seeds; memoize x cache type")
RULE = ("values = all constructor expressions of the grammar (leaves {0,1,-1,1.5,True,'','a',b'a',None}; tuple, list, set, "
        "frozenset, dict, OrderedDict, defaultdict, Counter, deque incl. maxlen, bytearray, array.array, ndarray "
        "int64/float64/object x shapes (2,),(2,1),(1,2), masked arrays, Series, DataFrame, three user classes) to depth 2 "
        "(thorough: 3); fan-out cap: <= 2 elements per container, depth-1 containers over all leaves, depth>=2 containers "
        "over fixed representative child pools (sizes reported under coverage.universe). Every value: key computed, hashed, "
        "recomputed on an independently rebuilt copy and in two child interpreters; every ordered pair of values: key "
        "equality vs reference identity; memoize: all ordered pairs of a look-alike list x 7 cache configurations x 2 call "
        "styles with a call counter, and all ordered pairs of 31 look-alike call shapes (the same values packaged differently into "
        "positional/keyword arguments of f(*args, **kwargs)) x 4 caches. distinct = distinct expression (pair); non-trivial = ordered pair of different "
        "expressions with the same multiset of data leaves (look-alikes: same rendered content, other type/structure/order)")
ASSUMPTIONS = [
    "the reference identity `canon` (exact-type structural equality) is what 'equal value of the same type' means; "
    "deque.maxlen, defaultdict.default_factory, array typecode, ndarray dtype/shape, Series name/index/row order and "
    "DataFrame index/column order are part of a value (pandas .equals semantics); pandas dtypes are not (unconstrained)",
    "unconstrained: Python-equal numbers of different type anywhere inside (1, 1.0, True), NaN, data hidden under a mask, "
    "zero counts of a Counter, objects compared by identity (class without __eq__), and differently ordered dict/set "
    "payloads inside objects that are keyed through the pickle fallback",
    "Counter values are integer counts; array.array / ndarray int64,float64 / Series / DataFrame cells are scalars",
    "user classes are not 'natively handled': their keys need not be equal across processes (recorded as notes)",
    "child interpreters: /venv/bin/python, PYTHONHASHSEED 2*VERIF_SEED+1 and 2*VERIF_SEED+2 (the parent runs with 0)",
    "_pickle_key differences (DiskCache file names) across hash seeds or insertion orders are observations, not violations",
]
BUDGET = {"quick": 60.0, "thorough": 600.0}

PYTHON = "/venv/bin/python" if os.path.exists("/venv/bin/python") else sys.executable


# ------------------------------------------------------------------------------------------------
# three picklable user classes (module level so that they pickle by reference)
class WithEq:
    """value semantics: __eq__ and __hash__"""

    def __init__(self, v):
        self.v = v

    def __eq__(self, o):
        return type(o) is WithEq and self.v == o.v

    def __hash__(self):
        return hash(("WithEq", self.v))

    def __repr__(self):
        return "WithEq(...)"  # deliberately silent about the value: a key (or file name) derived from repr() must show up as a false hit


class NoEq:
    """no __eq__: compared and hashed by identity"""

    def __init__(self, v):
        self.v = v

    def __repr__(self):
        return f"NoEq({self.v!r})"


class Unh:
    """__eq__ plus a __hash__ over an unhashable attribute (a list): hash() raises, key comes from the pickle fallback"""

    def __init__(self, v):
        self.v = [v]

    def __eq__(self, o):
        return type(o) is Unh and self.v == o.v

    def __hash__(self):
        return hash(self.v)  # TypeError: unhashable type: 'list'
    # deliberately no __repr__: a fallback that keys on str(obj) must show up as a miss between two equal builds


USER = {"WithEq": WithEq, "NoEq": NoEq, "Unh": Unh}

# ------------------------------------------------------------------------------------------------
# descriptions (constructor expression trees, JSON-able) and their construction
LEAVES = {"0": 0, "1": 1, "-1": -1, "1.5": 1.5, "True": True, "''": "", "'a'": "a", "b'a'": b"a", "None": None,
          "nan": float("nan")}
L9 = ["0", "1", "-1", "1.5", "True", "''", "'a'", "b'a'", "None"]
FACTORY = {"none": None, "int": int, "list": list}


def lf(c):
    return ["leaf", c]


def T(*c):
    return ["tuple", list(c)]


def Li(*c):
    return ["list", list(c)]


def St(*c):
    return ["set", list(c)]


def Fs(*c):
    return ["frozenset", list(c)]


def Dq(maxlen, *c):
    return ["deque", list(c), maxlen]


def Mp(kind, *items):
    return [kind, [list(kv) for kv in items]]


def Dd(factory, *items):
    return ["defaultdict", factory, [list(kv) for kv in items]]


def Arr(dtype, shape, *elems, layout=None):
    """layout None = C-contiguous; "F" = same value in Fortran memory order; "T" = the transposed view (shape reversed)"""
    d = ["ndarray", dtype, list(shape), list(elems)]
    if layout:
        d.append(layout)
    return d


def Ms(dtype, data, mask):
    return ["masked", dtype, list(data), list(mask)]


def Se(values, dtype, index=None, name=None):
    return ["Series", list(values), dtype, index, name]


def Df(cols, index=None):
    return ["DataFrame", [[n, list(v), dt] for n, v, dt in cols], index]


def _index(index, n):
    """index descriptor -> pandas index argument: None (default RangeIndex), a list of leaf names, or ['@range', start, step]"""
    if index is None:
        return None
    if index and index[0] == "@range":
        return pd.RangeIndex(index[1], index[1] + index[2] * n, index[2])
    return [LEAVES[c] for c in index]


def _index_src(index, n):
    if index and index[0] == "@range":
        return f"pd.RangeIndex({index[1]}, {index[1] + index[2] * n}, {index[2]})"
    return "[" + ", ".join(render(lf(c)) for c in index) + "]"


def dkey(d):
    return json.dumps(d, separators=(",", ":"))


def tag(d):
    return "leaf" if d[0] == "leaf" else d[0]


def children(d):
    t = d[0]
    if t in ("tuple", "list", "set", "frozenset", "deque"):
        return list(d[1])
    if t in ("dict", "OrderedDict", "Counter"):
        return [x for kv in d[1] for x in kv]
    if t == "defaultdict":
        return [x for kv in d[2] for x in kv]
    if t == "ndarray" and d[1] == "object":
        return list(d[3])
    if t in USER:
        return [d[1]]
    return []


def depth(d):
    if d[0] == "leaf":
        return 0
    return 1 + max([depth(c) for c in children(d)], default=0)


def build(d):  # noqa: C901, PLR0911, PLR0912
    t = d[0]
    if t == "leaf":
        return LEAVES[d[1]]
    if t == "tuple":
        return tuple(build(c) for c in d[1])
    if t == "list":
        return [build(c) for c in d[1]]
    if t == "set":
        return {build(c) for c in d[1]}
    if t == "frozenset":
        return frozenset(build(c) for c in d[1])
    if t == "deque":
        return collections.deque([build(c) for c in d[1]], maxlen=d[2])
    if t == "dict":
        out = {}
        for k, v in d[1]:
            out[build(k)] = build(v)
        return out
    if t == "OrderedDict":
        out = collections.OrderedDict()
        for k, v in d[1]:
            out[build(k)] = build(v)
        return out
    if t == "defaultdict":
        out = collections.defaultdict(FACTORY[d[1]])
        for k, v in d[2]:
            out[build(k)] = build(v)
        return out
    if t == "Counter":
        out = collections.Counter()
        for k, v in d[1]:
            out[build(k)] = build(v)
        return out
    if t == "bytearray":
        return bytearray(d[1].encode("latin1"))
    if t == "array":
        return array.array(d[1], [LEAVES[c] for c in d[2]])
    if t == "ndarray":
        _, dtype, shape, elems = d[:4]
        if dtype == "object":
            a = np.empty(len(elems), dtype=object)
            for i, e in enumerate(elems):
                a[i] = build(e)
        else:
            a = np.array([build(e) for e in elems], dtype=dtype)
        a = a.reshape(tuple(shape))
        layout = d[4] if len(d) > 4 else None
        if layout == "F":
            a = np.asfortranarray(a)  # equal value, different strides
        elif layout == "T":
            a = a.T  # a view: different value (unless symmetric), non-contiguous
        return a
    if t == "masked":
        return np.ma.array([LEAVES[c] for c in d[2]], mask=[bool(b) for b in d[3]], dtype=d[1])
    if t == "Series":
        _, values, dtype, index, name = d
        return pd.Series([LEAVES[c] for c in values], index=_index(index, len(values)), name=name, dtype=dtype)
    if t == "DataFrame":
        _, cols, index = d
        data = {n: np.array([LEAVES[c] for c in v], dtype=dt) for n, v, dt in cols}
        return pd.DataFrame(data, index=_index(index, len(cols[0][1]) if cols else 0))
    if t in USER:
        return USER[t](build(d[1]))
    raise ValueError(t)


def render(d):  # noqa: C901, PLR0911, PLR0912
    """Python expression (plain pipefunc-free code) that builds the described value."""
    t = d[0]
    if t == "leaf":
        return "float('nan')" if d[1] == "nan" else repr(LEAVES[d[1]])
    if t == "tuple":
        return "(" + ", ".join(render(c) for c in d[1]) + ("," if len(d[1]) == 1 else "") + ")"
    if t == "list":
        return "[" + ", ".join(render(c) for c in d[1]) + "]"
    if t == "set":
        return "{" + ", ".join(render(c) for c in d[1]) + "}" if d[1] else "set()"
    if t == "frozenset":
        return "frozenset([" + ", ".join(render(c) for c in d[1]) + "])"
    if t == "deque":
        return "deque([" + ", ".join(render(c) for c in d[1]) + "]" + (f", maxlen={d[2]}" if d[2] is not None else "") + ")"
    if t in ("dict", "OrderedDict", "Counter", "defaultdict"):
        items = d[2] if t == "defaultdict" else d[1]
        body = "{" + ", ".join(f"{render(k)}: {render(v)}" for k, v in items) + "}"
        if t == "dict":
            return body
        if t == "defaultdict":
            return f"defaultdict({ {'none': 'None', 'int': 'int', 'list': 'list'}[d[1]] }, {body})"
        return f"{t}({body})"
    if t == "bytearray":
        return f"bytearray({d[1].encode('latin1')!r})"
    if t == "array":
        return f"array.array({d[1]!r}, [{', '.join(d[2])}])"
    if t == "ndarray":
        _, dtype, shape, elems = d[:4]
        suffix = {"F": " (asfortranarray)", "T": ".T"}.get(d[4] if len(d) > 4 else None, "")
        if dtype == "object":
            return f"objarr([{', '.join(render(e) for e in elems)}]).reshape{tuple(shape)}{suffix}"
        return f"np.array([{', '.join(render(e) for e in elems)}], dtype={dtype!r}).reshape{tuple(shape)}{suffix}"
    if t == "masked":
        return f"np.ma.array([{', '.join(d[2])}], mask={d[3]}, dtype={d[1]!r})"
    if t == "Series":
        _, values, dtype, index, name = d
        s = f"pd.Series([{', '.join(render(lf(c)) for c in values)}], dtype={dtype!r}"
        if index is not None:
            s += f", index={_index_src(index, len(values))}"
        if name is not None:
            s += f", name={name!r}"
        return s + ")"
    if t == "DataFrame":
        _, cols, index = d
        s = "pd.DataFrame({" + ", ".join(f"{n!r}: np.array([{', '.join(render(lf(c)) for c in v)}], dtype={dt!r})"
                                          for n, v, dt in cols) + "}"
        if index is not None:
            s += f", index={_index_src(index, len(cols[0][1]) if cols else 0)}"
        return s + ")"
    if t in USER:
        return f"{t}({render(d[1])})"
    raise ValueError(t)


# ------------------------------------------------------------------------------------------------
# the grammar: universe(maxdepth) is sorted by depth, so "depth <= d" is a prefix of it
def _seqs(pool, pairs):
    return [[]] + [[x] for x in pool] + [list(p) for p in pairs]


def _level1():
    out = []
    leaves = [lf(c) for c in L9]
    allpairs = list(itertools.product(leaves, repeat=2))
    distinct = [p for p in allpairs if p[0] != p[1]]
    for kind in ("tuple", "list"):
        out += [[kind, s] for s in _seqs(leaves, allpairs)]
    r5 = [lf(c) for c in ("0", "1", "1.5", "'a'", "None")]
    for maxlen in (None, 2, 1):
        out += [["deque", s, maxlen] for s in _seqs(r5, itertools.product(r5, repeat=2))]
    for kind in ("set", "frozenset"):
        out += [[kind, s] for s in _seqs(leaves, distinct)]
    rk = [lf(c) for c in ("0", "1", "True", "'a'", "None")]
    kpairs = [p for p in itertools.product(rk, repeat=2) if p[0] != p[1]]
    r4 = [lf(c) for c in ("0", "1", "'a'", "None")]
    vpat = [(lf("0"), lf("1")), (lf("1"), lf("0")), (lf("0"), lf("0"))]
    items = [[]] + [[[k, v]] for k in leaves for v in r4] + [[[k1, v1], [k2, v2]] for k1, k2 in kpairs for v1, v2 in vpat]
    for kind in ("dict", "OrderedDict"):
        out += [[kind, it] for it in items]
    for fac in ("none", "int"):
        out += [["defaultdict", fac, it] for it in items]
    out += [["defaultdict", "list", it] for it in items[:1] + [[[lf("1"), lf("'a'")]]]]
    cpat = [(lf("1"), lf("1")), (lf("1"), lf("-1")), (lf("-1"), lf("1"))]
    out += [["Counter", it] for it in
            [[]] + [[[k, lf(c)]] for k in leaves for c in ("1", "0", "-1")]
            + [[[k1, v1], [k2, v2]] for k1, k2 in kpairs for v1, v2 in cpat]]
    out += [["bytearray", s] for s in ("", "a", "ab", "ba")]
    out += [["array", tc, v] for tc, v in (("q", []), ("q", ["1"]), ("q", ["0", "1"]), ("q", ["1", "0"]), ("l", ["0", "1"]),
                                           ("d", ["0", "1"]), ("d", ["1.5"]), ("d", []))]
    for shape in ((2,), (2, 1), (1, 2)):
        for dtype, pool in (("int64", ("0", "1", "-1")), ("float64", ("0", "1", "1.5", "nan")),
                            ("object", ("1", "True", "1.5", "'a'", "None"))):
            out += [Arr(dtype, shape, lf(a), lf(b)) for a in pool for b in pool]
    # 2x2 arrays in every memory layout: the key must depend on the VALUE (row-major content), not on the strides
    for dtype in ("int64", "object"):
        e = [lf(c) for c in ("0", "1", "-1", "0")]
        et = [lf(c) for c in ("0", "-1", "1", "0")]
        out += [Arr(dtype, (2, 2), *e), Arr(dtype, (2, 2), *e, layout="F"), Arr(dtype, (2, 2), *e, layout="T"),
                Arr(dtype, (2, 2), *et), Arr(dtype, (2, 2), *et, layout="F")]
    for dtype in ("int64", "float64"):
        for data in (("0", "1"), ("1", "0"), ("1", "1")):
            for mask in ((0, 0), (0, 1), (1, 0), (1, 1)):
                out.append(Ms(dtype, data, mask))
    svals = [(("0", "1"), "int64"), (("1", "0"), "int64"), (("1", "1"), "int64"), (("0", "1"), "float64"),
             (("1.5", "0"), "float64"), (("'a'", "''"), "object"), (("1", "'a'"), "object")]
    for vals, dt in svals:
        for index in (None, ["1", "0"], ["'a'", "''"], ["0", "0"], ["@range", 1, 1], ["@range", 0, 2]):
            for name in (None, "a"):
                out.append(Se(vals, dt, index, name))
    dcols = [[("a", ("0", "1"), "int64")], [("a", ("1", "0"), "int64")],
             [("a", ("0", "1"), "int64"), ("b", ("0", "1"), "int64")], [("b", ("0", "1"), "int64"), ("a", ("0", "1"), "int64")],
             [("a", ("0", "1"), "float64")], [("a", ("'a'", "''"), "object")], [("b", ("0", "1"), "int64")]]
    for cols in dcols:
        # ['@range', start, step]: a RangeIndex that is NOT the default one (a slice of a bigger frame): same type, same length
        for index in (None, ["1", "0"], ["'a'", "''"], ["@range", 1, 1], ["@range", 0, 2], ["@range", 2, -1]):
            out.append(Df(cols, index))
    for cls in USER:
        out += [[cls, x] for x in leaves]
    return out


_1, _a, _0, _N, _e = lf("1"), lf("'a'"), lf("0"), lf("None"), lf("''")

# look-alike representatives of depth <= 1: the memoize list is built from them (and they are part of every wrap pool)
P1 = [
    _1, _a, _N,
    T(), T(_1), T(_a), T(_1, _a), T(_a, _1), T(_0, _1),
    Li(), Li(_1), Li(_a), Li(_1, _a), Li(_0, _1),
    Dq(None, _1), Dq(2, _1),
    St(_1), St(_a), St(_0, _1),
    Fs(), Fs(_1), Fs(_a), Fs(_e), Fs(_0, _1),
    Mp("dict"), Mp("dict", (_1, _a)), Mp("dict", (_a, _1)), Mp("dict", (_0, _0), (_1, _1)),
    Mp("OrderedDict", (_1, _a)), Dd("none", (_1, _a)), Dd("int", (_1, _a)), Mp("Counter", (_a, _1)),
    ["bytearray", "a"], ["array", "q", ["1"]],
    Arr("int64", (2,), _0, _1), Arr("float64", (2,), _0, _1), Arr("object", (2,), _1, _a), Arr("int64", (2, 1), _0, _1),
    Ms("int64", ("0", "1"), (0, 0)), Ms("int64", ("0", "1"), (0, 1)),
    Se(("0", "1"), "int64"), Df([("a", ("0", "1"), "int64")]),
    ["WithEq", _1], ["NoEq", _1], ["Unh", _1],
]
H1 = [_1, _a, _N, T(_1), T(_a), Li(_1), Li(_a), Fs(_1), Fs(_a), Mp("dict", (_1, _a)), St(_1), Arr("int64", (2,), _0, _1)]
HK1 = [_1, _a, _N, T(_1), T(_a), T(_0, _1), Fs(_1), Fs(_a), Fs(_e), ["WithEq", _1]]
HKM1 = [_1, _a, T(_1), T(_a), Fs(_1), Fs(_a), Fs(_e)]
V1 = [_1, _a, _N, Li(_1), T(_1), Mp("dict", (_1, _a)), St(_1), Arr("int64", (2,), _0, _1)]
O1 = [Li(_1), Li(_0, _1), T(_1), Mp("dict", (_1, _a)), _a]
HASHABLE_TAGS = ("leaf", "tuple", "frozenset", "WithEq", "NoEq")


def _hashable_desc(d):
    return tag(d) in HASHABLE_TAGS and all(_hashable_desc(c) for c in children(d))


def _level(P, H, HK, HKM, V, O, full=True):  # noqa: N803
    """containers of <= 2 elements over the given child pools; full=False: fewer kinds of 1-element wrappers"""
    out = []
    for kind in ("tuple", "list"):
        out += [[kind, [x]] for x in P]
    out += [["deque", [x], m] for m in ((None, 2) if full else (None,)) for x in P]
    hp = [x for x in P if _hashable_desc(x)]
    for kind in (("set", "frozenset") if full else ("frozenset",)):
        out += [[kind, [x]] for x in hp]
    for kind in ("tuple", "list"):
        out += [[kind, [x, y]] for x in H for y in H]
    for kind in ("set", "frozenset"):
        out += [[kind, [x, y]] for x in HK for y in HK if x != y]
    vpat = [(_0, _1), (_1, _0)]
    for mk in (lambda it: ["dict", it], lambda it: ["OrderedDict", it], lambda it: ["defaultdict", "none", it]):
        out += [mk([[k, v]]) for k in HK for v in V]
        out += [mk([[k1, v1], [k2, v2]]) for k1 in HKM for k2 in HKM if k1 != k2 for v1, v2 in vpat]
    out += [["Counter", [[k, _1]]] for k in HK]
    out += [["Counter", [[k1, _1], [k2, _1]]] for k1 in HKM for k2 in HKM if k1 != k2]
    for shape in ((2,), (2, 1), (1, 2)):
        out += [Arr("object", shape, x, y) for x in O for y in O]
    out += [[cls, x] for cls in (("NoEq", "Unh") if full else ("Unh",)) for x in P]
    if full:
        out += [["WithEq", x] for x in hp if tag(x) != "NoEq" and not any(tag(c) == "NoEq" for c in children(x))]
    return out


# representative depth-2 children for depth-3 containers (thorough)
_L1 = Li(_1)
P2 = P1 + [
    Li(_L1), T(_L1), Li(T(_1)), T(T(_1)), Li(Li(_1, _a)), T(Li(_0, _1), _a), Li(T(_1), Li(_1)),
    Li(Mp("dict", (_1, _a))), Mp("dict", (_a, _L1)), Mp("dict", (T(_1), _1)), Mp("dict", (T(_1), _0), (T(_a), _1)),
    Mp("dict", (Fs(_1), _0), (Fs(_e), _1)), Mp("dict", (Fs(_e), _1), (Fs(_1), _0)), Mp("OrderedDict", (_a, _L1)),
    Dd("none", (_a, _L1)), St(Fs(_1), Fs(_a)), St(Fs(_a), Fs(_e)), St(T(_1), T(_0, _1)), Fs(Fs(_1)), Fs(T(_1)),
    Dq(None, _L1), Dq(2, _L1), Arr("object", (2,), _L1, Li(_0, _1)), Arr("object", (2,), T(_1), _a),
    Li(Arr("int64", (2,), _0, _1)), T(Se(("0", "1"), "int64")), Li(Df([("a", ("0", "1"), "int64")])),
    Mp("dict", (_1, Arr("int64", (2,), _0, _1))), Li(Ms("int64", ("0", "1"), (0, 0))),
    ["Unh", _L1], ["NoEq", _L1], ["WithEq", T(_1)], Li(["Unh", _1]), T(["NoEq", _1]), T(["WithEq", _1]),
]
H2 = H1 + [Li(_L1), T(_L1), Li(T(_1)), T(T(_1)), Mp("dict", (_a, _L1)), Fs(Fs(_1)), St(Fs(_1), Fs(_a)), ["Unh", _L1]]
HK2 = HK1 + [T(T(_1)), T(Fs(_1)), Fs(Fs(_1)), Fs(T(_1)), T(["WithEq", _1])]
HKM2 = HKM1 + [T(T(_1)), Fs(Fs(_1)), Fs(T(_1))]
V2 = V1 + [Li(_L1), T(_L1), Li(T(_1)), Mp("dict", (_a, _L1)), St(Fs(_1), Fs(_a))]
O2 = O1 + [Li(_L1), T(_L1), Mp("dict", (_a, _L1))]

_UNIVERSE: dict[int, list] = {}


def _closed(raw, maxdepth):
    seen, out = set(), []

    def add(d):
        k = dkey(d)
        if k in seen:
            return
        seen.add(k)
        for c in children(d):
            add(c)
        out.append(d)

    for d in raw:
        add(d)
    out = [d for d in out if depth(d) <= maxdepth]
    out.sort(key=depth)  # stable
    return out


def universe(maxdepth):
    """all value expressions of depth <= maxdepth, sorted by depth (stable), closed under sub-expressions.
    1-element containers and user-class wrappers at depth d are built over EVERY value of depth < d; containers of two
    elements / mappings / object arrays over the representative pools."""
    if maxdepth in _UNIVERSE:
        return _UNIVERSE[maxdepth]
    out = _closed([lf(c) for c in L9] + _level1(), 1)
    if maxdepth >= 2:
        out = _closed(out + _level(out, H1, HK1, HKM1, V1, O1), 2)
    if maxdepth >= 3:
        out = _closed(out + _level(out + P2, H2, HK2, HKM2, V2, O2, full=False), 3)
    _UNIVERSE[maxdepth] = out
    return out


def memo_values():
    """look-alike list for the memoize product: the depth<=1 representatives plus nested look-alikes"""
    extra = [_0, lf("True"), lf("1.5"), lf("b'a'"), Li(_L1), T(_L1), Li(T(_1)), T(T(_1)), Mp("dict", (_a, _L1)),
             Mp("dict", (_a, T(_1))), Mp("dict", (_0, _1), (_1, _0)), Mp("dict", (_1, _0), (_0, _1)),
             Se(("1", "0"), "int64", ["1", "0"]), Se(("0", "1"), "float64"), Se(("0", "1"), "int64", None, "a"),
             Df([("a", ("0", "1"), "int64")], ["'a'", "''"]), Df([("b", ("0", "1"), "int64")]),
             Arr("int64", (1, 2), _0, _1), Dq(1, _0, _1), Dq(1, _1),
             ["WithEq", _a], ["WithEq", _0], ["NoEq", _a]]  # user objects that differ only in a value their repr() does not show
    out, seen = [], set()
    for d in P1 + extra:
        if dkey(d) not in seen:
            seen.add(dkey(d))
            out.append(d)
    return out


# ------------------------------------------------------------------------------------------------
# reference identity
class _Ctx:
    def __init__(self):
        self.nan = False
        self.ident = False   # contains an object compared by identity (NoEq)
        self.user = False    # contains a user-class instance (not natively handled)
        self.leaves = []     # loose data leaves (look-alike content)


_uniq = itertools.count()
MASK = ("masked",)


def canon(v, cx, pk=False):  # noqa: C901, PLR0911, PLR0912, PLR0915
    """-> (S, L); pk: inside an object keyed via the pickle fallback (unordered payloads are order-sensitive in S)"""
    t = type(v)
    if v is None or t in (str, bytes):
        x = (t.__name__, v)
        cx.leaves.append(repr(x))
        return x, x
    if t in (bool, int, float) or isinstance(v, np.generic):
        if isinstance(v, np.generic):
            v = v.item()
            t = type(v)
        if v != v:  # noqa: PLR0124
            cx.nan = True
            cx.leaves.append("nan")
            return ("nan",), ("nan",)
        cx.leaves.append(repr(("num", float(v))))
        return (t.__name__, v), ("num", v)
    if t in (tuple, list):
        cs = [canon(c, cx, pk) for c in v]
        return (t.__name__, tuple(c[0] for c in cs)), (t.__name__, tuple(c[1] for c in cs))
    if t is collections.deque:
        cs = [canon(c, cx, pk) for c in v]
        return ("deque", v.maxlen, tuple(c[0] for c in cs)), ("deque", v.maxlen, tuple(c[1] for c in cs))
    if t in (set, frozenset):
        cs = [canon(c, cx, pk) for c in v]
        s = tuple(c[0] for c in cs) if pk else frozenset(c[0] for c in cs)
        return (t.__name__, s), (t.__name__, frozenset(c[1] for c in cs))
    if t in (dict, collections.OrderedDict, collections.defaultdict, collections.Counter):
        items = [(canon(k, cx, pk), canon(x, cx, pk)) for k, x in v.items()]
        si = tuple((k[0], x[0]) for k, x in items)
        li = tuple((k[1], x[1]) for k, x in items)
        if t is collections.Counter:
            li = tuple(kv for kv in li if kv[1] != ("num", 0))
        if t is not collections.OrderedDict:
            si = si if pk else frozenset(si)
            li = frozenset(li)
        if t is collections.defaultdict:
            f = getattr(v.default_factory, "__name__", None)
            return ("defaultdict", f, si), ("defaultdict", f, li)
        return (t.__name__, si), (t.__name__, li)
    if t is bytearray:
        cx.leaves.append(repr(("bytes", bytes(v))))
        return ("bytearray", bytes(v)), ("bytearray", bytes(v))
    if t is array.array:
        cs = [canon(c, cx, pk) for c in v.tolist()]
        return ("array", v.typecode, tuple(c[0] for c in cs)), ("array", v.typecode, tuple(c[1] for c in cs))
    if t is np.ndarray:
        cs = [canon(c, cx, pk) for c in v.flatten().tolist()]
        return (("ndarray", v.dtype.str, v.shape, tuple(c[0] for c in cs)),
                ("ndarray", v.dtype.str, v.shape, tuple(c[1] for c in cs)))
    if t is np.ma.MaskedArray:
        data = v.data.flatten().tolist()
        mask = np.ma.getmaskarray(v).flatten().tolist()
        sub = _Ctx()
        hidden = tuple(canon(x, sub)[0] for x, m in zip(data, mask) if m)
        cs = [(MASK, MASK) if m else canon(x, cx, pk) for x, m in zip(data, mask)]
        return (("MaskedArray", v.dtype.str, v.shape, tuple(c[0] for c in cs), hidden),
                ("MaskedArray", v.dtype.str, v.shape, tuple(c[1] for c in cs)))
    if t is pd.Series:
        sub = _Ctx()
        idx = [canon(x, sub) for x in v.index.tolist()]
        cx.nan |= sub.nan
        vals = [canon(x, cx, pk) for x in v.tolist()]
        name = canon(v.name, sub)
        return (("Series", name[0], tuple((i[0], x[0]) for i, x in zip(idx, vals)), str(v.dtype)),
                ("Series", name[1], tuple((i[1], x[1]) for i, x in zip(idx, vals))))
    if t is pd.DataFrame:
        sub = _Ctx()
        idx = [canon(x, sub) for x in v.index.tolist()]
        scols, lcols = [], []
        for col in v.columns.tolist():
            vals = [canon(x, cx, pk) for x in v[col].tolist()]
            cn = canon(col, sub)
            scols.append((cn[0], str(v[col].dtype), tuple(x[0] for x in vals)))
            lcols.append((cn[1], tuple(x[1] for x in vals)))
        cx.nan |= sub.nan
        return (("DataFrame", tuple(scols), tuple(i[0] for i in idx)),
                ("DataFrame", tuple(lcols), tuple(i[1] for i in idx)))
    if t is WithEq:
        cx.user = True
        s, l = canon(v.v, cx, pk)
        return ("WithEq", s), ("WithEq", l)
    if t is NoEq:
        cx.user = cx.ident = True
        s, l = canon(v.v, cx, pk)
        return ("NoEq", ("#", next(_uniq)), s), ("NoEq", l)
    if t is Unh:
        cx.user = True
        s, l = canon(v.v[0], cx, True)
        return ("Unh", s), ("Unh", l)
    raise TypeError(f"canon: unsupported {t}")


def _seq_reason(x, y):
    if len(x) != len(y):
        return "len"
    if collections.Counter(x) == collections.Counter(y):
        return "order"
    return "content"


def explain(a, b):  # noqa: C901, PLR0911, PLR0912
    """why two loose forms differ (top level of a minimal pair)"""
    if a[0] != b[0]:
        return "type"
    t = a[0]
    if t in ("tuple", "list"):
        return _seq_reason(a[1], b[1])
    if t == "OrderedDict":
        return _seq_reason(a[1], b[1])
    if t == "deque":
        return "maxlen" if a[1] != b[1] else _seq_reason(a[2], b[2])
    if t == "defaultdict":
        return "default_factory" if a[1] != b[1] else "content"
    if t == "array":
        return "typecode" if a[1] != b[1] else _seq_reason(a[2], b[2])
    if t in ("ndarray", "MaskedArray"):
        if a[1] != b[1]:
            return "dtype"
        if a[2] != b[2]:
            return "shape"
        if t == "MaskedArray" and [x == MASK for x in a[3]] != [x == MASK for x in b[3]]:
            return "mask"
        return _seq_reason(a[3], b[3])
    if t == "Series":
        if a[1] != b[1]:
            return "name"
        if collections.Counter(a[2]) == collections.Counter(b[2]):
            return "row-order"
        if dict(a[2]) == dict(b[2]):
            return "duplicate-index-rows"
        if [x[1] for x in a[2]] == [x[1] for x in b[2]]:
            return "index"
        return "content"
    if t == "DataFrame":
        if a[1] != b[1]:
            return "column-order" if collections.Counter(a[1]) == collections.Counter(b[1]) else "content"
        return "index"
    return "content"


# ------------------------------------------------------------------------------------------------
NOKEY = object()


def keyof(v):
    """(status, key, hash-or-exception)"""
    try:
        k = pc.to_hashable(v)
    except Exception as e:  # noqa: BLE001
        return "exc", NOKEY, e
    try:
        return "ok", k, hash(k)
    except Exception as e:  # noqa: BLE001
        return "unhashable", k, e


def exc_cause(e):
    """'sorted-unorderable' iff a TypeError "'<' not supported ..." was raised directly under a pipefunc frame whose code
    calls sorted() (the builtin has no Python frame of its own); decided on code objects, not on source text"""
    if isinstance(e, pc.UnhashableError):
        return "UnhashableError"
    if isinstance(e, TypeError) and "not supported between instances of" in str(e):
        tb, last = e.__traceback__, None
        while tb is not None:
            last = tb
            tb = tb.tb_next
        if last is not None:
            code = last.tb_frame.f_code
            fn = code.co_filename.replace("\\", "/")
            if "/pipefunc/" in fn and "/vmc/" not in fn and "sorted" in code.co_names:
                return "sorted-unorderable"
        return "unorderable-elsewhere"
    return "other"


def _pk(k):
    try:
        return pc._pickle_key(k)
    except Exception as e:  # noqa: BLE001
        return f"!{type(e).__name__}"


EQ, DIFF, UNC = "must-equal", "must-differ", "unconstrained"
UNORDERED = ("set", "frozenset", "dict", "defaultdict", "Counter")


class Table:
    """values (built twice), keys, reference forms for a list of expressions closed under sub-expressions"""

    def __init__(self, descs, *, close=True):
        ds, seen = [], set()

        def add(d):
            k = dkey(d)
            if k in seen:
                return
            seen.add(k)
            ds.append(d)

        for d in descs:
            add(d)
        if close:
            stack = list(descs)
            while stack:
                for c in children(stack.pop()):
                    if dkey(c) not in seen:
                        add(c)
                        stack.append(c)
        # JSON round trip: every process (workers, replay, child interpreters) builds from identical plain data
        ds = [json.loads(dkey(d)) for d in ds]
        self.descs = ds
        self.index = {dkey(d): i for i, d in enumerate(ds)}
        n = len(ds)
        self.val, self.val2 = [None] * n, [None] * n
        self.status, self.key, self.aux = [None] * n, [None] * n, [None] * n
        self.status2, self.key2, self.aux2 = [None] * n, [None] * n, [None] * n
        self.S, self.L = [None] * n, [None] * n
        self.sid, self.lid, self.cid = [0] * n, [0] * n, [0] * n
        self.nan, self.ident, self.user = [False] * n, [False] * n, [False] * n
        self.pk = [None] * n
        si, li, ci = {}, {}, {}
        with warnings.catch_warnings():
            warnings.simplefilter("ignore")
            for i, d in enumerate(ds):
                v, v2 = build(d), build(d)
                self.val[i], self.val2[i] = v, v2
                cx = _Ctx()
                s, l = canon(v, cx)
                self.S[i], self.L[i] = s, l
                self.sid[i] = si.setdefault(s, len(si))
                self.lid[i] = li.setdefault(l, len(li))
                self.cid[i] = ci.setdefault(tuple(sorted(cx.leaves)), len(ci))
                self.nan[i], self.ident[i], self.user[i] = cx.nan, cx.ident, cx.user
                self.status[i], self.key[i], self.aux[i] = keyof(v)
                self.status2[i], self.key2[i], self.aux2[i] = keyof(v2)
                if self.status[i] == "ok":
                    self.pk[i] = _pk(self.key[i])

    def idx(self, d):
        return self.index[dkey(d)]

    def kids(self, i):
        return [self.idx(c) for c in children(self.descs[i])]

    def relation(self, i, j):
        if i == j:
            return UNC if (self.nan[i] or self.ident[i]) else EQ
        if self.sid[i] == self.sid[j]:
            return UNC if self.nan[i] else EQ
        return DIFF if self.lid[i] != self.lid[j] else UNC

    def keys_equal(self, i, j):
        """True/False, or None if the comparison itself fails or a key is missing"""
        ki = self.key[i]
        kj = self.key2[i] if i == j else self.key[j]
        if ki is NOKEY or kj is NOKEY:
            return None
        try:
            with warnings.catch_warnings():
                warnings.simplefilter("ignore")
                return bool(ki == kj)
        except Exception:  # noqa: BLE001
            return None

    def hashes_equal(self, i, j):
        hi = self.aux[i] if self.status[i] == "ok" else None
        hj = (self.aux2[i] if self.status2[i] == "ok" else None) if i == j else (self.aux[j] if self.status[j] == "ok" else None)
        return hi is None or hj is None or hi == hj

    def partial_order_cause(self, i):
        d = self.descs[i]
        if tag(d) in UNORDERED:
            ks = d[1] if tag(d) in ("set", "frozenset") else [kv[0] for kv in (d[2] if tag(d) == "defaultdict" else d[1])]
            if any(tag(k) in ("frozenset", "set") for k in ks):
                return "sorted-partial-order"
        return "other"


# ---- per-value check ----------------------------------------------------------------------------
def _problem(tab, i):
    """coarse identity of a key-construction problem of value i (None = fine)"""
    st = tab.status[i]
    if st == "exc":
        e = tab.aux[i]
        return ("exc", type(e).__name__, findings.exc_site(e), exc_cause(e))
    if st == "unhashable":
        m = re.search(r"unhashable type: '([\w.]+)'", str(tab.aux[i]))
        return ("unhashable", m.group(1) if m else type(tab.aux[i]).__name__)
    return None


def check_value(tab, i):
    out = []
    p = _problem(tab, i)
    d = tab.descs[i]
    if p is not None:
        m = i
        while True:  # innermost sub-expression with the same problem
            nxt = [c for c in tab.kids(m) if _problem(tab, c) == p]
            if not nxt:
                break
            m = nxt[0]
        dm = tab.descs[m]
        inside = "" if m == i else f"  (inside {render(d)})"
        if p[0] == "exc":
            sig = {"kind": "exception", "op": "to_hashable", "exc": p[1], "site": p[2], "cause": p[3], "at": tag(dm)}
            out.append((sig, f"to_hashable({render(dm)}) raised {tab.aux[m]!r}{inside}"))
        else:
            sig = {"kind": "unhashable-key", "at": tag(dm), "unhashable": p[1]}
            if tag(dm) in ("ndarray", "masked"):
                sig["dtype"] = dm[1]
            out.append((sig, f"to_hashable({render(dm)}) returned a key that cannot be hashed ({tab.aux[m]}): "
                             f"{tab.key[m]!r}{inside}"))
        return out
    out += check_pair(tab, i, i)
    return out


# ---- pair check -----------------------------------------------------------------------------------
def _violates(tab, i, j):
    """'miss' (must-equal, keys differ), 'collision' (must-differ, keys equal) or None"""
    eq = tab.keys_equal(i, j)
    if eq is None:
        return None
    rel = tab.relation(i, j)
    if rel == EQ and (not eq or not tab.hashes_equal(i, j)):
        return "miss"
    if rel == DIFF and eq:
        return "collision"
    return None


def _minimal(tab, i, j, what):
    while True:
        found = None
        ki, kj = tab.kids(i), tab.kids(j)
        if i == j:
            cand = [(c, c) for c in ki]
        else:
            cand = [(a, b) for a in ki for b in kj]
        for a, b in cand:
            if _violates(tab, a, b) == what:
                found = (a, b)
                break
        if found is None:
            return i, j
        i, j = found


def _has_layout_variant(d):
    """a non-C-contiguous ndarray (layout F/T) somewhere inside the description"""
    if isinstance(d, list):
        if d and d[0] == "ndarray" and len(d) > 4:
            return True
        return any(_has_layout_variant(x) for x in d)
    return False


def check_pair(tab, i, j):
    what = _violates(tab, i, j)
    if what is None:
        return []
    a, b = _minimal(tab, i, j, what)
    da, db = tab.descs[a], tab.descs[b]
    inside = "" if (a, b) == (i, j) else f"  (inside {render(tab.descs[i])} vs {render(tab.descs[j])})"
    if what == "miss":
        sig = {"kind": "equal-values-different-keys", "at": tag(da), "cause": tab.partial_order_cause(a)}
        if a == b:
            sig["cause"] = "rebuilt-copy"
        if tag(da) in USER and (_has_layout_variant(da) or _has_layout_variant(db)):
            sig["cause"] = "pickle-fallback-of-noncontiguous-array"
        kb = tab.key2[a] if a == b else tab.key[b]
        hashnote = "" if tab.keys_equal(a, b) is False else " (keys equal, hashes differ)"
        return [(sig, f"equal values of the same type get different keys{hashnote}: to_hashable({render(da)}) = {tab.key[a]!r} "
                      f"but to_hashable({render(db)}) = {kb!r}{inside}")]
    types = "/".join(sorted([tab.L[a][0], tab.L[b][0]]))
    sig = {"kind": "collision", "types": types, "diff": explain(tab.L[a], tab.L[b])}
    return [(sig, f"different values get the same key ({sig['diff']} differs): to_hashable({render(da)}) == "
                  f"to_hashable({render(db)}) == {tab.key[a]!r}{inside}")]


# ---- cross-process check ----------------------------------------------------------------------------
def _child_main(infile, outfile):
    """runs in a fresh interpreter (other PYTHONHASHSEED): keys of all expressions in infile, pickled to outfile"""
    with open(infile) as fh:
        descs = json.load(fh)
    out = []
    with warnings.catch_warnings():
        warnings.simplefilter("ignore")
        for d in descs:
            st, k, aux = keyof(build(d))
            ent = {"status": st, "key": None, "pk": None, "err": None}
            if st == "exc":
                ent["err"] = type(aux).__name__
            else:
                try:
                    ent["key"] = pickle.dumps(k, protocol=pickle.HIGHEST_PROTOCOL)
                except Exception as e:  # noqa: BLE001
                    ent["status"], ent["err"] = "unpicklable", repr(e)
                if st == "ok":
                    ent["pk"] = _pk(k)
            out.append(ent)
    with open(outfile, "wb") as fh:
        pickle.dump({"hashseed": os.environ.get("PYTHONHASHSEED"), "entries": out}, fh)


def run_children(descs, seeds):
    """keys of descs in one fresh interpreter per seed -> {seed: [entry]}"""
    tmp = boot.mkscratch("c15-")
    try:
        infile = os.path.join(tmp, "in.json")
        with open(infile, "w") as fh:
            json.dump(descs, fh)
        procs = []
        for s in seeds:
            env = dict(os.environ)
            env["PYTHONHASHSEED"] = str(s)
            env["VERIF_REPO"] = boot.REPO
            outfile = os.path.join(tmp, f"out-{s}.pkl")
            code = ("import sys; import vmc.boot as b; b.boot(); from vmc.props import c15; "
                    "c15._child_main(sys.argv[1], sys.argv[2])")
            procs.append((s, outfile, subprocess.Popen([PYTHON, "-c", code, infile, outfile], cwd=boot.VERIF, env=env,
                                                       stdout=subprocess.DEVNULL, stderr=subprocess.PIPE)))
        res = {}
        for s, outfile, p in procs:
            _, err = p.communicate(timeout=300)
            if p.returncode != 0:
                raise RuntimeError(f"C15 child interpreter (PYTHONHASHSEED={s}) failed: {err.decode()[-2000:]}")
            with open(outfile, "rb") as fh:
                body = pickle.load(fh)  # noqa: S301
            if body["hashseed"] != str(s):
                raise RuntimeError("child ran with the wrong hash seed")
            ents = body["entries"]
            for e in ents:
                e["k"] = NOKEY
                if e["status"] in ("ok", "unhashable") and e["key"] is not None:
                    e["k"] = pickle.loads(e["key"])  # noqa: S301
            res[s] = ents
        return res
    finally:
        shutil.rmtree(tmp, ignore_errors=True)


def _xmismatch(tab, i, res, pos):
    """description of the disagreement between the three interpreters on value i (None = all agree)"""
    if tab.status[i] != "ok":
        return None
    keys = [("0", tab.key[i])]
    for s, ents in res.items():
        e = ents[pos[i]]
        if e["status"] != "ok":
            return f"PYTHONHASHSEED={s}: status {e['status']} {e['err']}"
        keys.append((str(s), e["k"]))
    with warnings.catch_warnings():
        warnings.simplefilter("ignore")
        for (sa, ka), (sb, kb) in itertools.permutations(keys, 2):
            try:
                same = bool(ka == kb)
            except Exception as e:  # noqa: BLE001
                return f"keys of seeds {sa},{sb} cannot be compared: {e!r}"
            if not same:
                return f"PYTHONHASHSEED={sa}: {ka!r}  !=  PYTHONHASHSEED={sb}: {kb!r}"
    return None


def check_xproc(tab, i, res, pos, seeds, notes=None):
    """tab must contain the sub-expressions of i; res/pos: child results and position of table index in them"""
    mm = _xmismatch(tab, i, res, pos)
    native = not tab.user[i] and not tab.nan[i]
    if notes is not None and tab.status[i] == "ok" and native:
        pks = {tab.pk[i]} | {ents[pos[i]]["pk"] for ents in res.values()}
        if len(pks) > 1:
            notes[f"_pickle_key(key) differs across hash seeds (DiskCache would miss): top-level {tag(tab.descs[i])}"] += 1
    if mm is None:
        return []
    if not native:
        if notes is not None:
            why = "NaN inside" if tab.nan[i] and not tab.user[i] else "user class inside"
            notes[f"key differs across processes, not demanded ({why})"] += 1
        return []
    m = i
    while True:
        nxt = [c for c in tab.kids(m) if not tab.user[c] and not tab.nan[c] and _xmismatch(tab, c, res, pos) is not None]
        if not nxt:
            break
        m = nxt[0]
    dm = tab.descs[m]
    inside = "" if m == i else f"  (inside {render(tab.descs[i])})"
    sig = {"kind": "key-differs-across-processes", "at": tag(dm), "cause": tab.partial_order_cause(m)}
    return [(sig, f"to_hashable({render(dm)}) gives different keys in interpreters with different PYTHONHASHSEED "
                  f"(0, {seeds[0]}, {seeds[1]}): {_xmismatch(tab, m, res, pos)}{inside}")]


# ---- memoize ----------------------------------------------------------------------------------------
CACHES = ["simple", "lru", "hybrid", "disk", "disk-nolru", "lru-shared", "hybrid-shared"]
CALLS = ["pos", "kw"]


def make_cache(cfg, folder):
    if cfg == "simple":
        return pc.SimpleCache()
    if cfg == "lru":
        return pc.LRUCache(shared=False)
    if cfg == "lru-shared":
        return pc.LRUCache(shared=True)
    if cfg == "hybrid":
        return pc.HybridCache(shared=False)
    if cfg == "hybrid-shared":
        return pc.HybridCache(shared=True)
    if cfg == "disk":
        return pc.DiskCache(folder, lru_shared=False)
    if cfg == "disk-nolru":
        return pc.DiskCache(folder, with_lru_cache=False)
    raise ValueError(cfg)


def memo_run(cache, va, vb, call):
    """f(a) then f(b) through memoize(cache=cache): -> ('hit'|'miss'|'odd', r1, r2)"""
    calls = []

    @pc.memoize(cache=cache)
    def f(x):
        calls.append(1)
        return ("r", len(calls))

    if call == "pos":
        r1, r2 = f(va), f(vb)
    else:
        r1, r2 = f(x=va), f(x=vb)
    if r1 != ("r", 1):
        return "odd", r1, r2
    if len(calls) == 1 and r2 == ("r", 1):
        return "hit", r1, r2
    if len(calls) == 2 and r2 == ("r", 2):
        return "miss", r1, r2
    return "odd", r1, r2


def check_memo(tab, i, j, cfg, call, cache=None, notes=None):
    """tab contains i, j; cache: an empty cache object to use, else a fresh one is made and disposed of"""
    if tab.status[i] != "ok" or tab.status[j] != "ok":
        return []
    folder = None
    own = cache is None
    try:
        if own:
            folder = boot.mkscratch("c15-disk-")
            cache = make_cache(cfg, folder)
        va = tab.val[i]
        vb = tab.val2[i] if i == j else tab.val[j]
        try:
            with warnings.catch_warnings():
                warnings.simplefilter("ignore")
                res, r1, r2 = memo_run(cache, va, vb, call)
        except Exception as e:  # noqa: BLE001
            sig = findings.exc_sig(e, op="memoize", cache=cfg)
            return [(sig, f"memoize(cache={cfg}) f({render(tab.descs[i])}); f({render(tab.descs[j])}) [{call}] raised {e!r}")]
    finally:
        if own:
            del cache
            gc.collect()
            if folder:
                shutil.rmtree(folder, ignore_errors=True)
    rel = tab.relation(i, j)
    da, db = tab.descs[i], tab.descs[j]
    if res == "odd":
        return [({"kind": "memoize-wrong-result", "cache": cfg},
                 f"memoize(cache={cfg}) [{call}]: f({render(da)}) -> {r1!r}, f({render(db)}) -> {r2!r}")]
    if res == "hit" and rel == DIFF:
        a, b = _minimal(tab, i, j, "collision") if _violates(tab, i, j) == "collision" else (i, j)
        types = "/".join(sorted([tab.L[a][0], tab.L[b][0]]))
        sig = {"kind": "memoize-stale-hit", "cache": cfg, "types": types, "diff": explain(tab.L[a], tab.L[b])}
        return [(sig, f"memoize(cache={cfg}) [{call}]: f({render(db)}) returned the result stored for f({render(da)}) "
                      f"without calling f ({sig['diff']} differs)")]
    if res == "miss" and rel == EQ and notes is not None:
        notes[f"memoize miss on a must-equal call (costs a recomputation only): cache={cfg}"] += 1
    return []


# ---- memoize: look-alike CALL SHAPES (how the values are packaged into positional / keyword arguments) ----------
# python literals; the call is f(*args, **kwargs) on ``def f(*args, **kwargs)``
SHAPES = [
    "(), {}", "((),), {}", "({},), {}", "((), {}), {}", "(((), {}),), {}",
    "(1,), {}", "((1,),), {}", "([1],), {}", "(1, {}), {}", "((1,), {}), {}",
    "(1, 2), {}", "((1, 2),), {}", "([1, 2],), {}", "(2, 1), {}",
    "(1,), {'k': 2}", "((1,), {'k': 2}), {}", "(1, {'k': 2}), {}", "(1, ('k', 2)), {}", "(((1,), {'k': 2}),), {}",
    "(1,), {'k': 1}", "(2,), {'k': 1}", "(), {'k': 1}", "({'k': 1},), {}", "(('k', 1),), {}", "((), {'k': 1}), {}", "(), {'j': 1}",
    "(), {'a': 1, 'b': 2}", "(), {'b': 2, 'a': 1}", "(), {'a': 2, 'b': 1}", "((), {'a': 1, 'b': 2}), {}", "(), {'a': 1}",
]


def _shape(sh):
    args, kwargs = eval("(" + sh + ")", {})  # noqa: S307  (own literals)
    return args, kwargs


def _shape_id(sh):
    args, kwargs = _shape(sh)
    return repr((args, sorted(kwargs.items())))


def check_memo_shape(sa, sb, cfg):
    """f(*A, **KA) then f(*B, **KB) through memoize: a stored result may only come back for an equal call"""
    folder = boot.mkscratch("c15-disk-") if cfg.startswith("disk") else None
    cache = make_cache(cfg, folder)
    try:
        calls = []

        @pc.memoize(cache=cache)
        def f(*args, **kwargs):
            calls.append(1)
            return ("r", len(calls))

        (a, ka), (b, kb) = _shape(sa), _shape(sb)
        try:
            with warnings.catch_warnings():
                warnings.simplefilter("ignore")
                r1, r2 = f(*a, **ka), f(*b, **kb)
        except Exception as e:  # noqa: BLE001
            return [(findings.exc_sig(e, op="memoize-call-shape", cache=cfg), f"memoize(cache={cfg}) f({sa}); f({sb}) raised {e!r}")], "raised"
    finally:
        del cache
        if folder:
            shutil.rmtree(folder, ignore_errors=True)
    same = _shape_id(sa) == _shape_id(sb)
    if r1 != ("r", 1) or r2 not in (("r", 1), ("r", 2)) or len(calls) != r2[1]:
        return [({"kind": "memoize-wrong-result", "cache": cfg, "op": "call-shape"}, f"memoize(cache={cfg}): f({sa}) -> {r1!r}, f({sb}) -> {r2!r}")], "odd"
    if r2 == ("r", 1) and not same:
        return [({"kind": "memoize-stale-hit", "cache": cfg, "op": "call-shape"},
                 f"memoize(cache={cfg}): the call f(*args, **kwargs) with (args, kwargs) = {sb} returned the result stored for "
                 f"(args, kwargs) = {sa} without calling f")], "hit"
    return [], ("hit" if r2 == ("r", 1) else "miss")


# ------------------------------------------------------------------------------------------------
def run_case(case):
    op = case["op"]
    if op == "value":
        tab = Table([case["v"]])
        return check_value(tab, tab.idx(case["v"]))
    if op == "pair":
        tab = Table([case["a"], case["b"]])
        return check_pair(tab, tab.idx(case["a"]), tab.idx(case["b"]))
    if op == "xproc":
        tab = Table([case["v"]])
        res = run_children(tab.descs, case["seeds"])
        pos = list(range(len(tab.descs)))
        return check_xproc(tab, tab.idx(case["v"]), res, pos, case["seeds"])
    if op == "memo-shape":
        return check_memo_shape(case["a"], case["b"], case["cache"])[0]
    if op == "memo":
        tab = Table([case["a"], case["b"]])
        return check_memo(tab, tab.idx(case["a"]), tab.idx(case["b"]), case["cache"], case["call"])
    raise ValueError(op)


def replay(art):
    return [sig for sig, _ in run_case(art)]


# ------------------------------------------------------------------------------------------------
_TABLES: dict = {}
PAIR_ID = 1 << 20


def table(maxdepth):
    if maxdepth not in _TABLES:
        _TABLES.clear()  # one big table per worker at a time
        _TABLES[maxdepth] = Table(universe(maxdepth), close=False)
    return _TABLES[maxdepth]


def child_seeds(seed):
    return [2 * seed + 1, 2 * seed + 2]


def plan(tier, seed):
    maxd = 3 if tier == "thorough" else 2
    seeds = child_seeds(seed)
    units = []
    for d in range(1, maxd + 1):
        nv = {1: 8, 2: 16, 3: 16}[d]
        npairs = {1: 16, 2: 64, 3: 128}[d]
        nx = {1: 4, 2: 6, 3: 8}[d]
        units += [(f"depth<={d}:values", ("values", maxd, d, c, nv)) for c in range(nv)]
        units += [(f"depth<={d}:pairs", ("pairs", maxd, d, c, npairs)) for c in range(npairs)]
        units += [(f"depth<={d}:two-interpreters", ("xproc", maxd, d, c, nx, seeds)) for c in range(nx)]
        if d == 1:
            for cfg in CACHES:
                n = {"lru-shared": 16, "hybrid-shared": 8, "disk": 4, "disk-nolru": 4}.get(cfg, 2)
                units += [("memoize", ("memo", cfg, c, n)) for c in range(n)]
            units += [("memoize-call-shapes", ("memo-shape", cfg, c, 4)) for cfg in ("simple", "lru", "hybrid", "disk") for c in range(4)]
    table(maxd)  # built once here: the runner forks its workers after plan(), so they inherit it copy-on-write
    groups: dict = {}
    for u in units:
        groups.setdefault(u[0], []).append(u)
    out = []
    for us in groups.values():
        r = seed % len(us)
        out.extend(us[r:] + us[:r])
    return out


def _new(tab, d):
    """indices of the values that are new at depth bound d (depth bound 1 includes the leaves)"""
    lo = 0 if d == 1 else d
    return [i for i, x in enumerate(tab.descs) if lo <= depth(x) <= d]


def run_unit(unit):  # noqa: C901, PLR0912, PLR0915
    acc = Acc()
    kind = unit[0]

    def record(case, res):
        for sig, text in res:
            acc.violation(sig, case, text)
            acc.outcome({"violation": sig["kind"]})

    if kind == "values":
        _, maxd, d, c, n = unit
        tab = table(maxd)
        mine = _new(tab, d)[c::n]
        for i in mine:
            desc = tab.descs[i]
            acc.case(None)
            acc.stratum(f"values:{tag(desc)}")
            acc.outcome(("value", tab.status[i], tab.relation(i, i)))
            record({"op": "value", "v": desc}, check_value(tab, i))
            if tab.status[i] == "ok" and tab.status2[i] == "ok" and tab.relation(i, i) == EQ and tab.pk[i] != _pk(tab.key2[i]):
                acc.notes[f"_pickle_key differs between two equal builds in one process: top-level {tag(desc)}"] += 1
        if mine:
            acc.sample({"op": "value", "v": tab.descs[mine[len(mine) // 2]]})
    elif kind == "pairs":
        _, maxd, d, c, n = unit
        tab = table(maxd)
        dep = [depth(x) for x in tab.descs]
        N = sum(1 for x in dep if x <= d)  # the universe is sorted by depth: depth<=d is a prefix
        allcols = list(range(N))
        newcols = allcols if d == 1 else [j for j in allcols if dep[j] == d]
        key, key2, status, aux = tab.key, tab.key2, tab.status, tab.aux
        sid, lid, cid, nan, ident, pk = tab.sid, tab.lid, tab.cid, tab.nan, tab.ident, tab.pk
        n_eq = n_diff = n_unc = n_skip = n_look = n_keyeq = n_pkdiff = 0
        seen_out = set()
        with warnings.catch_warnings():
            warnings.simplefilter("ignore")
            for i in range(c, N, n):
                cols = allcols if (d == 1 or dep[i] == d) else newcols
                acc.evaluations += len(cols)
                ki = key[i]
                if ki is NOKEY:
                    n_skip += len(cols)
                    continue
                s_i, l_i, c_i, nan_i, h_i = sid[i], lid[i], cid[i], nan[i], (aux[i] if status[i] == "ok" else None)
                for j in cols:
                    kj = key[j]
                    if j == i:
                        kj = key2[i]
                    if kj is NOKEY:
                        n_skip += 1
                        continue
                    try:
                        eq = bool(ki == kj)
                    except Exception:  # noqa: BLE001
                        n_skip += 1
                        continue
                    bad = False
                    if j == i:
                        if nan_i or ident[i]:
                            rel = UNC
                            n_unc += 1
                        else:
                            rel = EQ
                            n_eq += 1
                            bad = not eq
                    elif sid[j] == s_i:
                        if nan_i:
                            rel = UNC
                            n_unc += 1
                        else:
                            rel = EQ
                            n_eq += 1
                            bad = not eq or (h_i is not None and status[j] == "ok" and aux[j] != h_i)
                            if eq and pk[i] != pk[j]:
                                n_pkdiff += 1
                    elif lid[j] != l_i:
                        rel = DIFF
                        n_diff += 1
                        bad = eq
                    else:
                        rel = UNC
                        n_unc += 1
                    if eq:
                        n_keyeq += 1
                    if j != i and cid[j] == c_i:
                        n_look += 1
                        if d <= 2:  # depth-3 look-alike pairs are only counted (stratum), a set of 10^8 ids is not kept
                            acc.nontrivial.add(i * PAIR_ID + j)
                    seen_out.add((rel, eq))
                    if bad:
                        res = check_pair(tab, i, j)
                        if not res:
                            raise RuntimeError(f"C15 harness: screening and check_pair disagree on {tab.descs[i]} {tab.descs[j]}")
                        record({"op": "pair", "a": tab.descs[i], "b": tab.descs[j]}, res)
        acc.stratum("pairs:must-equal", n_eq)
        acc.stratum("pairs:must-differ", n_diff)
        acc.stratum("pairs:unconstrained", n_unc)
        acc.stratum("pairs:skipped (a key is missing or cannot be compared: reported per value)", n_skip)
        acc.stratum("pairs:look-alike", n_look)
        acc.stratum("pairs:keys-equal", n_keyeq)
        if n_pkdiff:
            acc.notes["_pickle_key differs for equal keys of must-equal values in one process (DiskCache would miss)"] += n_pkdiff
        for rel, eq in seen_out:
            acc.outcome(("pair", rel, "keys-equal" if eq else "keys-differ"))
        if c < 4:
            i = c
            js = [j for j in newcols if j != i and tab.cid[j] == tab.cid[i]]
            if js:
                acc.sample({"op": "pair", "a": tab.descs[i], "b": tab.descs[js[len(js) // 2]]})
    elif kind == "xproc":
        _, maxd, d, c, n, seeds = unit
        tab = table(maxd)
        mine = _new(tab, d)[c::n]
        need, seen = [], set()
        stack = list(mine)
        while stack:
            i = stack.pop()
            if i in seen:
                continue
            seen.add(i)
            need.append(i)
            stack.extend(tab.kids(i))
        need.sort()
        pos = {i: p for p, i in enumerate(need)}
        res = run_children([tab.descs[i] for i in need], seeds)
        for i in mine:
            acc.case(None)
            native = not tab.user[i] and not tab.nan[i]
            acc.stratum("two-interpreters:natively handled" if native else "two-interpreters:user class or NaN inside (observed only)")
            out = check_xproc(tab, i, res, pos, seeds, acc.notes)
            acc.outcome(("xproc", tab.status[i], native, bool(out), _xmismatch(tab, i, res, pos) is None))
            record({"op": "xproc", "v": tab.descs[i], "seeds": list(seeds)}, out)
        if mine:
            acc.sample({"op": "xproc", "v": tab.descs[mine[0]], "seeds": list(seeds)})
    elif kind == "memo":
        _, cfg, c, n = unit
        vals = memo_values()
        tab = Table(vals)
        idx = [tab.idx(v) for v in vals]
        folder = boot.mkscratch("c15-disk-")
        cache = make_cache(cfg, folder)
        confirmed = collections.Counter()
        try:
            for i in idx[c::n]:
                for j in idx:
                    for call in CALLS:
                        acc.case(None)
                        if tab.status[i] != "ok" or tab.status[j] != "ok":
                            acc.stratum("memoize:skipped (key defect reported per value)")
                            continue
                        if cfg.endswith("shared") and (tab.ident[i] or tab.ident[j]):
                            # a shared cache pickles its keys: an identity-hashed object can never hit (and breaks clear())
                            acc.stratum("memoize:skipped (identity-hashed object as key of a manager-backed cache)")
                            continue
                        rel = tab.relation(i, j)
                        acc.stratum(f"memoize:{cfg}:{rel}")
                        if i != j and tab.cid[i] == tab.cid[j]:
                            acc.nontrivial.add(hash(("memo", cfg, call, i, j)))
                        notes = collections.Counter()
                        try:
                            cache.clear()
                            if len(cache):
                                raise RuntimeError("not empty after clear()")  # noqa: TRY301
                        except Exception as e:  # noqa: BLE001  (e.g. shared LRUCache.clear with identity-hashed keys)
                            acc.notes[f"cache.clear() failed between cases ({type(e).__name__}); new cache object made: cache={cfg}"] += 1
                            del cache
                            gc.collect()
                            shutil.rmtree(folder, ignore_errors=True)
                            os.makedirs(folder, exist_ok=True)
                            cache = make_cache(cfg, folder)
                        res = check_memo(tab, i, j, cfg, call, cache=cache, notes=notes)
                        case = {"op": "memo", "cache": cfg, "call": call, "a": tab.descs[i], "b": tab.descs[j]}
                        if res and confirmed[sig_key(res[0][0])] < MAX_EXAMPLES:
                            # the examples kept per signature (what the runner replays) are confirmed on a fresh cache
                            # object, as replay does; later instances of the same signature are taken from the reused one
                            confirmed[sig_key(res[0][0])] += 1
                            res = check_memo(tab, i, j, cfg, call)
                            if not res:
                                acc.notes[f"memoize anomaly seen only on a cleared, reused cache object: cache={cfg}"] += 1
                        acc.notes.update(notes)
                        acc.outcome(("memo", rel, bool(res)))
                        record(case, res)
            acc.sample({"op": "memo", "cache": cfg, "call": "pos", "a": Li(_1), "b": T(_1)})
        finally:
            del cache
            gc.collect()
            shutil.rmtree(folder, ignore_errors=True)
    elif kind == "memo-shape":
        _, cfg, c, n = unit
        for sa in SHAPES[c::n]:
            for sb in SHAPES:
                res, oc = check_memo_shape(sa, sb, cfg)
                same = _shape_id(sa) == _shape_id(sb)
                acc.case(("memo-shape", cfg, sa, sb) if sa != sb else None)
                acc.stratum(f"memoize-call-shape:{cfg}:{'equal call' if same else 'different call'}")
                acc.outcome(("memo-shape", same, oc))
                record({"op": "memo-shape", "cache": cfg, "a": sa, "b": sb}, res)
        acc.sample({"op": "memo-shape", "cache": cfg, "a": "(1,), {'k': 2}", "b": "((1,), {'k': 2}), {}"})
    else:
        raise ValueError(kind)
    return acc


def finalize(total, tier):
    maxd = 3 if tier == "thorough" else 2
    u = universe(maxd)
    by = collections.Counter(depth(d) for d in u)
    return {"universe": {
        "values_by_depth": {str(k): v for k, v in sorted(by.items())},
        "values": len(u),
        "fan_out_cap": {"max_elements_per_container": 2,
                        "depth1": "all 9 leaves (sequences: all 81 ordered leaf pairs; deque/mapping keys: 5-leaf pools)",
                        "one_element_containers_and_user_class_wrappers": "over every value of smaller depth",
                        "depth2_child_pools": {"pair": len(H1), "hashable": len(HK1), "mapping-key-pair": len(HKM1),
                                               "mapping-value": len(V1), "object-array-cell": len(O1)},
                        "depth3_child_pools": ({"pair": len(H2), "hashable": len(HK2), "mapping-key-pair": len(HKM2),
                                                "mapping-value": len(V2), "object-array-cell": len(O2)} if maxd >= 3 else None)},
        "memoize_values": len(memo_values()), "cache_configurations": CACHES, "call_styles": CALLS, "call_shapes": SHAPES,
        "child_interpreter_hashseeds": child_seeds(int(os.environ.get("VERIF_SEED", "0") or 0))}}
