"""C07 — every storage backend behaves as a masked n-d object array (DESIGN.md §5 C07).

Explicit-state BFS over the REAL storage objects: a transition is a dump with one key of the complete write alphabet;
after every transition the write is checked against a reference masked NumPy object array, and on every new state the
complete read alphabet (every key tuple, to_array variants, mask, mask_linear, has_index, get_from_index,
persist-then-reopen, error keys) is evaluated on implementation and reference."""
from __future__ import annotations

import collections
import itertools
import multiprocessing
import os
import re
import shutil

import numpy as np
from pipefunc.map import DictArray, FileArray, SharedMemoryDictArray

from .. import boot, findings, terms
from ..acc import Acc

ID = "C07"
LEVEL = "model_checking"
TECHNIQUE = "explicit-state BFS over real storage objects (all dump keys as transitions, full read alphabet on every state) against a reference masked NumPy array"
RULE = ("backends FileArray (rank <= 2 also with a custom filename_template), DictArray, SharedMemoryDictArray x full shapes (3,), (2,3) (thorough: (3,) depth 5, (2,3) depth 3, (3,2) depth 2, (2,3,2) depth 1) x all 2^rank external/internal masks; "
        "transitions = persist() (dict backends; the canonical state includes which elements differ from the persisted copy) and dump(key, fresh value; for the all-external masks of rank <= 2 also the same exploration with None, and with a 1-tuple, as the value of every odd write; for masks with internal axes of rank <= 2 also with every odd element handed over as a nested Python list instead of an ndarray) for EVERY external key tuple over ints in [-n,n) and slices {:, ::2, ::-1, 1:}; reads on every state = "
        "__getitem__ for every full-rank key tuple from the same per-axis menu, to_array(splat_internal None/False/True), mask, mask_linear, has_index, (mask, mask_linear and every all-int element read also BETWEEN the writes of a history, on the same object) "
        "get_from_index, persist+reopen, and error keys (each axis out of range by +-1, rank +-1). SharedMemoryDictArray at depth 1 for rank 2 in quick (every proxy call is an RPC). States merged by stored content with values renamed by first appearance")
ASSUMPTIONS = ["reference = numpy masked object array of the full shape (vmc/props/c07.py:Ref)",
               "a masked scalar, np.ma.masked inside an object array and a set mask bit all denote 'missing'",
               "get_from_index is only read for written elements (reading an unwritten linear index is not specified)",
               "to_array(splat_internal=True) without an internal shape is not specified (raises ValueError today) and is skipped",
               "SharedMemoryDictArray objects share one real multiprocessing.Manager per worker process"]
BUDGET = {"quick": 80.0, "thorough": 1500.0}

SLICES = [slice(None), slice(None, None, 2), slice(None, None, -1), slice(1, None)]
CLASSES = {"file_array": FileArray, "dict": DictArray, "shared_memory_dict": SharedMemoryDictArray}
_MANAGER = None


def _manager():
    global _MANAGER
    if _MANAGER is None:
        _MANAGER = multiprocessing.Manager()
    return _MANAGER


def key_json(key):
    return [["s", k.start, k.stop, k.step] if isinstance(k, slice) else k for k in key]


def key_from_json(j):
    return tuple(slice(k[1], k[2], k[3]) if isinstance(k, list) else k for k in j)


def axis_menu(n):
    return list(range(-n, n)) + SLICES


def geometry(cfg):
    full, mask = tuple(cfg["full"]), tuple(cfg["mask"])
    ext = tuple(s for s, m in zip(full, mask) if m)
    internal = tuple(s for s, m in zip(full, mask) if not m)
    return full, mask, ext, internal


def make(cfg, folder):
    full, mask, ext, internal = geometry(cfg)
    cls = CLASSES[cfg["backend"]]
    kw = {}
    if cfg["backend"] == "shared_memory_dict":
        kw["mapping"] = _manager().dict()
    if cfg.get("filename_template"):
        kw["filename_template"] = cfg["filename_template"]  # FileArray only: a non-default name for the element files
    return cls(folder, ext, internal or None, mask if internal else None, **kw)


def value_for(cfg, step):
    _, _, _, internal = geometry(cfg)
    if cfg.get("values") == "tuple-odd" and not internal and step % 2 == 1:
        return (f"v{step}",)  # a 1-tuple is an element like any other (it must not be unwrapped or broadcast)
    if cfg.get("values") == "none-odd" and not internal and step % 2 == 1:
        return None  # None is a legitimate element of an object array: written, not missing
    if cfg.get("values") == "list-odd" and internal and step % 2 == 1:
        # an element with internal axes handed over as a (nested) Python list instead of an ndarray
        return terms.term_array(f"v{step}", "", internal).tolist()
    return terms.term_array(f"v{step}", "", internal) if internal else f"v{step}"


# ------------------------------------------------------------------------------------------------
# reference
# ------------------------------------------------------------------------------------------------
class Ref:
    def __init__(self, cfg):
        self.full, self.mask_axes, self.ext, self.internal = geometry(cfg)
        self.data = np.empty(self.full, dtype=object)
        self.missing = np.ones(self.full, dtype=bool)

    def _full_key(self, ext_key):
        it = iter(ext_key)
        return tuple(next(it) if m else slice(None) for m in self.mask_axes)

    def dump(self, ext_key, value):
        sel = np.zeros(self.ext, dtype=bool)
        sel[ext_key] = True  # numpy semantics of the external key
        for eidx in zip(*np.nonzero(sel)) if self.ext else ([()] if sel else []):
            fk = self._full_key(eidx)
            if self.internal:
                self.data[fk] = np.asarray(value, dtype=object)
            else:
                self.data[fk] = value
            self.missing[fk] = False

    def get(self, key):
        return np.ma.MaskedArray(self.data, mask=self.missing, dtype=object)[key]

    def ext_missing(self):
        """missing-mask over the external shape (an element is written as a whole)"""
        if not self.internal:
            return self.missing.copy()
        axes = tuple(i for i, m in enumerate(self.mask_axes) if not m)
        return self.missing.all(axis=axes)


def norm(x):
    """(shape, rendering) where every representation of 'missing' becomes '~'"""
    if x is np.ma.masked:
        return ((), "~")
    if isinstance(x, np.ma.MaskedArray):
        if x.ndim == 0:
            return ((), "~" if bool(x.mask) else norm(x.item())[1])
        filled = np.empty(x.shape, dtype=object)
        m = np.ma.getmaskarray(x)
        for idx in itertools.product(*map(range, x.shape)):
            filled[idx] = "~" if m[idx] else x.data[idx]
        return norm(filled)
    if isinstance(x, np.ndarray):
        if x.ndim == 0:
            return norm(x.item())
        return (tuple(x.shape), "[" + ",".join(norm(x[i])[1] for i in range(x.shape[0])) + "]")
    if isinstance(x, (list, tuple)):
        return norm(np.asarray(x, dtype=object))
    if x is None:
        return ((), "None")
    return ((), str(x))


# ------------------------------------------------------------------------------------------------
# executing a history
# ------------------------------------------------------------------------------------------------
def replay_history(cfg, hist):
    """fresh real object + reference with the history applied; returns (arr, ref, folder, error)"""
    global _COUNTER
    if _UNIT_BASE is None:
        base = boot.mkscratch("c07-")
    else:  # inside a work unit: one scratch root per unit, a fresh (non-existent) sub-folder per history
        _COUNTER += 1
        base = os.path.join(_UNIT_BASE, str(_COUNTER))
    folder = os.path.join(base, "arr")  # non-existent path: DictArray(folder) must not find a stale folder
    arr = make(cfg, folder)
    ref = Ref(cfg)
    err = None
    mid = []

    def cheap_reads(after):
        # reads are interleaved with the writes on the SAME object (a stale cached mask, say, only shows when a read
        # precedes the write): mask and mask_linear after every prefix of the history
        try:
            em = ref.ext_missing()
            got_m = norm(np.asarray(np.ma.getdata(arr.mask), dtype=bool))
            got_l = norm(np.asarray(list(arr.mask_linear()), dtype=bool))
            if got_m != norm(em):
                mid.append((f"mask after {after} writes (reads interleaved)", str(got_m), str(norm(em))))
            if got_l != norm(em.reshape(-1)):
                mid.append((f"mask_linear after {after} writes (reads interleaved)", str(got_l), str(norm(em.reshape(-1)))))
        except Exception as e:  # noqa: BLE001
            mid.append((f"mask read after {after} writes", f"raised {type(e).__name__}: {str(e)[:60]}", "a mask"))
        # element reads between the writes too (a read cache that a later dump fails to invalidate is only visible when the
        # SAME object has read the element before it is overwritten): every all-int key with the internal axes at 0
        try:
            for eidx in itertools.product(*map(range, ref.ext)):
                it = iter(eidx)
                fk = tuple(next(it) if m_ else 0 for m_ in ref.mask_axes)
                got = norm(arr[fk])
                want = norm(ref.get(fk))
                if got != want:
                    mid.append((f"arr[{fk}] after {after} writes (reads interleaved)", str(got), str(want)))
        except Exception as e:  # noqa: BLE001
            mid.append((f"element read after {after} writes", f"raised {type(e).__name__}: {str(e)[:60]}", "an element"))

    cheap_reads(0)
    snapshot = None  # reference content at the last persist()
    for step, kj in enumerate(hist, 1):
        if kj == "P":
            # persist() as an operation of the history (not only as the last step before a reopen): what a LATER persist
            # writes must not depend on what an earlier one wrote
            try:
                arr.persist()
            except Exception as e:  # noqa: BLE001
                err = (step, e)
                break
            snapshot = (ref.data.copy(), ref.missing.copy())
            continue
        key = key_from_json(kj)
        v = value_for(cfg, step)
        try:
            arr.dump(key, v)
        except Exception as e:  # noqa: BLE001
            err = (step, e)
            break
        ref.dump(key, v)
        cheap_reads(step)
    arr._vmc_mid = mid
    # which elements differ from the persisted copy (part of the canonical state: same content, other disk image = other futures)
    if snapshot is None:
        arr._vmc_dirty = ("never-persisted",)
    else:
        d0, m0 = snapshot
        arr._vmc_dirty = tuple(bool(m0[i] != ref.missing[i] or (not ref.missing[i] and norm(d0[i]) != norm(ref.data[i]))) for i in np.ndindex(*ref.full))
    return arr, ref, base, folder, err


def stored_state(arr):
    """canonical content through the public API: mask_linear + get_from_index, values renamed by first appearance"""
    ml = list(arr.mask_linear())
    names: dict[str, int] = {}
    out = []
    for i, missing in enumerate(ml):
        if missing:
            out.append(None)
        else:
            try:
                r = norm(arr.get_from_index(i))[1]
            except Exception as e:  # noqa: BLE001  (reported by the read table; the state key only records it)
                out.append("EXC:" + type(e).__name__)
                continue
            m = re.search(r"v\d+", r)
            tag = m.group(0) if m else r
            names.setdefault(tag, len(names))
            out.append(names[tag])
    return tuple(out)


def read_table(cfg, arr, ref, folder, full_reads=True):  # noqa: C901, PLR0912
    """list of (what, impl, reference) that differ"""
    full, mask, ext, internal = geometry(cfg)
    diffs = []

    def cmp(what, fn, expected, want_exc=None):
        try:
            got = fn()
        except Exception as e:  # noqa: BLE001
            if want_exc and isinstance(e, want_exc):
                return
            diffs.append((what, f"raised {type(e).__name__}: {str(e)[:80]}", "IndexError" if want_exc else str(expected)[:120],
                          {"exc": type(e).__name__, "site": findings.exc_site(e)}))
            return
        if want_exc:
            diffs.append((what, f"returned {norm(got)[1][:80]}", want_exc.__name__, {"accepted_bad_key": True}))
            return
        if norm(got) != expected:
            diffs.append((what, f"{norm(got)}"[:200], f"{expected}"[:200], {}))

    ext_missing = ref.ext_missing()
    cmp("mask", lambda: np.asarray(np.ma.getdata(arr.mask), dtype=bool), norm(ext_missing))
    cmp("mask_linear", lambda: np.asarray(list(arr.mask_linear()), dtype=bool), norm(ext_missing.reshape(-1)))
    n_ext = int(np.prod(ext)) if ext else 1
    for i in range(n_ext):
        eidx = np.unravel_index(i, ext) if ext else ()
        present = not bool(ext_missing[eidx])
        cmp(f"has_index({i})", lambda i=i: bool(arr.has_index(i)), norm(present))
        if present:
            fk = ref._full_key(eidx)
            cmp(f"get_from_index({i})", lambda i=i: arr.get_from_index(i), norm(np.asarray(ref.data[fk], dtype=object) if internal else ref.data[fk]))
    # to_array
    marr = np.ma.MaskedArray(ref.data, mask=ref.missing, dtype=object)
    if internal:
        cmp("to_array()", lambda: arr.to_array(), norm(marr))
        cmp("to_array(splat_internal=True)", lambda: arr.to_array(splat_internal=True), norm(marr))
        # not splatted: external-shaped array whose elements are the internal arrays
        exp = np.empty(ext, dtype=object)
        for eidx in itertools.product(*map(range, ext)):
            fk = ref._full_key(eidx)
            exp[eidx] = "~" if ext_missing[eidx] else norm(np.asarray(ref.data[fk], dtype=object))[1]

        def unsplat():
            a = arr.to_array(splat_internal=False)
            m = np.ma.getmaskarray(a)
            out = np.empty(a.shape, dtype=object)
            for idx in itertools.product(*map(range, a.shape)):
                out[idx] = "~" if (m[idx] or a.data[idx] is np.ma.masked) else norm(a.data[idx])[1]
            return out
        cmp("to_array(splat_internal=False)", unsplat, norm(exp))
    else:
        cmp("to_array()", lambda: arr.to_array(), norm(marr))
        cmp("to_array(splat_internal=False)", lambda: arr.to_array(splat_internal=False), norm(marr))
    if not full_reads:
        return diffs
    # __getitem__ over the complete key menu
    for key in itertools.product(*(axis_menu(n) for n in full)):
        cmp(f"getitem{key_json(key)}", lambda key=key: arr[key], norm(ref.get(key)))
    # error alphabet
    base_key = tuple(0 for _ in full)
    for ax, n in enumerate(full):
        for bad in (n, -n - 1):
            k = tuple(bad if i == ax else 0 for i in range(len(full)))
            cmp(f"getitem-out-of-range{list(k)}", lambda k=k: arr[k], None, want_exc=IndexError)
    cmp("getitem-rank+1", lambda: arr[(*base_key, 0)], None, want_exc=IndexError)
    if len(full) > 1:
        cmp("getitem-rank-1", lambda: arr[base_key[:-1]], None, want_exc=IndexError)
    for ax, n in enumerate(ext):
        for bad in (n, -n - 1):
            k = tuple(bad if i == ax else 0 for i in range(len(ext)))
            cmp(f"dump-out-of-range{list(k)}", lambda k=k: arr.dump(k, value_for(cfg, 99)), None, want_exc=IndexError)
    if ext:
        cmp("dump-rank+1", lambda: arr.dump((*(0 for _ in ext), 0), value_for(cfg, 99)), None, want_exc=IndexError)
    return diffs


def reopen_diffs(cfg, arr, ref, folder):
    """persist, then a second object of the same class on the same folder must read the same content"""
    try:
        arr.persist()
        arr2 = make(cfg, folder)  # the same constructor arguments (incl. a custom filename_template)
    except Exception as e:  # noqa: BLE001
        return [("persist+reopen", f"raised {type(e).__name__}: {str(e)[:80]}", "same content", {"exc": type(e).__name__, "site": findings.exc_site(e)})]
    return [(f"reopened.{w}", a, b, x) for w, a, b, x in read_table(cfg, arr2, ref, folder, full_reads=False)]


def check_history(cfg, hist, full_reads=True):
    """returns (violations [(sig, text)], canonical state | None)"""
    arr, ref, base, folder, err = replay_history(cfg, hist)
    full, mask, ext, internal = geometry(cfg)
    pred = {"backend": cfg["backend"], "has_internal": bool(internal),
            "internal_before_external": bool(internal) and any((not m) and any(mask[i + 1:]) for i, m in enumerate(mask)),
            "external_rank0": not ext}
    try:
        if err is not None:
            step, e = err
            slice_key = hist[step - 1] != "P" and any(isinstance(k, list) for k in hist[step - 1])
            return [(findings.exc_sig(e, op="dump", slice_key=slice_key, **pred),
                     f"{cfg}: dump({hist[step - 1]}) (step {step} of {hist}) raised {type(e).__name__}: {str(e)[:100]}")], None
        vs = []
        for what, got, exp in getattr(arr, "_vmc_mid", []):
            vs.append(({"kind": "read-mismatch", "op": what.split(" ")[0], "interleaved": True, **pred}, f"{cfg} history {hist}: {what} = {got}, reference {exp}"))
        before = stored_state(arr)
        state = (before, getattr(arr, "_vmc_dirty", ()))
        for what, got, exp, extra in read_table(cfg, arr, ref, folder, full_reads):
            opk = what.split("(")[0].split("[")[0].split("-")[0]
            vs.append(({"kind": "read-mismatch" if "exc" not in extra else "exception", "op": opk, "unwritten_involved": "~" in str(exp) or "~" in str(got), **extra, **pred},
                       f"{cfg} after dumps {hist}: {what} = {got}, reference {exp}"))
        if stored_state(arr) != before:
            vs.append(({"kind": "read-mutates", **pred}, f"{cfg} after {hist}: reading changed the stored content"))
        if full_reads:
            for what, got, exp, extra in reopen_diffs(cfg, arr, ref, folder):
                opk = what.split("(")[0].split("[")[0].split("-")[0]
                vs.append(({"kind": "reopen-mismatch" if "exc" not in extra else "exception", "op": opk, **extra, **pred},
                           f"{cfg} after dumps {hist}: {what} = {got}, reference {exp}"))
        return vs, state
    finally:
        if os.path.exists(base):
            shutil.rmtree(base, ignore_errors=True)


# ------------------------------------------------------------------------------------------------
def write_alphabet(cfg):
    _, _, ext, _ = geometry(cfg)
    ws = [key_json(k) for k in itertools.product(*(axis_menu(n) for n in ext))]
    if cfg["backend"] != "file_array":
        ws.append("P")  # persist() between the writes (FileArray.persist does nothing)
    return ws


def bfs(cfg, depth, acc, chunk=0, nchunks=1):
    """BFS restricted to histories whose FIRST write is in this chunk of the write alphabet (units run in parallel)"""
    writes = write_alphabet(cfg)
    seen = set()
    frontier = collections.deque([[]])
    vs, st = check_history(cfg, [])
    seen.add(st)
    if chunk == 0:
        acc.states += 1
        for sig, text in vs:
            acc.violation(sig, {"cfg": cfg, "hist": []}, text)
    tables = set()
    while frontier:
        hist = frontier.popleft()
        if len(hist) >= depth:
            continue
        for wi, w in enumerate(writes):
            if not hist and wi % nchunks != chunk:
                continue
            h2 = [*hist, w]
            # cheap pass: apply the write, compare the cheap reads, get the canonical state
            vs, st = check_history(cfg, h2, full_reads=False)
            acc.transitions += 1
            acc.traces += 1
            acc.case(None)
            if st is not None and st not in seen and not vs:
                # new state: full read alphabet
                vs, st = check_history(cfg, h2, full_reads=True)
            for sig, text in vs:
                acc.violation(sig, {"cfg": cfg, "hist": h2}, text)
            if st is None or vs:
                continue
            if st not in seen:
                seen.add(st)
                acc.states += 1
                acc.nontrivial.add(hash((str(cfg), st)))
                acc.max_depth = max(acc.max_depth, len(h2))
                frontier.append(h2)
                tables.add(st)
    acc.outcome((str(cfg), len(tables)))
    acc.sample({"cfg": cfg, "depth": depth, "write_alphabet": len(writes), "example_history": writes[:2]})


SHAPES = {"quick": [((3,), 3), ((2, 3), 2)], "thorough": [((3,), 5), ((2, 3), 3), ((3, 2), 2), ((2, 3, 2), 1)]}


def plan(tier, seed):
    units = []
    for full, depth in SHAPES[tier]:
        for mask in itertools.product((True, False), repeat=len(full)):
            for backend in CLASSES:
                cfg = {"backend": backend, "full": list(full), "mask": list(mask)}
                if backend == "shared_memory_dict" and len(full) > 1:
                    depth_b = 1 if tier == "quick" else max(1, depth - 1)  # every proxy operation is an RPC: lower depth
                else:
                    depth_b = depth
                nch = 1 if len(full) == 1 else (8 if all(mask) else 4)
                for c in range(nch):
                    units.append((f"rank{len(full)}-depth{depth}", ("bfs", cfg, depth_b, c, nch)))
                if backend == "file_array" and len(full) <= 2:
                    # FileArray with a custom filename_template (every operation must use the instance's template)
                    for c in range(nch):
                        units.append((f"rank{len(full)}-depth{depth}-custom-filename-template",
                                      ("bfs", {**cfg, "filename_template": "element-{:d}.pkl"}, depth_b, c, nch)))
                if all(mask) and len(full) <= 2:
                    # the same exploration with None as the value of every odd write (a written None is not a missing element)
                    for c in range(nch):
                        units.append((f"rank{len(full)}-depth{depth}-none-values", ("bfs", {**cfg, "values": "none-odd"}, depth_b, c, nch)))
                    for c in range(nch):
                        units.append((f"rank{len(full)}-depth{depth}-tuple-values", ("bfs", {**cfg, "values": "tuple-odd"}, depth_b, c, nch)))
                if not all(mask) and len(full) <= 2:
                    # internal axes, every odd write hands the element over as a nested list (same reads as for ndarrays)
                    for c in range(nch):
                        units.append((f"rank{len(full)}-depth{depth}-list-values", ("bfs", {**cfg, "values": "list-odd"}, depth_b, c, nch)))
    by = {}
    for st, u in units:
        by.setdefault(st, []).append((st, u))
    out = []
    for st, us in by.items():
        r = seed % len(us)
        out.extend(us[r:] + us[:r])
    return out


_UNIT_BASE = None
_COUNTER = 0


def run_unit(unit):
    global _UNIT_BASE
    acc = Acc()
    _, cfg, depth, c, nch = unit
    _UNIT_BASE = boot.mkscratch("c07u-")
    try:
        bfs(cfg, depth, acc, c, nch)
    finally:
        shutil.rmtree(_UNIT_BASE, ignore_errors=True)
        _UNIT_BASE = None
    acc.stratum(f"{cfg['backend']}-full{tuple(cfg['full'])}-mask{''.join('E' if m else 'I' for m in cfg['mask'])}")
    return acc


def replay(art):
    vs, _ = check_history(art["cfg"], art["hist"], full_reads=True)
    return [s for s, _ in vs]
