"""C17 — sweeps enumerate exactly the documented combinations (DESIGN.md §5 C17).

Bounded-exhaustive enumeration of Sweep specifications (items x dims x constants x derivers x exclude), of
operand tuples for ``product`` / ``+`` / ``MultiSweep``, of ``filtered_sweep`` key subsets and of ``count_sweep``
calls, against a list-semantics reference written in plain Python below (``ref_list``).

A *sweep spec* is JSON-able and order-preserving (lists of pairs, never dicts, because artefacts are written with
``sort_keys=True``)::

    {"items": [["a", [0, 1]], ["b", [0, 0]]],      # item order matters (row-major order)
     "dims":  None | ["a", ["b", "c"], ["d"]],     # str = bare name, list = tuple group (1-tuples are lists of one)
     "const": [["k", 5]], "deriv": [["d", "sum"]], "excl": "odd"}   # derivers / predicates by NAME (tables below)
"""
from __future__ import annotations

import functools
import itertools

from pipefunc import PipeFunc, Pipeline
from pipefunc.sweep import MultiSweep, Sweep, count_sweep, generate_sweep

from .. import findings
from ..acc import Acc

ID = "C17"
LEVEL = "exploration"
TECHNIQUE = "bounded-exhaustive enumeration of sweep specifications and operand tuples against a list-semantics reference"
RULE = (
    "single sweeps: every item dict with <=3 keys (a,b,c in that order) whose value lists come from the canonical set "
    "{[], [0], [0,1], [0,0], [0,1,2], [1,0], [0,1,0]} (a subset of the 40 lists of length 0..3 over {0,1,2} that keeps every "
    "length, duplicates, a non-sorted list and a non-adjacent duplicate; with 3 keys [0,1,0] is left to thorough); dims = None or every ordered set partition of "
    "every non-empty key subset (full and partial dims), every order of the groups and of the names inside a group, "
    "singletons written all-bare or all-1-tuple; constants {none, new key, key clashing with an item}; one deriver {none, new "
    "key = sum of the combination, overwriting an item key}; exclude {none, first key == 0, sum odd, everything}; checked "
    "through list(), iteration, add_derivers, len() and (undecorated / fully decorated) generate_sweep. filtered_sweep: the same sweeps without constants/"
    "exclude x deriver {none, new, overwrite} x every non-empty subset of the combination keys. product / + / MultiSweep / "
    "combine: all pairs of zip-valid undecorated operands with <=2 keys each over disjoint names, all pairs over a reduced "
    "pool (lists [0,1]/[1,0]; dims None, zipped, reversed, partial) with the 27 local constants x deriver x exclude "
    "decorations per operand, triples of 1-key operands with the 27 decorations each, undecorated triples with zipped / "
    "partial / item-less operands. count_sweep: six 2- and 3-function pipelines x every sweep (full dims) over their root "
    "arguments, as Sweep and as list, use_pandas False and (smaller alphabet) True. thorough adds: all 40 value lists for <=2 "
    "keys (single, filtered_sweep); 3 keys over all 7 canonical lists; 4 keys over {[0],[0,1],[1,0],[0,1,2]} with each decoration alone and all together; "
    "filtered_sweep with 4 keys over {[0,1],[0,0],[1,0]}, deriver {none, new}; triples with zipped / partial 2-key operands, "
    "27 decorations on the middle and 8 on the outer operands. Zipped groups of unequal length are invalid input: executed "
    "once, outcome recorded, never flagged, never used as operands. A case is distinct by its JSON form and counted "
    "non-trivial when it is zip-valid and: single - the groups span >= 2 combinations, or exactly 1 and a decoration is "
    "present; product / + - every operand lists >= 1 combination and the expected result has >= 2; filtered_sweep - the "
    "sweep lists >= 1 combination and the projection drops a key or merges duplicates; count_sweep - the swept list is "
    "non-empty."
)
ASSUMPTIONS = [
    "row-major order is demanded only when dims is omitted or lists its groups in item order; otherwise multiset equality",
    "constants never override an item of the same name (tests/test_sweep.py::test_constants); derivers run after constants, "
    "exclude sees the final combination",
    "a sweep without items lists no combination (Sweep.generate docstring, tests/test_sweep.py::test_empty_filtered_sweep)",
    "in product cases constants/derivers/exclude of an operand only read that operand's own keys, so 'Cartesian product of "
    "the operand lists' is well defined",
    "Pipeline.root_args is trusted for the ORDER of a root-argument tuple only (its set is checked)",
]
BUDGET = {"quick": 120.0, "thorough": 900.0}  # caps, not expectations: ~10 s / ~80 s on 16 idle cores

# ------------------------------------------------------------------------------------------------
# named derivers / predicates (cases reference them by name)
NAMES = "abcdefkx"
DERIVERS = {
    "sum": lambda c: sum(c.values()),
    "sum10": lambda c: sum(c.values()) + 10,
}
EXCLUDES = {
    "all": lambda c: True,  # noqa: ARG005
    "odd": lambda c: sum(c.values()) % 2 == 1,
}
for _k in NAMES:
    DERIVERS[f"inc_{_k}"] = (lambda k: lambda c: c[k] + 10)(_k)
    for _v in (0, 1, 2):
        EXCLUDES[f"eq_{_k}_{_v}"] = (lambda k, v: lambda c: c.get(k) == v)(_k, _v)

VL_CANON = [[], [0], [0, 1], [0, 0], [0, 1, 2], [1, 0], [0, 1, 0]]
VL_FULL = [list(t) for n in range(4) for t in itertools.product((0, 1, 2), repeat=n)]
VL_4 = [[0], [0, 1], [1, 0], [0, 1, 2]]
VL_3 = [[0, 1], [0, 0], [1, 0]]
ALPHA = {"canon": VL_CANON, "canon6": VL_CANON[:6], "full": VL_FULL, "four": VL_4, "three": VL_3}
INVALID = "invalid-zip"


# ------------------------------------------------------------------------------------------------
# reference model
def _groups(spec):
    dims = spec.get("dims")
    if dims is None:
        return [[k] for k, _ in spec["items"]]
    return [list(g) if isinstance(g, (list, tuple)) else [g] for g in dims]


def zip_valid(spec) -> bool:
    look = dict((k, v) for k, v in spec["items"])
    return all(len({len(look[k]) for k in g}) == 1 for g in _groups(spec))


def ref_list(spec):
    """List semantics: row-major product of the zipped groups, constants (setdefault), derivers, exclude."""
    if not spec["items"]:
        return []
    look = dict((k, v) for k, v in spec["items"])
    rows = []
    for g in _groups(spec):
        lens = {len(look[k]) for k in g}
        if len(lens) != 1:
            return INVALID
        rows.append([[(k, look[k][i]) for k in g] for i in range(lens.pop())])
    const = spec.get("const") or []
    deriv = spec.get("deriv") or []
    excl = EXCLUDES[spec["excl"]] if spec.get("excl") else None
    out = []
    idx = [0] * len(rows)
    if any(len(r) == 0 for r in rows):
        return []
    while True:
        c = {}
        for gi, r in enumerate(rows):
            for k, v in r[idx[gi]]:
                c[k] = v
        for k, v in const:
            if k not in c:
                c[k] = v
        for k, f in deriv:
            c[k] = DERIVERS[f](c)
        if excl is None or not excl(c):
            out.append(c)
        # odometer, last group fastest
        p = len(rows) - 1
        while p >= 0:
            idx[p] += 1
            if idx[p] < len(rows[p]):
                break
            idx[p] = 0
            p -= 1
        if p < 0:
            return out


def build(spec):
    items = {k: list(v) for k, v in spec["items"]}
    dims = spec.get("dims")
    if dims is not None:
        dims = [tuple(g) if isinstance(g, (list, tuple)) else g for g in dims]
    excl = EXCLUDES[spec["excl"]] if spec.get("excl") else None
    const = {k: v for k, v in spec["const"]} if spec.get("const") else None
    der = {k: DERIVERS[f] for k, f in spec["deriv"]} if spec.get("deriv") else None
    return Sweep(items, dims=dims, exclude=excl, constants=const, derivers=der)


def show(spec) -> str:
    parts = [repr({k: v for k, v in spec["items"]})]
    if spec.get("dims") is not None:
        parts.append("dims=" + repr([tuple(g) if isinstance(g, (list, tuple)) else g for g in spec["dims"]]))
    if spec.get("const"):
        parts.append("constants=" + repr({k: v for k, v in spec["const"]}))
    if spec.get("deriv"):
        parts.append("derivers={" + ", ".join(f"{k!r}: <{f}>" for k, f in spec["deriv"]) + "}")
    if spec.get("excl"):
        parts.append(f"exclude=<{spec['excl']}>")
    return "Sweep(" + ", ".join(parts) + ")"


def canon(c):
    return tuple(sorted(c.items()))


def compare(got, exp, ordered):
    g = [canon(c) for c in got]
    e = [canon(c) for c in exp]
    if g == e:
        return None
    if sorted(g) == sorted(e):
        return "order-only" if ordered else None
    return "multiset"


def flat_dims(spec):
    return [k for g in _groups(spec) for k in g]


def in_item_order(spec) -> bool:
    if spec.get("dims") is None:
        return True
    keys = [k for k, _ in spec["items"]]
    pos = [keys.index(k) for k in flat_dims(spec)]
    return all(x < y for x, y in zip(pos, pos[1:]))


def dims_class(spec) -> str:
    if spec.get("dims") is None:
        return "none"
    flat = flat_dims(spec)
    if set(flat) != {k for k, _ in spec["items"]}:
        return "partial"
    return "full-item-order" if in_item_order(spec) else "full-other-order"


def is_zipped(spec) -> bool:
    return any(len(g) > 1 for g in _groups(spec))


def dims_strength(spec) -> str:
    """none < trivial (all keys, every group a singleton) < zipped < partial"""
    if spec.get("dims") is None:
        return "none"
    if dims_class(spec) == "partial":
        return "partial"
    return "zipped" if is_zipped(spec) else "trivial"


def extras_tag(spec) -> str:
    t = ("c" if spec.get("const") else "") + ("d" if spec.get("deriv") else "") + ("x" if spec.get("excl") else "")
    return t or "none"


# ------------------------------------------------------------------------------------------------
# evaluators: return (violations [(sig, text)], nontrivial?, outcome str, strata [str])
def _exc(e, **kw):
    return findings.exc_sig(e, **kw)


def eval_single(spec):
    viol, strata = [], []
    exp = ref_list(spec)
    empty_items = not spec["items"]
    if exp is INVALID:
        try:
            build(spec).list()
        except ValueError:
            return [], False, "single:invalid-zip-raises-ValueError", ["invalid-zip"]
        except Exception as e:  # noqa: BLE001
            return [], False, f"single:invalid-zip-raises-{type(e).__name__}", ["invalid-zip"]
        return [], False, "single:invalid-zip-accepted", ["invalid-zip"]
    ordered = in_item_order(spec)
    dc = dims_class(spec)
    zipped = is_zipped(spec)
    strata.append("single:dims=" + dc + ("+zipped" if zipped else ""))
    for k in ("const", "deriv", "excl"):
        if spec.get(k):
            strata.append(f"single:{k}")
    if any(len(set(v)) < len(v) for _, v in spec["items"]):
        strata.append("single:duplicate-values")
    base_sig = {"op": "single", "dims": dc, "extras": extras_tag(spec), "empty_items": empty_items}
    try:
        s = build(spec)
    except Exception as e:  # noqa: BLE001
        return [(_exc(e, step="construct", **base_sig), f"{show(spec)} raised {e!r}")], True, "single:exception", strata
    vias = [("list", lambda: s.list()), ("iter", lambda: [c for c in s])]  # noqa: C416
    if extras_tag(spec) in ("none", "cdx"):  # the positional wrapper: undecorated, and with all three decorations at once
        vias.append(("generate_sweep", lambda: generate_sweep({k: list(v) for k, v in spec["items"]}, s.dims, s.exclude, s.constants, s.derivers)))
    if spec.get("deriv"):
        nod = dict(spec)
        nod.pop("deriv")
        vias.append(("add_derivers", lambda: build(nod).add_derivers(**s.derivers).list()))
    got_list = None
    mismatch_seen = False
    for via, fn in vias:
        try:
            got = fn()
        except Exception as e:  # noqa: BLE001
            viol.append((_exc(e, step=via, **base_sig), f"{show(spec)}: {via} raised {e!r}"))
            continue
        if via == "list":
            got_list = got
        diff = compare(got, exp, ordered)
        if diff and not mismatch_seen:
            mismatch_seen = True
            viol.append(({"kind": "value-mismatch", "via": via, "diff": diff, **base_sig},
                         f"{show(spec)} via {via} gives {got} but list semantics give {exp}"))
    if got_list is not None:
        try:
            n = len(s)
        except Exception as e:  # noqa: BLE001
            viol.append((_exc(e, step="len", **base_sig), f"len({show(spec)}) raised {e!r}"))
        else:
            if n != len(got_list):
                viol.append(({"kind": "len-mismatch", "op": "single", "empty_items": empty_items},
                             f"len({show(spec)}) == {n} but list() has {len(got_list)} combinations: {got_list}"))
    look = dict((k, v) for k, v in spec["items"])
    raw = 0 if empty_items else 1
    for g in _groups(spec):
        raw *= len(look[g[0]])
    return viol, raw >= 2 or (raw == 1 and extras_tag(spec) != "none"), f"single:n={len(exp)}", strata


def _cartesian(lists):
    out = [{}]
    for L in lists:
        out = [{**a, **b} for a in out for b in L]
    return out


def eval_product(specs):
    exps = [ref_list(s) for s in specs]
    if any(e is INVALID for e in exps):
        return [], False, "product:skipped-invalid-zip", ["product:skipped-invalid-zip"]
    exp = _cartesian(exps)
    ordered = all(in_item_order(s) for s in specs)
    others = [dims_strength(s) for s in specs[1:]]
    strength = max(others, key=["none", "trivial", "zipped", "partial"].index)
    middle = any(extras_tag(s) != "none" for s in specs[1:-1])
    empty_op = any(not s["items"] for s in specs)
    left_dims = specs[0].get("dims") is not None
    # others_dims is only reported when the left operand has no dims (otherwise "any"): keeps the signature count small
    sig = {"op": "product", "n_operands": len(specs), "left_has_dims": left_dims, "others_dims": "any" if left_dims else strength,
           "zip_valid": True, "middle_has_extras": middle, "operand_empty_items": empty_op}
    strata = [f"product:{len(specs)}-operands", f"product:left_dims={left_dims},others={strength}"]
    if middle:
        strata.append("product:middle-operand-decorated")
    if any(extras_tag(s) != "none" for s in specs):
        strata.append("product:with-extras")
    txt = ".product(".join([show(specs[0]), ", ".join(show(s) for s in specs[1:])]) + ")"
    viol = []
    try:
        sw = [build(s) for s in specs]
        before = [[canon(c) for c in s.list()] for s in sw]
        p = sw[0].product(*sw[1:])
        got = p.list()
        after = [[canon(c) for c in s.list()] for s in sw]
    except Exception as e:  # noqa: BLE001
        return [(_exc(e, step="product", **sig), f"{txt} raised {e!r}")], True, "product:exception", strata
    for k, (b, a) in enumerate(zip(before, after)):
        if a != b:  # an operand must still enumerate its own combinations after it was used in a product
            viol.append(({"kind": "operand-changed", "op": "product", "operand": "left" if k == 0 else "other"},
                         f"after {txt}, operand {k} lists {len(a)} combinations {a[:4]} instead of its own {len(b)}: {b[:4]}"))
    diff = compare(got, exp, ordered)
    if diff:
        # which recorded defect (if any) reproduces exactly what was returned: keeps a recorded finding from absorbing
        # another wrong product of the same operand class
        explained = None
        try:
            def _ident(s_):
                # an item-less operand acting as the identity: one combination made of its constants (and derived values)
                one = ref_list({**s_, "items": [["zz_dummy", [0]]], "dims": None})
                return [{k: v for k, v in c.items() if k != "zz_dummy"} for c in one]

            def _model(drop_dims, identity):
                lists = []
                for k_, (e, s_) in enumerate(zip(exps, specs)):
                    if identity and not s_["items"]:
                        lists.append(_ident(s_))
                    elif drop_dims and k_ > 0:
                        lists.append(ref_list({**s_, "dims": None}))
                    else:
                        lists.append(e)
                return _cartesian(lists)

            for name, dd, idn in (("dims-of-other-operands-dropped", True, False), ("item-less-operand-is-identity", False, True),
                                  ("dims-of-other-operands-dropped+item-less-operand-is-identity", True, True)):
                if (dd and left_dims) or (idn and not empty_op):
                    continue
                if not compare(got, _model(dd, idn), False):
                    explained = name
                    break
        except Exception:  # noqa: BLE001
            explained = None
        sig = {**sig, "explained": explained}
        viol.append(({"kind": "value-mismatch", "diff": diff, **sig},
                     f"{txt}.list() has {len(got)} combinations {got[:8]}{'...' if len(got) > 8 else ''}; the Cartesian product of the "
                     f"operand lists has {len(exp)}: {exp[:8]}{'...' if len(exp) > 8 else ''}"))
    try:
        n = len(p)
        it = [c for c in p]  # noqa: C416
    except Exception as e:  # noqa: BLE001
        viol.append((_exc(e, step="len/iter", **sig), f"len/iter of {txt} raised {e!r}"))
    else:
        if n != len(got):
            viol.append(({"kind": "len-mismatch", "op": "product", "empty_items": empty_op},
                         f"len({txt}) == {n} but list() has {len(got)} combinations"))
        if it != got:
            viol.append(({"kind": "iter-mismatch", "op": "product"}, f"iteration and list() of {txt} differ"))
    nontrivial = len(exp) >= 2 and all(exps)
    return viol, nontrivial, f"product:n={len(exp)}", strata


def eval_add(specs):
    exps = [ref_list(s) for s in specs]
    if any(e is INVALID for e in exps):
        return [], False, "add:skipped-invalid-zip", ["add:skipped-invalid-zip"]
    exp = [c for e in exps for c in e]
    empty_op = any(not s["items"] for s in specs)
    strata = [f"add:{len(specs)}-operands"]
    txt = " + ".join(show(s) for s in specs)
    viol = []

    def plus(sw):
        m = sw[0] + sw[1]
        for o in sw[2:]:
            m = m + o
        return m

    def comb(sw):
        m = sw[0].combine(sw[1])
        for o in sw[2:]:
            m = m.combine(o)
        return m

    inner = {}

    def plus_right(sw):
        # right-nested: a + (b + c) - the right operand of the outer + is itself a MultiSweep (and must stay what it was)
        m = sw[-2] + sw[-1]
        inner["m"], inner["own"] = m, [canon(c) for c in m.list()]
        for o in reversed(sw[:-2]):
            m = o + m
        return m

    spellings = [("+", plus), ("MultiSweep", lambda sw: MultiSweep(*sw)), ("combine", comb)]
    if len(specs) >= 3:
        spellings.append(("+right-nested", plus_right))
    for how, mk in spellings:
        try:
            inner.clear()
            sw = [build(s) for s in specs]
            own = [c for s in sw for c in s.list()]
            m = mk(sw)
            got = m.list()
            if inner and [canon(c) for c in inner["m"].list()] != inner["own"]:
                viol.append(({"kind": "operand-changed", "op": "add", "how": how, "operand": "inner-multisweep"},
                             f"{how}: the inner (b + c) of {txt} lists different combinations after it was used as an operand"))
            if [canon(c) for s in sw for c in s.list()] != [canon(c) for c in own]:
                viol.append(({"kind": "operand-changed", "op": "add", "how": how}, f"{how}: an operand of {txt} lists different combinations afterwards"))
            it = [c for c in m]  # noqa: C416
            n = len(m)
        except Exception as e:  # noqa: BLE001
            viol.append((_exc(e, op="add", how=how, operand_empty_items=empty_op), f"{how}: {txt} raised {e!r}"))
            continue
        if not isinstance(m, MultiSweep):
            viol.append(({"kind": "type", "op": "add", "how": how}, f"{how}: {txt} is a {type(m).__name__}"))
        if [canon(c) for c in got] != [canon(c) for c in own]:
            viol.append(({"kind": "value-mismatch", "op": "add", "how": how, "against": "operand-lists", "operand_empty_items": empty_op},
                         f"{how}: ({txt}).list() = {got} is not the concatenation of the operands' own lists {own}"))
        elif how == "+" and compare(got, exp, False):  # (an operand's own list is wrong: reported once, not per spelling)
            viol.append(({"kind": "value-mismatch", "op": "add", "how": how, "against": "reference", "operand_empty_items": empty_op},
                         f"{how}: ({txt}).list() = {got}; concatenation of list semantics = {exp}"))
        if it != got:
            viol.append(({"kind": "iter-mismatch", "op": "add", "how": how}, f"{how}: iteration and list() of {txt} differ"))
        # filtered_sweep of the sum = the members' own filtered sweeps one after the other (whatever the nesting of the sum)
        # (keys = item keys that occur in the combinations of EVERY member: with partial dims an item key may be absent)
        per = [[set(c) for c in s_.list()] for s_ in sw]
        common = None
        if all(per):
            common = set.intersection(*(set.intersection(*p_) for p_ in per))
        keys0 = [k for k, _ in specs[0]["items"] if common and k in common]
        if keys0:
            for ks in ([keys0[0]], keys0):
                try:
                    fg = [canon(c) for c in m.filtered_sweep(tuple(ks)).list()]
                    fw = [canon(c) for s_ in sw for c in s_.filtered_sweep(tuple(ks)).list()]
                except Exception as e:  # noqa: BLE001
                    viol.append((_exc(e, op="add", how=how, step="filtered_sweep"), f"{how}: ({txt}).filtered_sweep({ks}) raised {e!r}"))
                    break
                if fg != fw:
                    viol.append(({"kind": "value-mismatch", "op": "add", "how": how, "against": "members-filtered"},
                                 f"{how}: ({txt}).filtered_sweep({ks}).list() = {fg[:8]} is not the members' filtered sweeps one after the other {fw[:8]}"))
                    break
        if n != len(got):
            viol.append(({"kind": "len-mismatch", "op": "add", "how": how, "empty_items": empty_op},
                         f"{how}: len({txt}) == {n} but list() has {len(got)} combinations"))
    # len() after a member of a nested sum has grown: len and list() are asked BEFORE and AFTER `inner + extra` (whether or not the
    # growth of the inner sum is visible through the outer one, the two must keep agreeing - a remembered length may not go stale)
    if len(specs) >= 3:
        try:
            sw = [build(s) for s in specs]
            inner_m = sw[1] + sw[2]
            outer = sw[0] + inner_m
            before = (len(outer), len(outer.list()))
            grown = inner_m + build(specs[0])
            after = (len(outer), len(outer.list()), len(grown), len(grown.list()))
            if before[0] != before[1] or after[0] != after[1] or after[2] != after[3]:
                viol.append(({"kind": "len-mismatch", "op": "add", "how": "nested-then-inner-grows", "empty_items": empty_op},
                             f"a + (b + c) for {txt}: len/list() = {before} before and {after[:2]} after (b + c) + a (the grown inner sum: {after[2:]})"))
        except Exception as e:  # noqa: BLE001
            viol.append((_exc(e, op="add", how="nested-then-inner-grows", operand_empty_items=empty_op), f"nested-then-inner-grows: {txt} raised {e!r}"))
    return viol, len(exp) >= 2 and all(exps), f"add:n={len(exp)}", strata


def eval_filtered(spec, keys):
    full = ref_list(spec)
    if full is INVALID:
        return [], False, "filtered:skipped-invalid-zip", ["filtered:skipped-invalid-zip"]
    seen = {}
    for c in full:
        seen.setdefault(tuple(c[k] for k in keys), None)
    exp = [dict(zip(keys, t)) for t in seen]
    look = dict((k, v) for k, v in spec["items"])
    dup_vals = any(k in look and len(set(look[k])) < len(look[k]) for k in keys)
    sig = {"op": "filtered_sweep", "has_derivers": bool(spec.get("deriv")), "projected_values_have_duplicates": dup_vals,
           "source_list_empty": not full}
    strata = [f"filtered:derivers={sig['has_derivers']},dims={dims_class(spec)}"]
    txt = f"{show(spec)}.filtered_sweep({tuple(keys)!r})"
    viol = []
    try:
        f = build(spec).filtered_sweep(tuple(keys))
        got = f.list()
    except Exception as e:  # noqa: BLE001
        return [(_exc(e, step="filtered_sweep", **sig), f"{txt} raised {e!r}")], True, "filtered:exception", strata
    g = sorted(canon(c) for c in got)
    e_ = sorted(canon(c) for c in exp)
    if g != e_:
        sg, se = set(g), set(e_)
        diff = ("duplicates-kept" if sg == se else "extra" if sg > se else "missing" if sg < se else "other")
        viol.append(({"kind": "value-mismatch", "diff": diff, **sig},
                     f"{txt}.list() = {got}; the distinct projections of the sweep's {len(full)} combinations are {exp}"))
    try:
        n = len(f)
    except Exception as e:  # noqa: BLE001
        viol.append((_exc(e, op="filtered_sweep", step="len", has_derivers=sig["has_derivers"], result_empty_items=not f.items),
                     f"len({txt}) raised {e!r}"))
    else:
        if n != len(got):
            viol.append(({"kind": "len-mismatch", "op": "filtered_sweep", "empty_items": not f.items, "has_derivers": sig["has_derivers"]},
                         f"len({txt}) == {n} but list() has {len(got)} combinations"))
    nontrivial = bool(full) and (len(exp) < len(full) or len(keys) < len(full[0]))
    return viol, nontrivial, f"filtered:n={len(exp)}/{len(full)}", strata


# -- count_sweep ----------------------------------------------------------------------------------
PIPE_SPECS = {
    # name: (functions [(output, params)], output asked for)
    "c(a)>d(c)": ([("c", ["a"]), ("d", ["c"])], "d"),
    "c(a,b)>d(c,b)": ([("c", ["a", "b"]), ("d", ["c", "b"])], "d"),
    "c(b,a)>d(c)": ([("c", ["b", "a"]), ("d", ["c"])], "d"),
    "c(a,b)>d(c,x)": ([("c", ["a", "b"]), ("d", ["c", "x"])], "d"),
    "c(a,b)>d(b,c,x)>e(c,d,x)": ([("c", ["a", "b"]), ("d", ["b", "c", "x"]), ("e", ["c", "d", "x"])], "e"),
    "c(a,b)|d(x)": ([("c", ["a", "b"]), ("d", ["x"])], "d"),
}


@functools.lru_cache(maxsize=None)
def pipeline_for(name):
    funcs = []
    for out, params in PIPE_SPECS[name][0]:
        ns: dict = {}
        exec(f"def f_{out}({', '.join(params)}):\n    return ({', '.join(params)},)", ns)  # noqa: S102
        funcs.append(PipeFunc(ns[f"f_{out}"], output_name=out))
    return Pipeline(funcs)


def pipe_roots(name):
    fs = dict(PIPE_SPECS[name][0])
    roots = sorted({p for ps in fs.values() for p in ps if p not in fs})
    return roots


def _upstream(name, target):
    """functions strictly upstream of target, and per function its set of root arguments (own graph walk)"""
    fs = dict(PIPE_SPECS[name][0])

    def roots_of(f, seen=()):
        r = set()
        for p in fs[f]:
            r |= roots_of(p) if p in fs else {p}
        return r

    deps, todo = set(), [p for p in fs[target] if p in fs]
    while todo:
        f = todo.pop()
        if f not in deps:
            deps.add(f)
            todo.extend(p for p in fs[f] if p in fs)
    return {f: roots_of(f) for f in deps}


def eval_count(case):
    name, spec, as_list, use_pandas = case["pipeline"], case["s"], case["as_list"], case["use_pandas"]
    target = PIPE_SPECS[name][1]
    combos = ref_list(spec)
    if combos is INVALID:
        return [], False, "count:skipped-invalid-zip", ["count:skipped-invalid-zip"]
    p = pipeline_for(name)
    ups = _upstream(name, target)
    sig = {"op": "count_sweep", "use_pandas": use_pandas, "sweep_empty": not combos,
           "single_root_arg": any(len(r) == 1 for r in ups.values())}
    strata = [f"count:pipeline={name}", f"count:pandas={use_pandas},list={as_list}"]
    txt = f"count_sweep({target!r}, {'<its list>' if as_list else ''}{show(spec)}, <{name}>, use_pandas={use_pandas})"
    try:
        got = count_sweep(target, [dict(c) for c in combos] if as_list else build(spec), p, use_pandas=use_pandas)
    except Exception as e:  # noqa: BLE001
        return [(_exc(e, **sig), f"{txt} raised {e!r}")], bool(combos), "count:exception", strata
    exp = {}
    for f, roots in ups.items():
        order = p.root_args(f)
        if set(order) != roots or len(order) != len(roots):
            return [({"kind": "root-args", **sig}, f"root_args({f!r}) = {order} but the roots above it are {sorted(roots)}")], True, "count:root-args", strata
        cnt = {}
        for c in combos:
            k = tuple(c[a] for a in order)
            cnt[k] = cnt.get(k, 0) + 1
        exp[f] = cnt
    viol = []
    ok = isinstance(got, dict) and set(got) == set(exp) and all(dict(got[f]) == exp[f] and all(isinstance(k, tuple) for k in got[f]) for f in exp)
    if not ok:
        def _norm(d):
            return {(k if isinstance(k, tuple) else (k,)): v for k, v in dict(d).items()}
        try:
            scalar_keys_only = isinstance(got, dict) and set(got) == set(exp) and all(_norm(got[f]) == exp[f] for f in exp)
        except Exception:  # noqa: BLE001
            scalar_keys_only = False
        sig = {**sig, "explained": "scalar-keys-instead-of-1-tuples" if scalar_keys_only else None}
        viol.append(({"kind": "value-mismatch", **sig}, f"{txt} = {got}; multiplicities per root-argument tuple are {exp}"))
    return viol, bool(combos), f"count:deps={len(exp)},n={len(combos)}", strata


# ------------------------------------------------------------------------------------------------
_LONG = {"a": "alpha", "b": "beta", "c": "gamma", "d": "delta"}


def _long_names(spec):
    def ren(g):
        return [_LONG[x] for x in g] if isinstance(g, list) else _LONG[g]
    return {**spec, "items": [[_LONG[k], v] for k, v in spec["items"]], "dims": None if spec.get("dims") is None else [ren(g) for g in spec["dims"]]}


def evaluate(case):
    op = case["op"]
    if op == "single":
        return eval_single(case["s"])
    if op == "filtered":
        return eval_filtered(case["s"], list(case["keys"]))
    if op == "product":
        return eval_product(case["ops"])
    if op == "add":
        return eval_add(case["ops"])
    if op == "count":
        return eval_count(case)
    raise ValueError(op)


def run_case(case):
    return evaluate(case)[0]


def replay(art):
    return [sig for sig, _ in run_case(art)]


# ------------------------------------------------------------------------------------------------
# enumeration
def _set_partitions(keys):
    if not keys:
        yield []
        return
    first, rest = keys[0], keys[1:]
    for p in _set_partitions(rest):
        for i in range(len(p)):
            yield p[:i] + [[first, *p[i]]] + p[i + 1:]
        yield [[first], *p]


@functools.lru_cache(maxsize=None)
def dims_options(keys: tuple, partial: bool = True):
    """None, then every ordered partition (groups in every order, names in every order, singletons bare or 1-tuple)
    of the full key set, then (partial) of every non-empty proper subset."""
    out = [None]
    subsets = [keys]
    if partial:
        subsets += [s for r in range(len(keys) - 1, 0, -1) for s in itertools.combinations(keys, r)]
    for sub in subsets:
        if not sub:
            continue
        for part in _set_partitions(list(sub)):
            for order in itertools.permutations(part):
                for blocks in itertools.product(*[list(itertools.permutations(b)) for b in order]):
                    out.append([b[0] if len(b) == 1 else list(b) for b in blocks])
                    if any(len(b) == 1 for b in blocks):
                        out.append([list(b) for b in blocks])
    return out


def item_dicts(nkeys, vlists, names="abcd"):
    for combo in itertools.product(vlists, repeat=nkeys):
        yield [[names[i], list(combo[i])] for i in range(nkeys)]


def first_key(base):
    if not base["items"]:
        return None
    return flat_dims(base)[0]


def single_extras(t, mode):
    consts = [None, [["k", 5]]] + ([[[t, 9]]] if t else [])
    derivs = [None, [["d", "sum"]]] + ([[[t, "sum10"]]] if t else [])
    excls = [None, f"eq_{t or 'a'}_0", "odd", "all"]
    if mode == "all":
        return list(itertools.product(consts, derivs, excls))
    # "one-at-a-time": nothing, each feature alone, and everything together
    out = [(None, None, None)]
    out += [(c, None, None) for c in consts[1:]] + [(None, d, None) for d in derivs[1:]] + [(None, None, x) for x in excls[1:]]
    out.append((consts[1], derivs[1], "odd"))
    return out


def local_extras(t, names_suffix, reduced=False):
    """decorations that read only the operand's own first combination key t (27, or 8 when reduced)"""
    if t is None:
        return [(None, None, None), ([["k" + names_suffix, 5]], None, None)]
    consts = [None, [["k" + t, 5]], [[t, 9]]]
    derivs = [None, [[t, f"inc_{t}"]], [["d" + t, f"inc_{t}"]]]
    excls = [None, f"eq_{t}_0", "all"]
    if reduced:
        consts, derivs, excls = consts[:2], derivs[:2], excls[:2]
    return list(itertools.product(consts, derivs, excls))


def decorate(base, const, deriv, excl):
    s = dict(base)
    if const:
        s["const"] = const
    if deriv:
        s["deriv"] = deriv
    if excl:
        s["excl"] = excl
    return s


@functools.lru_cache(maxsize=None)
def pool_plain(names: tuple, alpha: str = "canon"):
    """every zip-valid undecorated sweep with 0..len(names) keys"""
    out = [{"items": [], "dims": None}]
    for nk in range(1, len(names) + 1):
        for items in item_dicts(nk, ALPHA[alpha], names):
            for dims in dims_options(tuple(names[:nk])):
                b = {"items": items, "dims": dims}
                if zip_valid(b):
                    out.append(b)
    return out


@functools.lru_cache(maxsize=None)
def pool_small(names: tuple, level: int = 2):
    """reduced bases: level 0: one key [0,1], dims None / [k]; level 1: + two keys zipped / None / partial;
    level 2: + reversed bare dims and a second value list"""
    k1 = names[0]
    out = [{"items": [[k1, [0, 1]]], "dims": None}, {"items": [[k1, [0, 1]]], "dims": [k1]}]
    if level >= 1 and len(names) > 1:
        k2 = names[1]
        lists = [([0, 1], [1, 0])] + ([([0, 1], [0, 1])] if level >= 2 else [])
        for la, lb in lists:
            items = [[k1, la], [k2, lb]]
            dd = [None, [[k1, k2]], [k1]] + ([[k2, k1]] if level >= 2 else [])
            out += [{"items": items, "dims": d} for d in dd]
    return out


@functools.lru_cache(maxsize=None)
def pool_decorated(names: tuple, level: int = 2, with_empty: bool = True, reduced: bool = False):
    out = []
    for b in pool_small(names, level):
        out += [decorate(b, *x) for x in local_extras(first_key(b), names[0], reduced)]
    if with_empty:
        b = {"items": [], "dims": None}
        out += [decorate(b, *x) for x in local_extras(None, names[0])]
    return out


def _rot(us, seed):
    r = seed % len(us) if us else 0
    return us[r:] + us[:r]


def plan(tier, seed):
    stages = []  # (stage, [units])
    stages.append(("single<=2keys", [("single", nk, "canon", "all", 0, 1) for nk in (0, 1, 2)]))
    stages.append(("single-3keys", [("single", 3, "canon6", "all", c, 36) for c in range(36)]))
    stages.append(("filtered<=3keys", [("filtered", nk, "canon", 0, 1) for nk in (1, 2)] + [("filtered", 3, "canon6", c, 36) for c in range(36)]))
    stages.append(("product-pairs-plain", [("prod2", "plain", c, 48) for c in range(48)]))
    stages.append(("product-pairs-decorated", [("prod2", "decorated", c, 16) for c in range(16)]))
    stages.append(("product-triples-1key", [("prod3", 0, c, 16) for c in range(16)] + [("prod3-plain", 1, 0, 1)]))
    stages.append(("add", [("add2", c, 8) for c in range(8)] + [("add3", 0, 1)]))
    stages.append(("count_sweep", [("count", name, False) for name in PIPE_SPECS] + [("count", name, True) for name in PIPE_SPECS]))
    if tier == "thorough":
        stages.append(("single-3keys-7-lists", [("single", 3, "canon", "all", c, 49) for c in range(49)]))
        stages.append(("filtered-3keys-7-lists", [("filtered", 3, "canon", c, 49) for c in range(49)]))
        stages.append(("single<=2keys-all-40-lists", [("single", 1, "full", "all", 0, 1)] + [("single", 2, "full", "all", c, 40) for c in range(40)]))
        stages.append(("filtered-2keys-all-40-lists", [("filtered", 2, "full", c, 40) for c in range(40)]))
        stages.append(("product-triples-2keys", [("prod3", 1, c, 40) for c in range(40)] + [("prod3-plain", 2, 0, 1)]))
        stages.append(("single-4keys", [("single", 4, "four", "one", c, 128) for c in range(128)]))
        stages.append(("filtered-4keys", [("filtered", 4, "three", c, 81) for c in range(81)]))
    out = []
    for st, us in stages:
        out.extend((st, u) for u in _rot(us, seed))
    return out


def run_unit(unit):  # noqa: C901, PLR0912, PLR0915
    acc = Acc()

    def do(case):
        viol, nontrivial, outcome, strata = evaluate(case)
        acc.case(hash(repr(case)) if nontrivial else None)
        acc.outcome(outcome)
        for s in strata:
            acc.stratum(s)
        for sig, text in viol:
            acc.violation(sig, case, text)

    kind = unit[0]
    if kind == "single":
        _, nk, alpha, mode, c, n = unit
        for items in list(item_dicts(nk, ALPHA[alpha]))[c::n]:
            for dims in dims_options(tuple("abcd"[:nk])):
                base = {"items": items, "dims": dims}
                if not zip_valid(base):
                    do({"op": "single", "s": base})
                    continue
                for x in single_extras(first_key(base), mode):
                    do({"op": "single", "s": decorate(base, *x)})
        acc.sample({"op": "single", "s": decorate(base, *single_extras(first_key(base), mode)[-1])})
    elif kind == "filtered":
        _, nk, alpha, c, n = unit
        for items in list(item_dicts(nk, ALPHA[alpha]))[c::n]:
            for dims in dims_options(tuple("abcd"[:nk])):
                base = {"items": items, "dims": dims}
                if not zip_valid(base):
                    continue
                t = first_key(base)
                for deriv in (None, [["d", "sum"]], [[t, "sum10"]])[:2 if nk == 4 else 3]:
                    spec = decorate(base, None, deriv, None)
                    ck = flat_dims(base) + (["d"] if deriv and deriv[0][0] == "d" else [])
                    for r in range(1, len(ck) + 1):
                        for ks in itertools.combinations(ck, r):
                            do({"op": "filtered", "s": spec, "keys": list(ks)})
                            if deriv is None:  # the same with names of more than one character (a bare-string dims group is a NAME, not a sequence)
                                do({"op": "filtered", "s": _long_names(spec), "keys": [_LONG[k] for k in ks]})
        acc.sample({"op": "filtered", "s": base, "keys": [base["items"][0][0]]})
    elif kind == "prod2":
        _, which, c, n = unit
        if which == "plain":
            left, right = pool_plain(("a", "b")), pool_plain(("c", "d"))
        else:
            left, right = pool_decorated(("a", "b")), pool_decorated(("c", "d"))
        for L in left[c::n]:
            for R in right:
                do({"op": "product", "ops": [L, R]})
        acc.sample({"op": "product", "ops": [left[-1 - c], right[-1]]})
    elif kind == "prod3":
        _, level, c, n = unit
        # level 0 (quick): 1-key operands, 27 decorations each; level 1 (thorough): 1- and 2-key operands (zipped / partial /
        # plain), 27 decorations on the middle operand and 8 on the outer ones
        p1, p2, p3 = (pool_decorated(nm, level, with_empty=False, reduced=(level > 0 and i != 1))
                      for i, nm in enumerate((("a", "b"), ("c", "d"), ("e", "f"))))
        for s1 in p1[c::n]:
            for s2 in p2:
                for s3 in p3:
                    do({"op": "product", "ops": [s1, s2, s3]})
        acc.sample({"op": "product", "ops": [p1[-1 - c], p2[-1], p3[-1]]})
    elif kind == "prod3-plain":
        _, level, c, n = unit
        p1, p2, p3 = (pool_small(nm, level) + [{"items": [], "dims": None}] for nm in (("a", "b"), ("c", "d"), ("e", "f")))
        for s1 in p1:
            for s2 in p2:
                for s3 in p3:
                    do({"op": "product", "ops": [s1, s2, s3]})
    elif kind == "add2":
        _, c, n = unit
        left = pool_decorated(("a", "b"), 1)
        right = pool_decorated(("c", "d"), 1) + pool_small(("a", "b")) + pool_small(("b", "a"))
        for L in left[c::n]:
            for R in right:
                do({"op": "add", "ops": [L, R]})
        acc.sample({"op": "add", "ops": [left[-1 - c], right[0]]})
    elif kind == "add3":
        p1 = pool_small(("a", "b"), 1) + [{"items": [], "dims": None}]
        p2 = pool_small(("c", "d"), 1) + pool_small(("a", "b"), 0)
        p3 = pool_decorated(("e", "f"), 0) + pool_small(("a", "b"), 0)[:2]
        for s1 in p1:
            for s2 in p2:
                for s3 in p3:
                    do({"op": "add", "ops": [s1, s2, s3]})
    elif kind == "count":
        _, name, use_pandas = unit
        roots = pipe_roots(name)
        vl = VL_CANON if not use_pandas else [[], [0, 1], [0, 0], [0, 1, 0]]
        for items in item_dicts(len(roots), vl, roots):
            for dims in dims_options(tuple(roots), False):
                if use_pandas and dims is not None and not any(isinstance(g, list) and len(g) > 1 for g in dims):
                    continue
                base = {"items": items, "dims": dims}
                if not zip_valid(base):
                    continue
                for as_list in (False, True):
                    do({"op": "count", "pipeline": name, "s": base, "as_list": as_list, "use_pandas": use_pandas})
                # the same sweep with one more swept key that is no argument of the pipeline: every multiplicity doubles
                wide = {"items": [*items, ["zz", [0, 1]]], "dims": None if dims is None else [*dims, "zz"]}
                do({"op": "count", "pipeline": name, "s": wide, "as_list": False, "use_pandas": use_pandas})
        acc.sample({"op": "count", "pipeline": name, "s": base, "as_list": False, "use_pandas": use_pandas})
    else:
        raise ValueError(unit)
    return acc
