"""C03 — map results and call counts are independent of executor, storage and schedule (DESIGN.md §5 C03).

Stateless exploration (ChoiceDFS, deviation-bounded) of the task schedules of ONE Pipeline.map / map_async call: the
real run_map code is driven through a controllable concurrent.futures.Executor and a virtual asyncio loop."""
from __future__ import annotations

import concurrent.futures as cf
import contextlib
import io
import os
import shutil
import warnings

import numpy as np
from pipefunc.map import DictArray, FileArray, load_outputs
from pipefunc.map._storage_array._base import StorageBase

from .. import boot, explore, findings, gen_map, sched, terms
from ..acc import Acc

ID = "C03"
LEVEL = "model_checking"
TECHNIQUE = "stateless schedule exploration (choice-sequence DFS, iterative deviation bounding, prefix replay) of the real run_map/run_map_async through a controllable Executor and a virtual event loop"
RULE = ("pipelines {two mapped functions + reduction, 2-D map -> partial reduction -> full reduction, tuple-output map -> zip consumer, generator -> outer "
        "product, internal-axis-first -> reduction; plus (single executor, B=1, sequential/thread real pools only) a map whose every element is None -> element-wise consumer; custom picker / 1-tuple / list-valued reducers; a pipeline under a scope s with two functions without MapSpec side by side} x storage {file_array, dict, shared_memory_dict, per-output mixes} (+ for two pipelines: into a folder that already holds a complete run of other function bodies) x executor assignment {one, per-output "
        "dict, default-only dict, partial dict} x {map, map_async}; for each configuration every schedule with <= B deviations (deviation = not letting the "
        "caller continue after a submit / not running the oldest pending task when one must run). Task-splitting: the tasks of a generation as logical threads preempted (<= B times) at user-function entry / argument selection / storage dump; storage-lines: the same with a preemption point at EVERY source line of pipefunc/map/_storage_array/ executed by a task, and map-lines: at every source line of the whole pipefunc/map/ package (quick: file_array for three pipelines, dict for two; thorough: all pipelines x all three storages), where every departure from the default successor thread counts as a deviation (file_array, dict; thorough also shared_memory_dict, and B=2 for dict storage and two file_array pipelines). Plus the same configurations on real Thread/Process pools "
        "(one free-running schedule each, not claimed as schedule coverage; incl. a pre-started process pool whose workers live in another working directory, with a relative run folder)")
ASSUMPTIONS = ["a submitted task is atomic in the deferred executor; in task-splitting mode tasks are logical threads with scheduling points at user-function entry and storage dump only; in storage-lines / map-lines mode additionally at every source line executed inside pipefunc/map/_storage_array/ resp. pipefunc/map/ (a line is atomic)", "reference = MapSpec denotation of vmc/gen_map.py",
               "real pools contribute one OS-chosen schedule per configuration"]
BUDGET = {"quick": 150.0, "thorough": 2400.0}

S2 = {"i": 2, "j": 2, "u": 2, "k": 2, "w": 2, "m": 2}


def _f(name, params, ms, out_axes, internal, outs, via="pipefunc"):
    return {"name": name, "params": params, "ms": ms, "out_axes": out_axes, "internal": internal, "outs": outs, "ishape_via": via}


PIPES = {
    "two-maps-reduce": {"roots": {"x": ["i"]}, "sizes": S2, "funcs": [
        _f("f", ["x"], {"x": ["i"]}, ["i"], [], ["y"]), _f("g", ["x"], {"x": ["i"]}, ["i"], [], ["z"]), _f("h", ["y", "z"], None, [], [], ["w"])]},
    "map2d-partial-full": {"roots": {"x": ["i"], "q": ["j"]}, "sizes": S2, "funcs": [
        _f("f", ["x", "q"], {"x": ["i"], "q": ["j"]}, ["i", "j"], [], ["a"]), _f("g", ["a"], {"a": ["i", None]}, ["i"], [], ["b"]),
        _f("h", ["b"], None, [], [], ["c"])]},
    "tuple-zip": {"roots": {"x": ["i"]}, "sizes": S2, "funcs": [
        _f("f", ["x"], {"x": ["i"]}, ["i"], [], ["a", "b"]), _f("g", ["a", "b"], {"a": ["i"], "b": ["i"]}, ["i"], [], ["c"])]},
    "generator-outer": {"roots": {"n": [], "x": ["i"]}, "sizes": S2, "funcs": [
        _f("f", ["n"], {}, ["u"], ["u"], ["v"]), _f("g", ["v", "x"], {"v": ["u"], "x": ["i"]}, ["u", "i"], [], ["w"])]},
    "internal-first-reduce": {"roots": {"x": ["i"]}, "sizes": S2, "funcs": [
        _f("f", ["x"], {"x": ["i"]}, ["u", "i"], ["u"], ["a"]), _f("g", ["a"], {"a": [None, "i"]}, ["i"], [], ["c"])]},
}
# every element of `a` is None (a written None is a value, not a missing element); explored by THIS check only, with a
# smaller bound: single executor, deviation bound 1, sequential + thread real pools
EXTRA_PIPES = {
    "none-elements": {"roots": {"x": ["i"]}, "sizes": S2, "funcs": [
        {**_f("f", ["x"], {"x": ["i"]}, ["i"], [], ["a"]), "none": True},
        _f("g", ["a", "x"], {"a": ["i"], "x": ["i"]}, ["i"], [], ["c"])]},  # g also takes x[i]: its invocations stay distinguishable
}
# a function WITHOUT MapSpec whose two outputs are picked by a custom output_picker from a dict, and one whose output name is a 1-tuple
EXTRA_PIPES["picker-reducer"] = {"roots": {"x": ["i"]}, "sizes": S2, "funcs": [
    _f("f", ["x"], {"x": ["i"]}, ["i"], [], ["y"]), {**_f("g", ["y"], None, [], [], ["a", "b"]), "picker": True}]}
EXTRA_PIPES["one-tuple-reducer"] = {"roots": {"x": ["i"]}, "sizes": S2, "funcs": [
    _f("f", ["x"], {"x": ["i"]}, ["i"], [], ["y"]), {**_f("g", ["y"], None, [], [], ["s"]), "one_tuple": True}]}
# a function without MapSpec whose single output is a Python list, consumed whole by a mapped function's sibling
EXTRA_PIPES["list-valued-output"] = {"roots": {"x": ["i"]}, "sizes": S2, "funcs": [
    {**_f("f", ["x"], None, [], [], ["a"]), "list_out": 3}, _f("g", ["x", "a"], {"x": ["i"]}, ["i"], [], ["c"])]}
# every name carries the scope "s" (update_scope on the built pipeline): a mapped function, then two functions WITHOUT MapSpec whose
# outputs s.a / s.b live side by side in the run folder, then a consumer of both
EXTRA_PIPES["scoped-unmapped-siblings"] = {"scope": "s", "roots": {"x": ["i"]}, "sizes": S2, "funcs": [
    _f("f", ["x"], {"x": ["i"]}, ["i"], [], ["y"]), _f("g", ["y"], None, [], [], ["a"]), _f("h", ["y"], None, [], [], ["b"]),
    _f("k", ["a", "b"], None, [], [], ["c"])]}
EXTRA = set(EXTRA_PIPES)
ALL_PIPES = {**PIPES, **EXTRA_PIPES}

# ------------------------------------------------------------------------------------------------
# dump counting (each storage element must be dumped exactly once: worker xor parent)
# ------------------------------------------------------------------------------------------------
_DUMPS: list = []
_orig = {}


def _install_dump_counter():
    if _orig:
        return
    for cls in (FileArray, DictArray):
        _orig[cls] = cls.dump

        def dump(self, key, value, _o=_orig[cls]):
            from .. import threads
            threads.point(("storage.dump",))  # a scheduling point when tasks run as logical threads (no-op otherwise)
            _DUMPS.append((id(self), tuple(key) if isinstance(key, tuple) else key))
            return _o(self, key, value)
        cls.dump = dump


class _OneManager:
    """multiprocessing stand-in for pipefunc.map._storage_array._dict: ONE real manager per worker process (a manager
    start costs 20-40 ms; SharedMemoryDictArray would start one per output per execution). Proxies are still real."""
    _m = None

    def Manager(self):  # noqa: N802
        import multiprocessing
        # a forked child keeps using the manager of its parent (new proxies connect by address)
        if _OneManager._m is None:
            _OneManager._m = multiprocessing.Manager()
        return _OneManager._m

    def __getattr__(self, k):
        import multiprocessing
        return getattr(multiprocessing, k)


def _install_one_manager():
    import pipefunc.map._storage_array._dict as d
    if not isinstance(d.multiprocessing, _OneManager):
        d.multiprocessing = _OneManager()
    d.multiprocessing.Manager()  # start it now: before any fork of crash children


def _install_select_point():
    """scheduling point between argument selection and the user-function call of a map element (task-splitting mode)"""
    import pipefunc.map._run as r
    if getattr(r._select_kwargs_and_eval_resources, "_vmc", False):
        return
    orig = r._select_kwargs_and_eval_resources

    def wrapped(*a, **k):
        from .. import threads
        out = orig(*a, **k)
        threads.point(("selected-kwargs",))
        return out
    wrapped._vmc = True
    r._select_kwargs_and_eval_resources = wrapped


def _nm(spec, name):
    return f"{spec['scope']}.{name}" if spec.get("scope") else name


def _scoped(spec, p, inputs):
    """apply the spec's scope (if any) to the built pipeline and the inputs"""
    if spec.get("scope"):
        p.update_scope(spec["scope"], inputs="*", outputs="*")
        return {_nm(spec, k): v for k, v in inputs.items()}
    return inputs


def storage_arg(st):
    if isinstance(st, str):
        return st
    return {(tuple(k.split(",")) if "," in k else k): v for k, v in st.items()}


def out_names(spec):
    return [(f["outs"][0] if len(f["outs"]) == 1 else tuple(f["outs"])) for f in spec["funcs"]]


def make_executors(spec, mode, s):
    names = out_names(spec)
    if mode == "one":
        return sched.DeferredExecutor(s, "E"), {n: "E" for n in names}
    if mode == "default-dict":
        return {"": sched.DeferredExecutor(s, "E")}, {n: "E" for n in names}
    if mode == "per-output":
        d, exp = {}, {}
        for k, n in enumerate(names):
            d[n] = sched.DeferredExecutor(s, f"E{k}")
            exp[n] = f"E{k}"
        return d, exp
    if mode == "partial":
        d = {names[0]: sched.DeferredExecutor(s, "E0"), "": sched.DeferredExecutor(s, "D")}
        return d, {n: ("E0" if n == names[0] else "D") for n in names}
    raise ValueError(mode)


def _task_func_name(fut):
    fn = fut.fn
    f = getattr(fn, "keywords", {}).get("func") if hasattr(fn, "keywords") else None
    if f is None and fut.args:
        f = fut.args[0]
    return getattr(f, "output_name", None)


def execute(cfg, chooser):  # noqa: C901, PLR0912
    """one complete execution of the real map under the schedule chosen by `chooser`"""
    _install_dump_counter()
    _install_one_manager()
    spec = ALL_PIPES[cfg["pipe"]]
    inputs = gen_map.make_inputs(spec, "list")
    s = sched.Sched(chooser, eager_loop=bool(cfg.get("eager_loop", False)))
    baton = None
    if cfg["exec"] in ("baton", "baton-lines", "baton-maplines"):
        # task-splitting mode: the tasks of a generation are logical threads that interleave at user-function entry and at
        # storage dumps, so tasks overlap and start order differs from completion order
        from .. import threads
        _install_select_point()
        # "baton-lines": additionally EVERY source line a task executes inside pipefunc/map/_storage_array/ is a scheduling
        # point, so state that the storage objects share between tasks without any lock is interleaved too
        baton = threads.BatonExecutor(chooser, trace_files={"baton-lines": ("pipefunc/map/_storage_array/",), "baton-maplines": ("pipefunc/map/",)}.get(cfg["exec"], ()))
        ex, expected_ex = baton, {}
    else:
        ex, expected_ex = make_executors(spec, cfg["exec"], s)
    used_ex = {}
    orig_run = s.run_task

    def run_task(i):
        fut = s.pending[i]
        used_ex.setdefault(_task_func_name(fut), set()).add(fut.label[0])
        return orig_run(i)
    s.run_task = run_task
    folder = boot.mkscratch("c03-") if cfg.get("folder", True) else None
    if cfg.get("prior_run") and folder:
        # the run folder already holds a COMPLETE run of a pipeline with the same names, shapes and inputs but other function
        # bodies: the run under test (cleanup left at its default) starts from scratch, whatever the entry point
        import copy as _copy
        spec0 = _copy.deepcopy(spec)
        for fn in spec0["funcs"]:
            fn["name"] = "old" + fn["name"]
        with contextlib.redirect_stdout(io.StringIO()), warnings.catch_warnings():
            warnings.simplefilter("ignore")
            p0 = gen_map.build(spec0)
            p0.map(_scoped(spec0, p0, dict(inputs)), run_folder=folder, internal_shapes=gen_map.internal_shapes_arg(spec0), parallel=False,
                   storage=storage_arg(cfg["storage"]))
    terms.LOG.clear()
    del _DUMPS[:]
    obs = {"status": "ok"}
    try:
        hook = None
        if baton is not None:
            from .. import threads as _thr

            def hook(name, kw_):
                _thr.point(("enter", name))
        p = gen_map.build(spec, hook=hook)
        inputs = _scoped(spec, p, inputs)
        kw = dict(run_folder=folder, internal_shapes=gen_map.internal_shapes_arg(spec), executor=ex, storage=storage_arg(cfg["storage"]))
        try:
            with contextlib.redirect_stdout(io.StringIO()), warnings.catch_warnings():
                warnings.simplefilter("ignore")
                if cfg["entry"] == "sync":
                    r = p.map(dict(inputs), parallel=True, **kw)
                else:
                    async def main():
                        am = p.map_async(dict(inputs), **kw)
                        return await am.task
                    r = sched.run_async(main, s)
        except sched.Hang as e:
            obs["status"] = "hang"
            obs["detail"] = str(e)
            return obs
        except Exception as e:  # noqa: BLE001
            obs["status"] = "exception"
            obs["exc"] = findings.exc_sig(e)
            obs["detail"] = f"{type(e).__name__}: {str(e)[:150]}"
            return obs
        obs["outputs"] = {o: (terms.T(r[_nm(spec, o)].output), tuple(np.shape(r[_nm(spec, o)].output))) for f in spec["funcs"] for o in f["outs"]}
        obs["log"] = sorted(terms.LOG)
        obs["order"] = tuple(n for n, _ in terms.LOG)
        obs["leftover"] = len(s.pending)
        if baton is not None and any(st != "ok" for st in baton.status):
            obs["status"] = "hang"
            obs["detail"] = f"logical-thread scheduler: {baton.status}"
            return obs
        obs["used_ex"] = {str(k): sorted(v) for k, v in used_ex.items()}
        obs["expected_ex"] = {str(k): v for k, v in expected_ex.items()}
        # dumps: every element of every StorageBase exactly once
        stores = {o: r[_nm(spec, o)].store for f in spec["funcs"] for o in f["outs"] if isinstance(r[_nm(spec, o)].store, StorageBase)}
        cnt = {}
        for sid, key in _DUMPS:
            cnt[(sid, key)] = cnt.get((sid, key), 0) + 1
        obs["dump_multi"] = sorted(str(k[1]) for k, v in cnt.items() if v != 1)
        obs["dump_counts"] = {o: sum(v for (sid, _), v in cnt.items() if sid == id(st)) for o, st in stores.items()}
        obs["expected_dumps"] = {o: int(np.prod(st.shape)) if st.shape else 1 for o, st in stores.items()}
        obs["masks"] = {o: bool(np.any(st.mask)) for o, st in stores.items()}
        if folder:
            stored = {}
            for f in spec["funcs"]:
                for o in f["outs"]:
                    try:
                        with contextlib.redirect_stdout(io.StringIO()):
                            stored[o] = terms.T(load_outputs(_nm(spec, o), run_folder=folder))
                    except Exception as e:  # noqa: BLE001
                        stored[o] = f"EXC {type(e).__name__}"
            obs["stored"] = stored
        return obs
    finally:
        if folder:
            shutil.rmtree(folder, ignore_errors=True)


def judge(cfg, obs):
    """compare one execution with the sequential reference; returns [(sig, text)]"""
    spec = ALL_PIPES[cfg["pipe"]]
    inputs = gen_map.make_inputs(spec, "list")
    exp, calls = gen_map.ref_map(spec, inputs)
    base = {"pipe": cfg["pipe"], "entry": cfg["entry"]}
    if obs["status"] == "hang":
        return [({"kind": "hang", **base}, f"{cfg}: {obs['detail']}")]
    if obs["status"] == "exception":
        return [({**obs["exc"], **base}, f"{cfg}: {obs['detail']}")]
    out = []
    for f in spec["funcs"]:
        for o in f["outs"]:
            want = (terms.T(exp[o]), tuple(np.shape(exp[o])))
            if obs["outputs"][o] != want:
                out.append(({"kind": "value-mismatch", **base}, f"{cfg}: {o} = {obs['outputs'][o]}, sequential reference {want}"))
            if "stored" in obs and obs["stored"][o] != want[0]:
                out.append(({"kind": "stored-mismatch", **base}, f"{cfg}: load_outputs({o}) = {obs['stored'][o]}, reference {want[0]}"))
    want_log = sorted((fn["name"], a) for fn in spec["funcs"] for a in calls[fn["name"]])
    if [tuple(x) for x in obs["log"]] != want_log:
        out.append(({"kind": "call-log", **base}, f"{cfg}: calls {obs['log']}, reference {want_log}"))
    if obs.get("leftover"):
        out.append(({"kind": "unresolved-tasks", **base}, f"{cfg}: {obs['leftover']} submitted tasks never ran"))
    if obs["dump_multi"] or obs["dump_counts"] != obs["expected_dumps"]:
        out.append(({"kind": "dump-count", **base}, f"{cfg}: dumps per output {obs['dump_counts']} (expected {obs['expected_dumps']}), keys dumped != once: {obs['dump_multi']}"))
    if any(obs["masks"].values()):
        out.append(({"kind": "partially-filled", **base}, f"{cfg}: storage masks {obs['masks']}"))
    for name, used in obs["used_ex"].items():
        want = obs["expected_ex"].get(name)
        if want is not None and used != [want]:
            out.append(({"kind": "wrong-executor", **base}, f"{cfg}: function {name} ran on {used}, expected {want}"))
    return out


def explore_config(cfg, bound, acc, max_exec=None, shard=None):
    outcomes, orders = set(), set()
    n = 0
    for ch, obs in explore.choice_dfs(lambda c: execute(cfg, c), bound, max_exec, shard):
        n += 1
        acc.transitions += len(ch.trace)
        acc.traces += 1
        acc.states += len(ch.trace) - len(ch.prefix)  # new scheduler states (choice prefixes) visited by this execution
        for sig, text in judge(cfg, obs):
            acc.violation(sig, {"cfg": cfg, "choices": ch.choices}, text + f" under schedule {ch.choices}")
        if obs["status"] == "ok":
            outcomes.add(str(sorted(obs["outputs"].items())) + str(obs.get("stored")))
            orders.add(obs["order"])
    acc.case(hash(str(cfg)), n=n)
    acc.outcome(("result", str(cfg), len(outcomes)))
    for o in orders:
        acc.outcome(("order", cfg["pipe"], cfg["entry"], o))
    acc.stratum("configurations")
    acc.stratum("executions", n)
    acc.stratum("configs-with->1-call-order" if len(orders) > 1 else "configs-with-1-call-order")
    if len(outcomes) > 1:
        acc.stratum("configs-with->1-result")
    return n, len(orders)


# ------------------------------------------------------------------------------------------------
# real pools (free running; one schedule each)
# ------------------------------------------------------------------------------------------------
def run_real(cfg):
    spec = ALL_PIPES[cfg["pipe"]]
    inputs = gen_map.make_inputs(spec, "list")
    _install_one_manager()
    folder = boot.mkscratch("c03r-")
    logf = os.path.join(folder, "calls.log")
    run = os.path.join(folder, "run")
    terms.LOG.clear()
    terms.LOG_FILE = logf
    obs = {"status": "ok"}
    pool = None
    old_cwd = os.getcwd()
    try:
        delay = cfg.get("delay")
        counter = {}

        def hook(name, kw):
            # injected delays make other completion orders likely (still one free-running schedule per configuration)
            import time as _t
            counter[name] = counter.get(name, 0) + 1
            if (delay == "first-slow" and counter[name] == 1) or (delay == "later-slow" and counter[name] > 1):
                _t.sleep(0.03)
        p = gen_map.build(spec, hook=hook if delay else None)
        inputs = _scoped(spec, p, inputs)
        kind = cfg["pool"]
        if kind == "thread":
            pool = cf.ThreadPoolExecutor(3)
        elif kind == "process":
            import multiprocessing
            pool = cf.ProcessPoolExecutor(2, mp_context=multiprocessing.get_context("fork"))
        elif kind == "process-prestarted-chdir":
            # a long-lived pool whose workers were started in ANOTHER working directory than the one the map is made from, and a
            # RELATIVE run folder: every process has to mean the same folder by it
            import multiprocessing
            import time as _t
            os.makedirs(os.path.join(folder, "a"))
            os.makedirs(os.path.join(folder, "b"))
            os.chdir(os.path.join(folder, "a"))
            pool = cf.ProcessPoolExecutor(2, mp_context=multiprocessing.get_context("fork"))
            list(pool.map(_t.sleep, [0.05, 0.05, 0.05]))  # both workers exist now
            os.chdir(os.path.join(folder, "b"))
            run = "run"
        kw = dict(run_folder=run, internal_shapes=gen_map.internal_shapes_arg(spec), storage=storage_arg(cfg["storage"]))
        try:
            with contextlib.redirect_stdout(io.StringIO()), warnings.catch_warnings():
                warnings.simplefilter("ignore")
                if kind == "sequential":
                    r = p.map(dict(inputs), parallel=False, **kw)
                elif kind == "default-pool":
                    r = p.map(dict(inputs), parallel=True, **kw)
                else:
                    r = p.map(dict(inputs), parallel=True, executor=pool, **kw)
        except Exception as e:  # noqa: BLE001
            obs["status"] = "exception"
            obs["exc"] = findings.exc_sig(e)
            obs["detail"] = f"{type(e).__name__}: {str(e)[:150]}"
            return obs
        obs["outputs"] = {o: (terms.T(r[_nm(spec, o)].output), tuple(np.shape(r[_nm(spec, o)].output))) for f in spec["funcs"] for o in f["outs"]}
        obs["log"] = sorted((n, a) for n, a, _pid in terms.read_log_file(logf))
        obs["order"] = ()
        obs["leftover"] = 0
        obs["used_ex"], obs["expected_ex"] = {}, {}
        obs["dump_multi"], obs["dump_counts"], obs["expected_dumps"], obs["masks"] = [], {}, {}, {}
        stored = {}
        for f in spec["funcs"]:
            for o in f["outs"]:
                try:
                    with contextlib.redirect_stdout(io.StringIO()):
                        stored[o] = terms.T(load_outputs(_nm(spec, o), run_folder=run))
                except Exception as e:  # noqa: BLE001
                    stored[o] = f"EXC {type(e).__name__}"
        obs["stored"] = stored
        return obs
    finally:
        terms.LOG_FILE = None
        if pool is not None:
            pool.shutdown(wait=True)
        os.chdir(old_cwd)
        shutil.rmtree(folder, ignore_errors=True)


# ------------------------------------------------------------------------------------------------
def storages(spec, tier):
    names = [",".join(f["outs"]) for f in spec["funcs"]]
    st = ["file_array", "dict", "shared_memory_dict"]
    if spec.get("scope"):
        return st
    st.append({names[0]: "file_array", "": "dict"})
    st.append({names[0]: "dict", "": "file_array"})
    if tier == "thorough":
        st.append({names[0]: "shared_memory_dict", "": "file_array"})
        st.append({names[-1]: "shared_memory_dict", "": "dict"})
    return st


def configs(tier):
    out = []
    for pipe, spec in ALL_PIPES.items():
        for st in storages(spec, tier):
            for ex in ("one", "per-output", "default-dict", "partial"):
                if pipe in EXTRA and ex != "one":
                    continue
                for entry in ("sync", "async"):
                    out.append({"pipe": pipe, "storage": st, "exec": ex, "entry": entry})
                    if ex == "one" and st == "file_array" and pipe in ("two-maps-reduce", "tuple-zip"):
                        out.append({"pipe": pipe, "storage": st, "exec": ex, "entry": entry, "prior_run": True})
    return out


def real_configs(tier):
    out = []
    pools = ["thread", "sequential"] if tier == "quick" else ["thread", "sequential", "process", "default-pool"]
    for pipe, spec in ALL_PIPES.items():
        for st in storages(spec, tier):
            for pool in pools:
                if pipe in EXTRA and pool not in ("sequential", "thread"):
                    continue
                if pool in ("process", "default-pool") and st == "dict" or (isinstance(st, dict) and "dict" in st.values() and pool in ("process", "default-pool")):
                    continue  # plain dict storage cannot cross a process boundary (pipefunc rejects it)
                out.append({"pipe": pipe, "storage": st, "pool": pool})
                if pool == "thread" and st in ("file_array", "shared_memory_dict") and pipe in ("two-maps-reduce", "tuple-zip"):
                    out.append({"pipe": pipe, "storage": st, "pool": "process-prestarted-chdir"})
                if pool in ("thread", "process") and isinstance(st, str) and pipe not in EXTRA:
                    for delay in ("first-slow", "later-slow"):
                        out.append({"pipe": pipe, "storage": st, "pool": pool, "delay": delay})
    return out


def _core(cfg):
    """uniform storage + a single executor: the configurations that get the deepest schedule bound"""
    return isinstance(cfg["storage"], str) and cfg["exec"] == "one"


# (stage bound, which configurations): bounds are iterated upwards, simplest first; a stage explores ALL schedules with
# at most that many deviations of each of its configurations
STAGES = {"quick": [(1, "all"), (2, "core"), (1, "task-splitting"), (1, "storage-lines"), (1, "map-lines")],
          "thorough": [(1, "all"), (2, "all"), (1, "eager-loop"), (2, "task-splitting"), (1, "storage-lines"), (1, "map-lines"), (2, "storage-lines-small"), (3, "core"), (2, "eager-loop-core"), (4, "core-sync-dict")]}


def plan(tier, seed):
    units = []
    cfgs = configs(tier)
    for b, which in STAGES[tier]:
        if which.startswith("storage-lines") or which == "map-lines":
            # tasks as logical threads that can be preempted at EVERY source line of the storage-array code ("storage-lines") or
            # of the whole pipefunc/map/ package ("map-lines"): unsynchronised state shared by the tasks of one process - read
            # caches, masks, counters, scratch buffers - has no lock or proxy call at which another scheduler could stop a task
            mode = "baton-maplines" if which == "map-lines" else "baton-lines"
            for pipe in PIPES:
                if which == "map-lines":
                    sts = ("dict", "file_array") if tier == "quick" else ("dict", "file_array", "shared_memory_dict")
                else:
                    sts = ("file_array", "dict") if tier == "quick" else (("file_array", "shared_memory_dict") if b == 1 else ("dict", "file_array"))
                for st in sts:
                    if which.endswith("small") and not (st == "dict" or pipe in ("generator-outer", "tuple-zip")):
                        continue
                    if tier == "quick":
                        # quick bound: map-lines (a superset of the storage-lines points) on file_array for three pipelines and on
                        # dict for two; storage-lines on file_array for the other two pipelines
                        in_map_lines = (st == "file_array" and pipe in ("two-maps-reduce", "tuple-zip", "internal-first-reduce")) or \
                                       (st == "dict" and pipe in ("two-maps-reduce", "generator-outer"))
                        if (which == "map-lines") != in_map_lines:
                            continue
                    ns = (8 if which == "map-lines" else (4 if st != "dict" else 1)) * (1 if b == 1 else 16)
                    for k in range(ns):
                        units.append((f"{which.replace('-small', '')}-preemptions<={b}", ("dfs", {"pipe": pipe, "storage": st, "exec": mode, "entry": "sync"}, b, (k, ns))))
            continue
        if which == "task-splitting":
            for pipe, spec in PIPES.items():
                if pipe in EXTRA:
                    continue
                for st in ("file_array", "dict", "shared_memory_dict"):
                    # the search tree of one configuration is dealt to several units below its root (explore.choice_dfs shard=)
                    ns = (12 if st == "shared_memory_dict" else 4) * (2 if pipe == "map2d-partial-full" else 1)
                    for k in range(ns):
                        units.append((f"task-splitting-preemptions<={b}", ("dfs", {"pipe": pipe, "storage": st, "exec": "baton", "entry": "sync"}, b, (k, ns))))
            continue
        for cfg in cfgs:
            if which.startswith("eager-loop"):
                # async only: additionally let a task complete between any two ready event-loop handles
                if cfg["entry"] != "async" or (which.endswith("core") and not _core(cfg)):
                    continue
                cfg = {**cfg, "eager_loop": True}
            if which == "core" and not _core(cfg):
                continue
            if cfg["pipe"] in EXTRA and not (which == "all" and b == 1):
                continue
            if which == "core-sync-dict" and not (_core(cfg) and cfg["storage"] == "dict"):
                continue
            units.append((f"schedules-deviations<={b}-{which}-configs", ("dfs", cfg, b)))
    for cfg in real_configs(tier):
        units.append(("real-pools-free-running", ("real", cfg)))
    by = {}
    for st, u in units:
        by.setdefault(st, []).append((st, u))
    out = []
    for st, us in by.items():
        r = seed % len(us)
        out.extend(us[r:] + us[:r])
    return out


def run_unit(unit):
    acc = Acc()
    if unit[0] == "dfs":
        _, cfg, bound = unit[:3]
        n, norders = explore_config(cfg, bound, acc, shard=unit[3] if len(unit) > 3 else None)
        if cfg["exec"] == "one" and cfg["storage"] == "dict":
            acc.sample({"cfg": cfg, "deviation_bound": bound, "executions": n, "distinct_call_orders": norders})
    else:
        _, cfg = unit
        obs = run_real(cfg)
        acc.case(hash(str(cfg)))
        acc.traces += 1
        acc.transitions += 1
        acc.states += 1
        acc.stratum("real-pool-runs")
        for sig, text in judge({**cfg, "entry": "real-" + cfg["pool"]}, obs):
            acc.violation(sig, {"cfg": cfg, "real": True}, text)
    return acc


def replay(art):
    cfg = art["cfg"]
    if art.get("real"):
        return [s for s, _ in judge({**cfg, "entry": "real-" + cfg["pool"]}, run_real(cfg))]
    obs = execute(cfg, explore.Chooser(art["choices"]))
    return [s for s, _ in judge(cfg, obs)]
