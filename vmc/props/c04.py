"""C04 — results stored in a run folder reload exactly, from any process (DESIGN.md §5 C04).

Every case is written by a WRITER interpreter (map into a run folder, then a load history in the same process) which
then exits — taking every multiprocessing manager with it — and is afterwards read by a fresh LOADER interpreter that
has never seen the run. Both perform a load history that contains every pair (thorough: triple) of the three load
entry points as consecutive steps (RunInfo.load rewrites run_info.json and the input files on every load, so the
history matters) and compare every observation with what the run returned / was given."""
from __future__ import annotations

import contextlib
import copy
import io
import json
import os
import pathlib
import shutil
import subprocess
import sys
import warnings

import numpy as np

from .. import boot, gen_map, terms
from ..acc import Acc

ID = "C04"
LEVEL = "exploration"
TECHNIQUE = "bounded-exhaustive enumeration of MapSpec pipelines x persisting storages x load histories, observed in the writing interpreter and in a fresh interpreter started after the writer (and its managers) exited"
RULE = ("G-MAP pipelines (all 1-function pipelines with one, two or three outputs; 2-function pipelines with a single-output first function whose second function consumes only `a`; thorough: every 2-function pipeline whose second function consumes `a` alone or `a` and its sibling `b`) x storage "
        "{file_array, dict+persist, shared_memory_dict+persist, per-output mix} (+ for the one-output 1-function pipelines: a run with cleanup=False into a folder that holds stale input files of an attempt that died before run_info.json existed; and, with file_array and dict storage, a run into a folder that holds a COMPLETE earlier run on larger inputs which the writing process has already loaded through all three entry points; and, for the mapped one-output 1-function pipelines, the run made on a REAL process pool with shared_memory_dict and file_array storage; and a run whose list inputs hold instances of a class defined only in the writer's __main__; a run in which a root that has a default is supplied all the same - the recorded defaults are the pipeline's) x load history = a de Bruijn sequence over {load_outputs(all) (the loaded lists / object arrays are scribbled over afterwards: the next load reads the folder again), RunInfo.load, load_xarray_dataset} "
        "in which every entry point follows every other one (quick: ORXO in the writer and again in the fresh interpreter; thorough: a de Bruijn sequence with every ordered pair), executed first in the writing process and then again in a fresh interpreter. "
        "non-trivial = distinct (pipeline shape, storage assignment) with a mapped axis, observed in the fresh interpreter")
ASSUMPTIONS = ["the fresh interpreter is a child process started after the writer process has exited (all manager processes of the run are gone)",
               "xarray observations are compared between processes and with the run's values; what the dataset must look like is C19's business",
               "one real multiprocessing manager per writer process (it exits with the writer)"]
BUDGET = {"quick": 150.0, "thorough": 1200.0}



def de_bruijn(k_symbols="ORX", n=2):
    """cyclic de Bruijn sequence made linear (all n-grams occur)"""
    k = len(k_symbols)
    a = [0] * (k * n)
    seq = []

    def db(t, p):
        if t > n:
            if n % p == 0:
                seq.extend(a[1:p + 1])
        else:
            a[t] = a[t - p]
            db(t + 1, p)
            for j in range(a[t - p] + 1, k):
                a[t] = j
                db(t + 1, t)
    db(1, 1)
    s = "".join(k_symbols[i] for i in seq)
    return s + s[: n - 1]


def storage_arg(st):
    if isinstance(st, str):
        return st
    return {(tuple(k.split(",")) if "," in k else k): v for k, v in st.items()}


def storages_for(spec):
    first = ",".join(spec["funcs"][0]["outs"])
    return ["file_array", "dict", "shared_memory_dict", {first: "file_array", "": "shared_memory_dict"}]


# ------------------------------------------------------------------------------------------------
# observations
# ------------------------------------------------------------------------------------------------
def observe(step, folder, names):
    from pipefunc.map import RunInfo, load_outputs, load_xarray_dataset
    with contextlib.redirect_stdout(io.StringIO()), warnings.catch_warnings():
        warnings.simplefilter("ignore")
        if step == "O":
            vals = load_outputs(*names, run_folder=folder)
            if len(names) == 1:
                vals = [vals]
            res = {"outputs": {n: [terms.T(v), list(terms.shape_of(v)) if not hasattr(v, "shape") else list(v.shape)] for n, v in zip(names, vals)}}
            # the caller owns what it was given: scribble over the loaded objects - a later load has to read the folder again
            for v in vals:
                try:
                    if isinstance(v, np.ndarray) and v.size and v.dtype == object:
                        v.flat[0] = "SCRIBBLE"
                    elif isinstance(v, list) and v:
                        v[0] = "SCRIBBLE"
                except Exception:  # noqa: BLE001, S110  (read-only views etc.)
                    pass
            return res
        if step == "R":
            ri = RunInfo.load(folder)
            return {"runinfo": runinfo_fields(ri)}
        if step == "X":
            try:
                ds = load_xarray_dataset(run_folder=folder)
            except Exception as e:  # noqa: BLE001
                return {"xarray": {"EXC": type(e).__name__}}
            return {"xarray": {str(k): [list(map(str, v.dims)), terms.T(v.values)] for k, v in ds.data_vars.items()}}
    raise ValueError(step)


def runinfo_fields(ri):
    def k(x):
        return ",".join(x) if isinstance(x, tuple) else str(x)
    return {
        "inputs": {n: terms.T(v) for n, v in sorted(ri.inputs.items())},
        "defaults": {n: terms.T(v) for n, v in sorted(ri.defaults.items())},
        "all_output_names": sorted(ri.all_output_names),
        "shapes": {k(n): list(v) for n, v in sorted(ri.shapes.items(), key=lambda kv: k(kv[0]))},
        "shape_masks": {k(n): list(v) for n, v in sorted(ri.shape_masks.items(), key=lambda kv: k(kv[0]))},
        "internal_shapes": None if ri.internal_shapes is None else {k(n): list(v) if isinstance(v, (tuple, list)) else v for n, v in sorted(ri.internal_shapes.items())},
        "mapspecs": list(ri.mapspecs_as_strings),
        "storage": ri.storage if isinstance(ri.storage, str) else {k(n): v for n, v in sorted(ri.storage.items(), key=lambda kv: k(kv[0]))},
    }


def compare(step, obs, expect):
    """list of (what, got, want)"""
    diffs = []
    if step == "O":
        for n, (t, _shape) in obs["outputs"].items():
            if t != expect["outputs"][n]:
                diffs.append((f"load_outputs({n})", t[:120], expect["outputs"][n][:120]))
    elif step == "R":
        for f, v in obs["runinfo"].items():
            if v != expect["runinfo"][f]:
                diffs.append((f"RunInfo.{f}", str(v)[:120], str(expect["runinfo"][f])[:120]))
    elif step == "X":
        if obs["xarray"] != expect["xarray"]:
            diffs.append(("load_xarray_dataset", str(obs["xarray"])[:160], str(expect["xarray"])[:160]))
        elif "EXC" not in obs["xarray"]:
            for n, (_dims, t) in obs["xarray"].items():
                if n in expect["outputs"] and t != expect["outputs"][n]:
                    diffs.append((f"xarray[{n}]", t[:120], expect["outputs"][n][:120]))
    return diffs


# ------------------------------------------------------------------------------------------------
# writer / loader (separate interpreters)
# ------------------------------------------------------------------------------------------------
def writer_main(jobfile):
    boot.boot()
    from pipefunc.map import RunInfo

    from . import c03
    c03._install_one_manager()
    job = json.load(open(jobfile))
    seq = job["seq"]
    report = []
    for k, case in enumerate(job["cases"]):
        folder = os.path.join(job["base"], f"run{k}")
        spec = case["spec"]
        entry = {"k": k, "phase": "write", "diffs": [], "exc": None}
        try:
            p = gen_map.build(spec)
            inputs = gen_map.make_inputs(spec, "list")
            scope = case.get("scope")
            if scope:  # every parameter and output name gets the prefix "<scope>." (file names then contain dots)
                p.update_scope(scope, inputs="*", outputs="*")
                inputs = {f"{scope}.{k}": v for k, v in inputs.items()}
            extra_kw = {}
            if case.get("main_class"):
                # the elements of the list inputs are instances of a class that exists ONLY in the __main__ module of the writing
                # interpreter (a script's or notebook's own class): the folder must still load in an interpreter that lacks it
                import __main__ as _main
                if not hasattr(_main, "OnlyInWriter"):
                    exec("class OnlyInWriter(str):\n    pass\n", _main.__dict__)  # noqa: S102
                inputs = {k_: ([_main.OnlyInWriter(e) for e in v_] if isinstance(v_, list) else v_) for k_, v_ in inputs.items()}
            if case.get("shadowed_default"):
                # a root that has a DEFAULT and is supplied all the same: the folder records every default of the pipeline
                r0 = sorted(inputs)[0]
                v0 = inputs[r0]
                p.update_defaults({r0: [f"d-{e}" for e in v0] if isinstance(v0, list) else f"d-{v0}"})
            if case.get("prior") == "stale-inputs":
                # the folder of an earlier attempt that died after writing (other) inputs and before run_info.json existed,
                # continued with cleanup=False: what the folder records afterwards must be THIS run's inputs
                from pipefunc._utils import dump as _dump
                os.makedirs(os.path.join(folder, "inputs"), exist_ok=True)
                for n_ in inputs:
                    _dump(["stale", n_], pathlib.Path(folder) / "inputs" / f"{n_}.cloudpickle")
                extra_kw["cleanup"] = False
            if case.get("prior") == "earlier-run-loaded":
                # the folder already holds a COMPLETE earlier run of the same pipeline on other (larger) inputs, and this very
                # process has loaded it through every entry point; the run under test then replaces it (cleanup=True, the
                # default): what is loaded afterwards - here and in the fresh interpreter - must be the new run
                spec0 = copy.deepcopy(spec)
                spec0["sizes"] = {a: n_ + 1 for a, n_ in spec["sizes"].items()}
                p0 = gen_map.build(spec0)
                with contextlib.redirect_stdout(io.StringIO()), warnings.catch_warnings():
                    warnings.simplefilter("ignore")
                    p0.map(gen_map.make_inputs(spec0, "list"), run_folder=folder, internal_shapes=gen_map.internal_shapes_arg(spec0),
                           parallel=False, storage=storage_arg(case["storage"]), persist_memory=True)
                names0 = [o for f in spec["funcs"] for o in f["outs"]]
                for step in "ORX":
                    observe(step, folder, names0)
            created = {}
            orig = RunInfo.create.__func__

            def create(cls, *a, _o=orig, **kw):
                ri = _o(cls, *a, **kw)
                created["ri"] = ri
                return ri
            RunInfo.create = classmethod(create)
            try:
                with contextlib.redirect_stdout(io.StringIO()), warnings.catch_warnings():
                    warnings.simplefilter("ignore")
                    ish = gen_map.internal_shapes_arg(spec)
                    if case.get("ishape_int") and ish:  # one-axis internal shapes spelled as ints (what the folder records must round-trip)
                        ish = {k_: (v_[0] if len(v_) == 1 else v_) for k_, v_ in ish.items()}
                    if scope and ish:
                        ish = {f"{scope}.{k}": v for k, v in ish.items()}
                    pool = None
                    if case.get("pool") == "process":
                        # the elements are computed (and, for shared_memory_dict / file_array, dumped) in REAL worker processes:
                        # whatever the storage objects remember about their own writes exists in the workers' copies only
                        import concurrent.futures as cf
                        import multiprocessing
                        pool = cf.ProcessPoolExecutor(2, mp_context=multiprocessing.get_context("fork"))
                        extra_kw = {**extra_kw, "executor": pool}
                    try:
                        r = p.map(dict(inputs), run_folder=folder, internal_shapes=ish, parallel=pool is not None,
                                  storage=storage_arg(case["storage"]), persist_memory=True, **extra_kw)
                    finally:
                        if pool is not None:
                            pool.shutdown(wait=True)
            finally:
                RunInfo.create = classmethod(orig)
            names = [(f"{scope}.{o}" if scope else o) for f in spec["funcs"] for o in f["outs"]]
            expect = {"outputs": {o: terms.T(r[o].output) for o in names}, "runinfo": runinfo_fields(created["ri"]), "names": names}
            # what the run was GIVEN (RunInfo.create may already hold wrong values if the inputs were mangled on the way in)
            expect["runinfo"]["inputs"] = {n: terms.T(v) for n, v in sorted(inputs.items())}
            expect["runinfo"]["defaults"] = {n: terms.T(v) for n, v in sorted(p.defaults.items())}  # likewise: what the pipeline HAS
            # the same-process xarray observation is the expectation for the fresh process
            expect["xarray"] = observe("X", folder, names)["xarray"]
            with open(os.path.join(job["base"], f"expect{k}.json"), "w") as fh:
                json.dump(expect, fh)
            for i, step in enumerate(seq):
                try:
                    obs = observe(step, folder, names)
                except Exception as e:  # noqa: BLE001
                    entry["diffs"].append([f"step {i} {step} (history {seq[:i + 1]})", f"raised {type(e).__name__}: {str(e)[:100]}", "a value", type(e).__name__])
                    break
                for what, got, want in compare(step, obs, expect):
                    entry["diffs"].append([f"{what} at step {i} of same-process history {seq[:i + 1]}", got, want, None])
        except Exception as e:  # noqa: BLE001
            import traceback
            entry["exc"] = [type(e).__name__, str(e)[:200], traceback.format_exc()[-600:]]
        report.append(entry)
    with open(os.path.join(job["base"], "writer_report.json"), "w") as fh:
        json.dump(report, fh)


def loader_main(jobfile):
    boot.boot()
    from . import c03
    c03._install_one_manager()  # the loader's own manager (SharedMemoryDictArray starts one per array otherwise: 30 ms each)
    job = json.load(open(jobfile))
    seq = job["seq"]
    report = []
    for k, _case in enumerate(job["cases"]):
        folder = os.path.join(job["base"], f"run{k}")
        ef = os.path.join(job["base"], f"expect{k}.json")
        entry = {"k": k, "phase": "fresh", "diffs": [], "exc": None}
        if not os.path.exists(ef):
            report.append(entry)
            continue
        expect = json.load(open(ef))
        for i, step in enumerate(seq):
            try:
                obs = observe(step, folder, expect["names"])
            except Exception as e:  # noqa: BLE001
                entry["diffs"].append([f"step {i} {step} (fresh-interpreter history {seq[:i + 1]})", f"raised {type(e).__name__}: {str(e)[:100]}", "a value", type(e).__name__])
                break
            for what, got, want in compare(step, obs, expect):
                entry["diffs"].append([f"{what} at step {i} of fresh-interpreter history {seq[:i + 1]}", got, want, None])
        report.append(entry)
    with open(os.path.join(job["base"], "loader_report.json"), "w") as fh:
        json.dump(report, fh)


def run_batch(cases, seq):
    """returns per case list of (sig, text)"""
    base = boot.mkscratch("c04-")
    try:
        jobfile = os.path.join(base, "job.json")
        with open(jobfile, "w") as fh:
            json.dump({"base": base, "cases": cases, "seq": seq}, fh)
        env = dict(os.environ, PYTHONHASHSEED="0", VERIF_REPO=boot.REPO)
        out = [[] for _ in cases]
        for phase, rep in (("write", "writer_report.json"), ("load", "loader_report.json")):
            pr = subprocess.run([sys.executable, "-m", "vmc.props.c04", phase, jobfile], cwd=boot.VERIF, env=env, capture_output=True, text=True, timeout=3000)
            rp = os.path.join(base, rep)
            if pr.returncode != 0 or not os.path.exists(rp):
                raise RuntimeError(f"{phase} interpreter failed: {pr.stderr[-800:]}")
            for entry in json.load(open(rp)):
                k = entry["k"]
                st = cases[k]["storage"]
                base_sig = {"phase": entry["phase"], "storage": st if isinstance(st, str) else "mix"}
                if entry["exc"]:
                    out[k].append(({"kind": "run-failed", "exc": entry["exc"][0], **base_sig}, f"map into a folder failed: {entry['exc'][1]}"))
                seen = set()
                for what, got, want, exc in entry["diffs"]:
                    api = what.split("(")[0].split("[")[0].split(".")[0].split(" ")[0]
                    sig = {"kind": "reload-mismatch" if not exc else "reload-raises", "api": api, **base_sig}
                    if exc:
                        sig["exc"] = exc
                    if json.dumps(sig, sort_keys=True) in seen:
                        continue
                    seen.add(json.dumps(sig, sort_keys=True))
                    out[k].append((sig, f"{[gen_map.spec_str(f) for f in cases[k]['spec']['funcs']]} storage={st}: {what}: got {got}, expected {want}"))
        return out
    finally:
        shutil.rmtree(base, ignore_errors=True)


# ------------------------------------------------------------------------------------------------
def specs_for(tier):
    # hand-written extras: None elements, a dict-returning function with a custom output_picker, a 1-tuple output name,
    # a list-valued output
    from . import c03
    yield from c03.EXTRA_PIPES.values()
    # one function with THREE outputs: run_info.json spells the tuple-named keys "a,b,d"
    yield from gen_map.pipelines(1, f_outs=[("a", "b", "d")])
    for s in gen_map.pipelines(2, "quick"):
        g = s["funcs"][1]["params"] if len(s["funcs"]) == 2 else None
        if g is None or (len(g) == 1 and len(s["funcs"][0]["outs"]) == 1):
            yield s
        elif tier == "thorough" and (len(g) == 1 or g[1] == "b"):
            yield s  # thorough: every consumer of `a` alone or of `a` and its sibling `b`


def scope_free_default_ok(spec):
    """the first root (by name) is a scalar or a 1-D list input: a default of the same form can be given"""
    r0 = sorted(spec["roots"])[0]
    return len(spec["roots"][r0]) <= 1


def plan(tier, seed):
    n = 48 if tier == "quick" else 480
    us = [("pipelines<=2-functions", ("batch", tier, c, n)) for c in range(n)]
    r = seed % n
    return us[r:] + us[:r]


def run_unit(unit):
    _, tier, c, n = unit
    acc = Acc()
    # quick: every entry point after every other one at least once (ORXO…); thorough: every ordered triple
    seq = "ORXO" if tier == "quick" else de_bruijn("ORX", 2)
    cases, keys = [], []
    for k, spec in enumerate(specs_for(tier)):
        if k % n != c:
            continue
        sts = storages_for(spec)
        if len(spec["funcs"][0]["outs"]) == 3:
            sts = [sts[0], {"a,b,d": "dict", "": "file_array"}]
        elif len(spec["funcs"]) == 2:
            sts = [sts[3]] if tier == "quick" else [sts[0], sts[3]]  # quick bound for 2-function pipelines: the file_array + shared_memory_dict mix
        for st in sts:
            cases.append({"spec": spec, "storage": st})
            keys.append((gen_map.key(spec), str(st)) if gen_map.nontrivial(spec) else None)
        if len(spec["funcs"]) == 1 and any(len(fn["internal"]) == 1 and fn.get("ishape_via", "map") == "map" for fn in spec["funcs"]):
            cases.append({"spec": spec, "storage": "file_array", "ishape_int": True})
            keys.append((gen_map.key(spec), "ishape-int") if gen_map.nontrivial(spec) else None)
        if len(spec["funcs"]) == 1 and len(spec["funcs"][0]["outs"]) == 1:
            cases.append({"spec": spec, "storage": "file_array", "prior": "stale-inputs"})
            keys.append((gen_map.key(spec), "stale-inputs") if gen_map.nontrivial(spec) else None)
        if len(spec["funcs"]) == 1 and len(spec["funcs"][0]["outs"]) == 1:
            for st in ("file_array", "dict"):
                cases.append({"spec": spec, "storage": st, "prior": "earlier-run-loaded"})
                keys.append((gen_map.key(spec), "earlier-run-loaded", st) if gen_map.nontrivial(spec) else None)
        if len(spec["funcs"]) == 1 and len(spec["funcs"][0]["outs"]) == 1 and spec["funcs"][0]["ms"]:
            for st in ("shared_memory_dict", "file_array"):
                cases.append({"spec": spec, "storage": st, "pool": "process"})
                keys.append((gen_map.key(spec), "process-pool", st) if gen_map.nontrivial(spec) else None)
        if len(spec["funcs"]) == 1 and len(spec["funcs"][0]["outs"]) == 1 and any(len(a) == 1 for a in spec["roots"].values()):
            cases.append({"spec": spec, "storage": "file_array", "main_class": True})
            keys.append((gen_map.key(spec), "main-class") if gen_map.nontrivial(spec) else None)
        if len(spec["funcs"]) == 1 and len(spec["funcs"][0]["outs"]) == 1 and scope_free_default_ok(spec):
            cases.append({"spec": spec, "storage": "file_array", "shadowed_default": True})
            keys.append((gen_map.key(spec), "shadowed-default") if gen_map.nontrivial(spec) else None)
        if len(spec["funcs"]) == 1 and len(spec["roots"]) >= 2:
            # scoped names ("s.x", "s.y"): inputs and outputs whose file names contain a dot
            cases.append({"spec": spec, "storage": "file_array", "scope": "s"})
            keys.append((gen_map.key(spec), "scoped") if gen_map.nontrivial(spec) else None)
    if not cases:
        return acc
    res = run_batch(cases, seq)
    for case, key, vs in zip(cases, keys, res):
        acc.case(key, n=2 * len(seq))
        acc.stratum("storage-" + (case["storage"] if isinstance(case["storage"], str) else "mix"))
        for sig, text in vs:
            acc.violation(sig, {**case, "seq": seq}, text)
    acc.stratum("folders", len(cases))
    acc.sample({"mapspecs": [gen_map.spec_str(f) for f in cases[0]["spec"]["funcs"]], "storage": cases[0]["storage"], "history": seq})
    return acc


def replay(art):
    case = {k: art[k] for k in ("spec", "storage", "scope", "prior", "ishape_int", "pool", "main_class", "shadowed_default") if k in art}
    res = run_batch([case], art.get("seq") or de_bruijn("ORX", 2))
    return [s for s, _ in res[0]]


if __name__ == "__main__":
    {"write": writer_main, "load": loader_main}[sys.argv[1]](sys.argv[2])
