"""C01 — map results equal the MapSpec denotation (DESIGN.md §5 C01)."""
from __future__ import annotations

import contextlib
import itertools
import copy
import io
import shutil
import warnings

import numpy as np
from pipefunc import Pipeline
from pipefunc.map import load_outputs
from pipefunc.map._storage_array._base import StorageBase

from .. import boot, findings, gen_map, terms
from ..acc import Acc

ID = "C01"
LEVEL = "exploration"
TECHNIQUE = "bounded-exhaustive enumeration of MapSpec pipelines x inputs x storages against a reference denotation of the index notation"
RULE = ("G-MAP base family: every pipeline of 1..2 functions over root sets {x[i]; x[i],y[i]; x[i],y[j]; x[i,j]; x[i,j],y[j]; x[i],n} where each consumer "
        "takes each array fully indexed / with one ':' / all ':' / whole, output axes in every order with 0..1 internal axis per pipeline at every position, 1 or 2 "
        "outputs, optional second array for the consumer (sibling output, a root again, new root zipped / outer / scalar), no-MapSpec producers consumed through an "
        "index; a distinct size per axis name; list and ndarray inputs; dict storage for all, folder-backed file_array / mixes / shared_memory_dict for the "
        "1-function pipelines and the consumers of `a` only; a second map on the same Pipeline object with other sizes; plus the family with TWO internal axes over "
        "x[i]. Thorough adds, as separate complete families: every storage assignment for the whole base family, two internal axes over every root set, rank-3 and "
        "2-D-zip roots, three further size assignments, and 3-function chains. Both tiers: one 2-D array (from a mapped producer, or from a producer WITHOUT MapSpec) taken by TWO consumers with every ordered pair of different patterns, in all six listing orders. non-trivial = distinct pipeline shape with a mapped axis and at least one of zip / "
        "outer product / ':' / internal axis / tuple output / full reduction. The 1-function pipelines are enumerated with one, two and three outputs")
ASSUMPTIONS = ["reference denotation vmc/gen_map.py:ref_map (~50 lines)", "uninterpreted term bodies: value equality is derivation equality",
               "sequential execution (schedules are C03's business)", "zarr storages cannot be imported in this sandbox"]
BUDGET = {"quick": 120.0, "thorough": 900.0}


def predicates(spec) -> dict:
    """case-class predicates used by known-finding signatures"""
    d = {"internal_before_external": False, "colon_on_one_tuple_output": False, "only_internal_output_axes": False}
    for fn in spec["funcs"]:
        if fn["ms"]:
            ext_pos = [k for k, a in enumerate(fn["out_axes"]) if a not in fn["internal"]]
            int_pos = [k for k, a in enumerate(fn["out_axes"]) if a in fn["internal"]]
            if ext_pos and int_pos and min(int_pos) < max(ext_pos):
                d["internal_before_external"] = True
            if not ext_pos:
                d["only_internal_output_axes"] = True
            for p, axes in fn["ms"].items():
                prod = next((g for g in spec["funcs"] if p in g["outs"]), None)
                if prod is not None and len(prod["outs"]) > 1 and None in axes:
                    sib = [o for o in prod["outs"] if o != p]
                    if not all(s in fn["ms"] for s in sib):
                        d["colon_on_one_tuple_output"] = True
    return d


SIZES2 = {"i": 3, "j": 2, "k": 3, "u": 2, "w": 3, "m": 2}  # other sizes for the mapped axes; internal axes keep their (declared) sizes


def run_case(case):  # noqa: C901, PLR0912
    spec, form, storage = case["spec"], case.get("form", "auto"), case.get("storage", "dict")
    out = []
    pred = predicates(spec)
    if case.get("order"):
        pred["listed"] = "not-in-dependency-order"
    if case.get("default_root"):
        pred["root_default"] = True
    if case.get("ishape_both"):
        pred["ishape_both"] = True
    try:
        if case.get("ishape_both"):
            # the PipeFunc declares OTHER internal sizes; the sizes given to map(internal_shapes=) are the ones that count
            other = {**spec["sizes"], **{a: spec["sizes"][a] + 1 for fn in spec["funcs"] for a in fn["internal"]}}
            with contextlib.redirect_stdout(io.StringIO()):
                p = Pipeline(gen_map.build_funcs(spec, declared_sizes=other))
        elif case.get("order"):
            funcs = gen_map.build_funcs(spec)
            with contextlib.redirect_stdout(io.StringIO()):
                p = Pipeline([funcs[i] for i in case["order"]])
        else:
            p = gen_map.build(spec)
        if case.get("default_root"):
            # a mapped root that also has a (well-formed) default of ANOTHER size: the supplied value is what counts
            r = case["default_root"]
            with contextlib.redirect_stdout(io.StringIO()):
                p.update_defaults({r: gen_map.make_inputs({**spec, "sizes": SIZES2}, "list")[r]})
    except Exception as e:  # noqa: BLE001
        return [(findings.exc_sig(e, phase="construct", **pred), f"Pipeline(...) refused a valid spec {[gen_map.spec_str(f) for f in spec['funcs']]}: {type(e).__name__}: {str(e)[:120]}")]
    # "reuse": a second map on the SAME Pipeline object with other input sizes (state kept between runs must not leak)
    runs = [(spec, "first")] + ([({**spec, "sizes": SIZES2}, "second-run-on-same-pipeline")] if case.get("reuse") else [])
    # reuse + folder: BOTH runs go into the same run folder (default cleanup=True: the second run starts from scratch)
    shared = boot.mkscratch("c01-") if case.get("reuse") and case.get("folder") else None
    try:
        for rspec, which in runs:
            out.extend(_one_map(p, rspec, form, storage, bool(case.get("folder")), {**pred, **({"reuse": True} if which != "first" else {})}, folder=shared))
            if out:
                break
    finally:
        if shared:
            shutil.rmtree(shared, ignore_errors=True)
    return out


def _one_map(p, spec, form, storage, with_folder, pred, folder=None):  # noqa: C901, PLR0912
    out = []
    own_folder = folder is None
    ishapes = gen_map.internal_shapes_arg(spec)
    if pred.get("ishape_both"):
        ishapes = {o: tuple(spec["sizes"][a] for a in fn["internal"]) for fn in spec["funcs"] if fn["internal"] for o in fn["outs"]}
    inputs = gen_map.make_inputs(spec, form)
    exp, calls = gen_map.ref_map(spec, inputs)
    if folder is None:
        folder = boot.mkscratch("c01-") if with_folder else None
    try:
        terms.LOG.clear()
        try:
            with contextlib.redirect_stdout(io.StringIO()), warnings.catch_warnings():
                warnings.simplefilter("ignore")
                r = p.map(dict(inputs), run_folder=folder, internal_shapes=ishapes, parallel=False,
                          storage=storage if isinstance(storage, str) else {(tuple(k.split(",")) if "," in k else k): v for k, v in storage.items()})
        except Exception as e:  # noqa: BLE001
            return [(findings.exc_sig(e, phase="map", **pred), f"map refused/failed on {[gen_map.spec_str(f) for f in spec['funcs']]} ({storage}): {type(e).__name__}: {str(e)[:120]}")]
        log = list(terms.LOG)
        for fn in spec["funcs"]:
            for o in fn["outs"]:
                got = r[o].output
                if terms.T(got) != terms.T(exp[o]) or tuple(np.shape(got)) != tuple(np.shape(exp[o])):
                    out.append(({"kind": "value-mismatch", "storage_kind": storage if isinstance(storage, str) else "mix", **pred},
                                f"{o}: map gave {terms.T(got)[:200]} shape {np.shape(got)}, denotation {terms.T(exp[o])[:200]} shape {np.shape(exp[o])}"
                                f" for {[gen_map.spec_str(f) for f in spec['funcs']]}"))
                    break
                if folder is not None:
                    try:
                        with contextlib.redirect_stdout(io.StringIO()):
                            lo = load_outputs(o, run_folder=folder)
                    except Exception as e:  # noqa: BLE001
                        out.append((findings.exc_sig(e, phase="load_outputs", **pred), f"load_outputs({o}) raised {type(e).__name__}: {str(e)[:100]}"))
                        break
                    if terms.T(lo) != terms.T(exp[o]):
                        out.append(({"kind": "stored-mismatch", **pred}, f"{o}: load_outputs gave {terms.T(lo)[:200]}, denotation {terms.T(exp[o])[:200]}"))
                        break
                st = r[o].store
                if isinstance(st, StorageBase) and bool(np.any(st.mask)):
                    out.append(({"kind": "partially-filled", **pred}, f"{o}: storage mask not all-false after the run"))
            n_calls = sum(1 for name, _ in log if name == fn["name"])
            if n_calls != len(calls[fn["name"]]) or sorted(a for name, a in log if name == fn["name"]) != sorted(calls[fn["name"]]):
                out.append(({"kind": "call-count", **pred}, f"{fn['name']} was called {n_calls} times, denotation needs {len(calls[fn['name']])}"
                            f" for {[gen_map.spec_str(f) for f in spec['funcs']]}"))
    finally:
        if folder and own_folder:
            shutil.rmtree(folder, ignore_errors=True)
    return out


def cases_for(spec, tier):
    n = len(spec["funcs"])
    has_r1 = any(len(a) == 1 for a in spec["roots"].values())
    yield {"spec": spec, "form": "list", "storage": "dict"}
    if n == 2:
        yield {"spec": spec, "form": "list", "storage": "dict", "order": [1, 0]}  # consumer listed before its producer
    if any(fn["internal"] and fn.get("ishape_via", "map") == "pipefunc" for fn in spec["funcs"]):
        yield {"spec": spec, "form": "list", "storage": "dict", "ishape_both": True}
    mapped_roots = [r for r, axes in spec["roots"].items() if axes]
    if mapped_roots and (n == 1 or len(spec["funcs"][1]["params"]) == 1):
        yield {"spec": spec, "form": "list", "storage": "dict", "default_root": mapped_roots[-1]}
    if len(spec["funcs"][0]["internal"]) == 2 and n == 2:
        yield {"spec": spec, "form": "ndarray", "storage": "file_array", "folder": True}
        return
    if n == 1 or len(spec["funcs"][1]["params"]) == 1:
        # the same Pipeline object mapped twice with different input sizes
        yield {"spec": spec, "form": "list", "storage": "dict", "reuse": True}
        yield {"spec": spec, "form": "list", "storage": "dict", "reuse": True, "folder": True}  # … both into ONE run folder
    if n == 1:
        if has_r1:
            yield {"spec": spec, "form": "ndarray", "storage": "dict"}
        yield {"spec": spec, "form": "list", "storage": "file_array", "folder": True}
        yield {"spec": spec, "form": "list", "storage": "dict", "folder": True}
        yield {"spec": spec, "form": "ndarray", "storage": "shared_memory_dict"}
        if len(spec["funcs"][0]["outs"]) >= 2:
            # per-output storage is keyed by the function's output name (the tuple for a multi-output function)
            yield {"spec": spec, "form": "list", "storage": {",".join(spec["funcs"][0]["outs"]): "file_array", "": "dict"}, "folder": True}
    else:
        # quick bound for the (30 ms) folder-backed run: second function consumes only `a`; thorough: every pipeline
        if len(spec["funcs"][1]["params"]) == 1:
            yield {"spec": spec, "form": "ndarray", "storage": "file_array", "folder": True}
            # a per-output mix of an in-memory and a file-based storage WITHOUT a run folder (a temporary one is needed)
            yield {"spec": spec, "form": "list", "storage": {",".join(spec["funcs"][0]["outs"]): "file_array", "": "dict"}}
        pass


SIZE_VARIANTS = {"sizes-111": dict.fromkeys("ijkuwm", 1), "sizes-321": {"i": 3, "j": 2, "k": 1, "u": 3, "w": 2, "m": 1},
                 "sizes-133": {"i": 1, "j": 3, "k": 3, "u": 1, "w": 3, "m": 3}}


def specs_for(stage, shard=None):
    """the pipelines of a stage (optionally only one shard of the (root set, first function) pairs)"""
    if stage == "1-function":
        yield from gen_map.pipelines(1, shard=shard)
        yield from gen_map.pipelines(1, f_outs=[("a", "b", "d")], shard=shard)  # three outputs
    elif stage in ("2-functions", "2-functions-all-storages"):
        for s in gen_map.pipelines(2, shard=shard):
            if len(s["funcs"]) == 2:
                yield s
    elif stage == "2-internal-axes-over-x[i]":
        # quick-tier family with TWO internal axes (of different sizes) on the producer, at every position, and every
        # consumer pattern (indexed / one ':' / all ':' / whole); the base family has <= 1 internal axis per pipeline
        yield from gen_map.pipelines(2, roots_opts=[{"x": ["i"]}], f_internal=2, f_outs=[("a",)], extras="none", g_internal=0, shard=shard)
    elif stage == "2-internal-axes-all-roots":
        yield from gen_map.pipelines(2, f_internal=2, extras="none", g_internal=0, shard=shard)
    elif stage == "rank3-and-2D-zip-roots":
        yield from gen_map.pipelines(2, "thorough", roots_opts=gen_map.ROOT_SETS_THOROUGH[len(gen_map.ROOT_SETS_QUICK):], extras="none", shard=shard)
    elif stage == "3-functions-chain":
        for s in gen_map.pipelines(3, extras="none", f_outs=[("a",)], h_extras=(None,), shard=shard):
            if len(s["funcs"]) == 3:
                yield s
    elif stage == "fan-out-of-one-2D-array":
        # ONE 2-D array a[i, j] - produced by a mapped function, or by a function WITHOUT MapSpec (internal axes i, j) - taken by
        # TWO consumers with different patterns (every ordered pair of: fully indexed, one ':', all ':', whole)
        sizes = dict(gen_map.pipelines(1).__next__()["sizes"])
        prods = [({"x": ["i"], "y": ["j"]}, {"name": "f", "params": ["x", "y"], "ms": {"x": ["i"], "y": ["j"]}, "out_axes": ["i", "j"], "internal": [],
                                            "outs": ["a"], "ishape_via": "map"}),
                 ({"n": []}, {"name": "f", "params": ["n"], "ms": None, "out_axes": [], "internal": ["i", "j"], "outs": ["a"], "ishape_via": "map"})]
        pats = gen_map._patterns(("i", "j"))
        k = 0
        for roots, f in prods:
            for p1, p2 in itertools.permutations(pats, 2):
                k += 1
                if shard is not None and k % shard[1] != shard[0]:
                    continue
                cons = []
                for name, out, pat in (("g", "c", p1), ("h", "d", p2)):
                    named = [] if pat == "whole" else [a for a in pat if a is not None]
                    if pat == "whole" or not named:
                        cons.append({"name": name, "params": ["a"], "ms": None if pat == "whole" else {"a": list(pat)}, "out_axes": [], "internal": [],
                                     "outs": [out], "ishape_via": "map"} if pat == "whole" else None)
                    else:
                        cons.append({"name": name, "params": ["a"], "ms": {"a": list(pat)}, "out_axes": named, "internal": [], "outs": [out], "ishape_via": "map"})
                if None in cons:
                    continue  # an all-':' consumer has no output axis: not expressible as a MapSpec (it is the "whole" form)
                yield {"roots": copy.deepcopy(roots), "sizes": sizes, "funcs": [copy.deepcopy(f), *cons]}
    elif stage in SIZE_VARIANTS:
        yield from gen_map.pipelines(2, sizes=SIZE_VARIANTS[stage], shard=shard)
    else:
        raise ValueError(stage)


STAGES = {"quick": ["1-function", "2-functions", "2-internal-axes-over-x[i]", "fan-out-of-one-2D-array"],
          "thorough": ["1-function", "2-functions-all-storages", "2-internal-axes-all-roots", "rank3-and-2D-zip-roots", "sizes-111", "sizes-321",
                       "sizes-133", "3-functions-chain", "fan-out-of-one-2D-array"]}
NCHUNK = {"fan-out-of-one-2D-array": 8, "1-function": 16, "2-functions": 240, "2-internal-axes-over-x[i]": 16, "2-functions-all-storages": 440, "2-internal-axes-all-roots": 200,
          "rank3-and-2D-zip-roots": 200, "sizes-111": 200, "sizes-321": 200, "sizes-133": 200, "3-functions-chain": 220}


def cases_of_stage(stage, spec, tier):
    if stage == "2-functions-all-storages":
        first = ",".join(spec["funcs"][0]["outs"])
        yield {"spec": spec, "form": "list", "storage": "dict"}
        yield {"spec": spec, "form": "list", "storage": "dict", "reuse": True}
        yield {"spec": spec, "form": "list", "storage": "dict", "order": [1, 0]}
        yield {"spec": spec, "form": "ndarray", "storage": "file_array", "folder": True}
        yield {"spec": spec, "form": "list", "storage": {first: "file_array", "": "dict"}, "folder": True}
        yield {"spec": spec, "form": "list", "storage": {"c": "file_array", "": "shared_memory_dict"}, "folder": True}
    elif stage in ("2-internal-axes-all-roots", "rank3-and-2D-zip-roots"):
        yield {"spec": spec, "form": "list", "storage": "dict"}
        yield {"spec": spec, "form": "ndarray", "storage": "file_array", "folder": True}
    elif stage == "fan-out-of-one-2D-array":
        for order in itertools.permutations(range(3)):
            yield {"spec": spec, "form": "list", "storage": "dict", "order": list(order)}
        yield {"spec": spec, "form": "ndarray", "storage": "file_array", "folder": True}
    elif stage == "3-functions-chain":
        yield {"spec": spec, "form": "list", "storage": "dict"}
        for order in ([2, 1, 0], [1, 2, 0], [0, 2, 1]):
            yield {"spec": spec, "form": "list", "storage": "dict", "order": order}
    elif stage in SIZE_VARIANTS:
        yield {"spec": spec, "form": "list", "storage": "dict"}
    else:
        yield from cases_for(spec, tier)


def plan(tier, seed):
    out = []
    for st in STAGES[tier]:
        n = NCHUNK[st]
        us = [(st, (st, tier, c, n)) for c in range(n)]
        r = seed % n
        out.extend(us[r:] + us[:r])
    return out


def run_unit(unit):
    st, tier, c, n = unit
    acc = Acc()
    if st in ("2-functions-all-storages", "shared"):
        from . import c03
        c03._install_one_manager()
    for k, spec in enumerate(specs_for(st, shard=(c, n))):
        nt = gen_map.nontrivial(spec)
        for f in gen_map.features(spec):
            acc.stratum("pipelines-with-" + f)
        for case in cases_of_stage(st, spec, tier):
            acc.case(gen_map.key(spec) if nt else None)
            acc.stratum("storage-" + (case["storage"] if isinstance(case["storage"], str) else "mix"))
            if case.get("reuse"):
                acc.stratum("second-map-on-same-pipeline")
            for sig, text in run_case(case):
                acc.violation(sig, case, text)
        if k % 50 == 0:
            acc.sample({"mapspecs": [gen_map.spec_str(f) for f in spec["funcs"]], "roots": spec["roots"]})
    return acc


def replay(art):
    return [s for s, _ in run_case(art)]
