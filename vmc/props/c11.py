"""C11 — selecting outputs / supplying intermediates keeps values and runs only the needed work (DESIGN.md §5 C11).

Bounded-exhaustive enumeration of (pipeline, requested outputs S, provided names I) against a selection reference
(backward reachability from S that stops at the names in I) written below. Two families of pipelines:

* ``dag``: G-DAG pipelines (no MapSpec) through ``p.subpipeline(I, S)`` + a call per requested output, through
  ``p.map(I-values, output_names=S)`` and, when S is the leaf set, ``p.map(I-values, auto_subpipeline=True)``;
* ``map``: MapSpec pipelines (hand-written specs + G-MAP) through ``map(output_names=S)``, ``map(auto_subpipeline=True)``
  and ``subpipeline(I, S).map(...)``; provided intermediates are *marker* arrays of the right shape, so a recomputed
  value can never be confused with a substituted one.

The oracle is three-valued: a request is MUST-succeed, MUST-reject or unconstrained (see ``classify``)."""
from __future__ import annotations

import contextlib
import io
import itertools
import re
import warnings

import numpy as np

from .. import findings, gen_dag, gen_map, terms
from ..acc import Acc
from . import c03

ID = "C11"
LEVEL = "exploration"
TECHNIQUE = ("bounded-exhaustive enumeration of (pipeline, requested output set, irredundant provided set) against a backward-reachability "
             "selection reference; values by the DAG evaluator / MapSpec denotation with the provided intermediates substituted; call log compared exactly")
RULE = ("dag family: every G-DAG pipeline of N functions over roots {x,y} (0..2 parameters, 1 or 2 outputs, parameterless functions included; quick: "
        "N<=2 undecorated and with one decoration of {signature default, PipeFunc default, bound root, bound upstream, shared default}, N=3 undecorated "
        "with at most one tuple-output function; thorough adds N=2 renames, all other N=3 and N=3 decorated with at most one tuple-output function) x "
        "every non-empty set S of output names (plus the spelling that names a completely requested tuple-output function by its tuple) x every "
        "irredundant provided set I of roots and intermediates disjoint from S (every name of I is met by the backward traversal from S that stops at "
        "I): empty, root-only, interior-only and mixed cuts, defaulted roots both provided and omitted; plus every non-computable request obtained by "
        "deleting one name from a computable I. map family: the five MapSpec pipelines of C03 + two with a parameterless producer, G-MAP 1-function "
        "pipelines and 2-function pipelines over root x[i] (thorough: all 2-function G-MAP pipelines and the 3-function ones over root x[i] whose first "
        "function has no internal axis) x every S x every irredundant I (marker arrays for provided intermediates) x the deletions. Entry points: "
        "subpipeline(I,S) + one call per requested output; map(output_names=S) (auto_subpipeline=True iff I holds an intermediate); "
        "the same map request twice on one pipeline object with a replace() of the last selected function in between; the same map request on a copy with every name in scope s and the inputs given per scope ({'s': {...}}); map(auto_subpipeline=True) without output_names when S is the leaf set and every leaf lies below a provided name; subpipeline(I,S).map. "
        "non-trivial = distinct (pipeline, S, I) that cuts at an intermediate, leaves a function out, or must be rejected")
ASSUMPTIONS = ["selection reference = backward reachability cut by provided names (this module, ~40 lines); values from vmc/gen_dag.py:ref_eval and "
               "vmc/gen_map.py:ref_map restricted to the selected functions",
               "user functions are uninterpreted term builders; provided intermediates are marker values distinct from every computed term",
               "unconstrained (only soundness is demanded: if the request is answered, values and call log must be the reference's): a provided member of "
               "a tuple-output function whose sibling output is still needed; a root whose only default is declared by a function outside the selection",
               "S and I are disjoint; a provided name that the selection does not use is a surplus input (C12's business) and is never generated",
               "map(auto_subpipeline=True) without output_names is only exercised where 'all leaf nodes' (documentation) and 'the leaves downstream of "
               "the inputs' (tests/test_pipeline.py::test_subpipeline) select the same outputs",
               "an error 'names what is missing' if a missing root, or an unprovided intermediate between S and a missing root, occurs as an identifier in "
               "a quoted/backticked part of the message (in the whole message if nothing is quoted)",
               "a MapSpec pipeline whose unrestricted map disagrees with the denotation is skipped (C01's business)"]
BUDGET = {"quick": 220.0, "thorough": 2400.0}


def _quiet(fn, *a, **k):
    with contextlib.redirect_stdout(io.StringIO()), warnings.catch_warnings():
        warnings.simplefilter("ignore")
        return fn(*a, **k)


# ------------------------------------------------------------------------------------------------
# the selection reference
# ------------------------------------------------------------------------------------------------
def view(spec, fam):
    """family-neutral view: per function its name, free (non-bound) parameters, outputs and the root parameters it declares a default for"""
    g = []
    produced = {o for f in spec["funcs"] for o in f["outs"]}
    for f in spec["funcs"]:
        bound = f.get("bound", {}) if fam == "dag" else {}
        defs = set()
        if fam == "dag":
            defs = {p for p in {**f.get("sigdef", {}), **f.get("pfdef", {})} if p not in bound and p not in produced}
        g.append({"name": f.get("tag", f["name"]), "deps": [p for p in f["params"] if p not in bound], "outs": list(f["outs"]), "defs": defs})
    return g


def producers(g):
    return {o: i for i, f in enumerate(g) for o in f["outs"]}


def reach(g, names, given):
    """backward traversal from `names` that stops at `given`: (selected functions, roots met, names of `given` met)"""
    prod = producers(g)
    funcs, roots, used, seen = set(), set(), set(), set()
    stack = list(names)
    while stack:
        n = stack.pop()
        if n in seen:
            continue
        seen.add(n)
        if n in given:
            used.add(n)
            continue
        i = prod.get(n)
        if i is None:
            roots.add(n)
        elif i not in funcs:
            funcs.add(i)
            stack.extend(g[i]["deps"])
    return funcs, roots, used


def classify(g, names, given):
    """'must' (strictly computable), 'reject' (not computable even with pipeline-wide defaults) or 'free' (unconstrained) + why"""
    prod = producers(g)
    funcs, roots, _ = reach(g, names, given)
    all_defs = set().union(*(f["defs"] for f in g)) if g else set()
    sel_defs = set().union(*(g[i]["defs"] for i in funcs)) if funcs else set()
    if roots - all_defs:
        return "reject", None
    if any(n in prod and prod[n] in funcs for n in given):
        return "free", "partial-tuple"
    if roots - sel_defs:
        return "free", "leaked-default"
    return "must", None


def frontier(g, names, given):
    """what is missing: the unprovided, undefaulted roots met + every unprovided intermediate between them and the request"""
    prod = producers(g)
    funcs, roots, _ = reach(g, names, given)
    all_defs = set().union(*(f["defs"] for f in g)) if g else set()
    bad = set(roots - all_defs)
    tainted = set()
    for i in sorted(funcs):  # functions are listed in dependency order
        for d in g[i]["deps"]:
            if d in given:
                continue
            if d in bad or (d in prod and prod[d] in tainted):
                tainted.add(i)
    out = set(bad)
    for i in tainted:
        out |= set(g[i]["outs"])
    return out - set(names) - set(given)


def ancestors(g):
    """per function: every node above it in the FULL graph (no cut); a node is a root name or a function index — a function is ONE node,
    whichever of its outputs is consumed"""
    prod = producers(g)
    anc = []
    for f in g:
        a = set()
        for d in f["deps"]:
            if d in prod:
                a.add(prod[d])
                a |= anc[prod[d]]
            else:
                a.add(d)
        anc.append(a)
    return anc


def predicates(g, names, given):
    """case-class predicates for signatures (all derived from the reference side)"""
    prod = producers(g)
    funcs, roots, _ = reach(g, names, given)
    anc = ancestors(g)
    nodes = {prod.get(n, n) for n in given}  # the nodes that carry a provided name
    all_defs = set().union(*(f["defs"] for f in g)) if g else set()
    return {
        # a selected function with no provided node above it: nullary, or everything above it is defaulted / bound / not provided
        "orphan_dep": any(not (anc[i] & nodes) for i in funcs),
        # a root of the selection that is left to its default
        "default_unprovided": bool(roots & all_defs),
        # a provided intermediate whose producer lies below another provided node
        "shadowed_producer": any(n in prod and (anc[prod[n]] & nodes) for n in given),
    }


def irredundant(g, names, candidates):
    for r in range(len(candidates) + 1):
        for given in itertools.combinations(candidates, r):
            gs = set(given)
            if reach(g, names, gs)[2] == gs:
                yield given


def requests(g, all_roots):
    """(S names, I, 'pos'|'neg') — every S, every irredundant I that is not a MUST-reject, every one-name deletion that is"""
    outs = [o for f in g for o in f["outs"]]
    free_names = sorted(set(all_roots) | set(outs))
    for r in range(1, len(outs) + 1):
        for names in itertools.combinations(outs, r):
            cand = [n for n in free_names if n not in names]
            negs = set()
            for given in irredundant(g, names, cand):
                if classify(g, names, set(given))[0] == "reject":
                    continue
                yield list(names), list(given), "pos"
                for k in range(len(given)):
                    less = given[:k] + given[k + 1:]
                    if less not in negs and classify(g, names, set(less))[0] == "reject":
                        negs.add(less)
                        yield list(names), list(less), "neg"


def spellings(spec, names):
    """S as given to pipefunc: by member names, and (if a tuple-output function is requested completely) with that function named by its tuple"""
    yield list(names)
    alt, changed, ns = [], False, set(names)
    done = set()
    for f in spec["funcs"]:
        if len(f["outs"]) > 1 and set(f["outs"]) <= ns:
            alt.append(list(f["outs"]))
            done |= set(f["outs"])
            changed = True
    if changed:
        yield alt + [n for n in names if n not in done]


def leaves(g):
    consumed = {d for f in g for d in f["deps"]}
    return {i for i, f in enumerate(g) if not (set(f["outs"]) & consumed)}


def auto_applies(g, names, given):
    """map(auto_subpipeline=True) without output_names: the outputs are 'all leaf nodes' by the documentation and 'the leaves downstream of the
    given inputs' by the repository's test_subpipeline; the entry is exercised where both readings select S"""
    prod = producers(g)
    lv = leaves(g)
    if {prod[n] for n in names} != lv:
        return False
    anc = ancestors(g)
    nodes = {prod.get(n, n) for n in given}
    return all(anc[i] & nodes for i in lv)


_SEG = re.compile(r"`([^`]*)`|'([^']*)'|\"([^\"]*)\"")
_TOK = re.compile(r"[A-Za-z_][A-Za-z_0-9]*")


def names_in_message(msg: str) -> set:
    segs = ["".join(m) for m in _SEG.findall(msg)]
    return set(_TOK.findall(" ".join(segs) if segs else msg))


# ------------------------------------------------------------------------------------------------
# executing one request
# ------------------------------------------------------------------------------------------------
def _s_objs(s_list):
    return [tuple(s) if isinstance(s, (list, tuple)) else s for s in s_list]


def _flat(s_list):
    out = []
    for s in s_list:
        out.extend(s if isinstance(s, (list, tuple)) else [s])
    return out


def _exc_sig(kind, e):
    site = findings.exc_site(e)
    return {"kind": kind, "exc": type(e).__name__, "site": site, "at": f"{type(e).__name__}@{site}"}  # 'at' lets an entry list exact pairs


class _Ctx:
    """collects verdicts of one request"""

    def __init__(self, fam, g, names, given, s_list):
        self.fam, self.g, self.names, self.given, self.s_list = fam, g, names, set(given), s_list
        self.cls, self.why = classify(g, names, self.given)
        self.pred = {**predicates(g, names, self.given), "unconstrained": self.why}
        self.res = []
        self.outcomes = []

    def where(self):
        return f"S={self.s_list} I={sorted(self.given)}"

    def add(self, sig, text):
        self.res.append(({**sig, **self.pred}, text))

    def raised(self, entry, e, cls, front, step=None):
        """an exception from an entry point under demand level `cls`"""
        self.outcomes.append(f"{entry}:{type(e).__name__}")
        if cls == "must":
            self.add(_exc_sig("exception", e), f"{entry}: computable request {self.where()} refused{' at ' + step if step else ''}: "
                                                         f"{type(e).__name__}: {str(e)[:200]}")
        elif cls == "reject":
            if not (names_in_message(str(e)) & front):
                self.add(_exc_sig("rejection-names-nothing-missing", e),
                         f"{entry}: {self.where()} is rejected but the message names none of {sorted(front)}: {type(e).__name__}: {str(e)[:200]}")

    def answered(self, entry, cls):
        self.outcomes.append(f"{entry}:ok")
        if cls == "reject":
            self.add({"kind": "accepted-not-computable"}, f"{entry}: {self.where()} is not computable (missing {sorted(frontier(self.g, self.names, self.given))}) but was answered")
            return False
        return True

    def log(self, entry, want_names=None, want_calls=None):
        got = list(terms.LOG)
        if want_calls is not None:
            ok = sorted(got) == sorted(want_calls)
            want_names = [n for n, _ in want_calls]
        else:
            ok = sorted(n for n, _ in got) == sorted(want_names)
        if not ok:
            gn, wn = [n for n, _ in got], list(want_names)
            extra, miss = set(gn) - set(wn), set(wn) - set(gn)
            how = "both" if extra and miss else "ran-unneeded" if extra else "skipped-needed" if miss else "count-or-arguments"
            self.add({"kind": "call-log-mismatch", "log": how},
                     f"{entry}: {self.where()} executed {sorted(gn)}, the selection needs {sorted(wn)}")


def run_dag(case, p=None):  # noqa: C901, PLR0912, PLR0915
    spec, s_list, given = case["spec"], case["S"], list(case["I"])

    g = view(spec, "dag")
    names = _flat(s_list)
    cx = _Ctx("dag", g, names, given, s_list)
    if spec.get("deco") == "two-defaults-on-one-produced-name" and "o0" in given and {"o1", "o2"} <= set(names):
        return cx  # both consumers kept with their producer cut away: o0 is then a root with two defaults (ill-formed by the library's rule)
    prod = producers(g)
    if p is None:
        p = gen_dag.build(spec)
    vals = {n: f"<{n}>" for n in given}
    s_objs = _s_objs(s_list)
    funcs, _, _ = reach(g, names, cx.given)
    front = frontier(g, names, cx.given)
    want_names = [g[i]["name"] for i in funcs]

    # ---- subpipeline, then one call per requested output ---------------------------------------
    sp = None
    try:
        sp = _quiet(p.subpipeline, inputs=set(given), output_names=set(s_objs))
    except Exception as e:  # noqa: BLE001
        cx.raised("sub-call", e, cx.cls, front, "subpipeline()")
    if sp is not None and cx.cls == "reject":
        # the request is subpipeline(I, S) itself: it is what has to be refused (not only a later call of the returned pipeline)
        cx.add({"kind": "accepted-not-computable", "entry": "subpipeline()"},
               f"subpipeline(): {cx.where()} is not computable (missing {sorted(front)}) but a pipeline was returned")
        sp = None
    if sp is not None:
        for s in s_objs:
            sn = list(s) if isinstance(s, tuple) else [s]
            _, _, us = reach(g, sn, cx.given)
            kw = {n: vals[n] for n in sorted(us)}
            cls_s = classify(g, sn, us)[0]
            if cx.cls == "reject" and cls_s != "reject":
                continue  # the request as a whole is refused; what happens to its computable members is not constrained
            if cx.cls == "free" and cls_s == "must":
                cls_s = "free"  # the subpipeline was cut for the whole (unconstrained) request
            terms.LOG.clear()
            try:
                got = _quiet(sp, s, **kw)
            except Exception as e:  # noqa: BLE001
                cx.raised("sub-call", e, cls_s, frontier(g, sn, us), f"the call for {s!r}")
                continue
            if not cx.answered("sub-call", cls_s):
                continue
            ref = gen_dag.ref_eval(spec, s, kw)
            assert set(ref.ran) == reach(g, sn, us)[0], "selection reference and DAG evaluator disagree"
            if got != ref.value:
                cx.add({"kind": "value-mismatch"}, f"sub-call: {cx.where()}: {s!r} = {got!r}, the full pipeline gives {ref.value!r}")
            cx.log("sub-call", [g[i]["name"] for i in ref.ran])

    # ---- map(output_names=S) and map(auto_subpipeline=True) ------------------------------------
    entries = [("map", {"output_names": set(s_objs), "auto_subpipeline": any(n in prod for n in given)})]
    if auto_applies(g, names, cx.given):
        entries.append(("auto", {"auto_subpipeline": True}))
    for entry, kw in entries:
        terms.LOG.clear()
        try:
            r = _quiet(p.map, dict(vals), parallel=False, storage="dict", **kw)
        except Exception as e:  # noqa: BLE001
            cx.raised(entry, e, cx.cls, front)
            continue
        if not cx.answered(entry, cx.cls):
            continue
        for n in names:
            want = gen_dag.ref_eval(spec, n, vals).value
            if n not in r:
                cx.add({"kind": "output-missing"}, f"{entry}: {cx.where()}: answered without {n!r} (result keys {sorted(r)}, executed {sorted(k for k, _ in terms.LOG)})")
                break
            if r[n].output != want:
                cx.add({"kind": "value-mismatch"}, f"{entry}: {cx.where()}: {n} = {r[n].output!r}, the full pipeline gives {want!r}")
                break
        else:
            cx.log(entry, want_names)

    # ---- the same map request twice on ONE pipeline object with a replace() in between: a selection that is remembered per
    #      pipeline object (and name sets) must not outlive a change of that object ---------------------------------------
    if cx.cls == "must" and funcs:
        import copy as _copy
        fi = sorted(funcs)[-1]
        spec2 = _copy.deepcopy(spec)
        spec2["funcs"][fi]["tag"] = "r" + spec["funcs"][fi]["name"][1:]
        kw = {"output_names": set(s_objs), "auto_subpipeline": any(n in prod for n in given)}
        try:
            p3 = p.copy()
            _quiet(p3.map, dict(vals), parallel=False, storage="dict", **kw)
            _quiet(p3.replace, gen_dag.build_funcs(spec2)[fi])
            r = _quiet(p3.map, dict(vals), parallel=False, storage="dict", **kw)
        except Exception as e:  # noqa: BLE001
            cx.raised("map-replace-map", e, cx.cls, front)
        else:
            for n in names:
                want = gen_dag.ref_eval(spec2, n, vals).value
                if n not in r or r[n].output != want:
                    cx.add({"kind": "value-mismatch" if n in r else "output-missing"},
                           f"map-replace-map: {cx.where()}: after replacing {spec['funcs'][fi]['name']} the same request gives {n} = {r[n].output if n in r else None!r}, the changed pipeline gives {want!r}")
                    break

    # ---- the same map request with None as the value of every provided name (a provided None is a value; a default of the
    #      consumer must not replace it) - for pipelines that have defaults ------------------------------------------------
    if vals and cx.cls != "free" and any(f.get("sigdef") or f.get("pfdef") for f in spec["funcs"]):
        nones = dict.fromkeys(vals)
        terms.LOG.clear()
        try:
            r = _quiet(p.map, dict(nones), parallel=False, storage="dict", output_names=set(s_objs), auto_subpipeline=any(n in prod for n in given))
        except Exception as e:  # noqa: BLE001
            cx.raised("map-none-values", e, cx.cls, front)
        else:
            if cx.answered("map-none-values", cx.cls):
                for n in names:
                    want = gen_dag.ref_eval(spec, n, nones).value
                    if n not in r or r[n].output != want:
                        cx.add({"kind": "value-mismatch" if n in r else "output-missing"},
                               f"map-none-values: {cx.where()}: with None provided for {sorted(nones)}, {n} = {r[n].output if n in r else None!r}, the full pipeline gives {want!r}")
                        break

    # ---- the same map request on a scoped copy, the inputs given per scope: {"s": {name: value}} -------
    if cx.cls != "free":
        terms.LOG.clear()
        try:
            p2 = p.copy()
            _quiet(p2.update_scope, "s", inputs="*", outputs="*")
        except Exception:  # noqa: BLE001  (what update_scope does is C10's business)
            p2 = None
        if p2 is not None:
            def sc(x):
                return tuple("s." + y for y in x) if isinstance(x, tuple) else "s." + x
            try:
                r = _quiet(p2.map, {"s": dict(vals)} if vals else {}, parallel=False, storage="dict", output_names={sc(x) for x in s_objs},
                           auto_subpipeline=any(n in prod for n in given))
            except Exception as e:  # noqa: BLE001
                cx.raised("map-scoped-nested-inputs", e, cx.cls, front)
            else:
                if cx.answered("map-scoped-nested-inputs", cx.cls):
                    for n in names:
                        want = gen_dag.ref_eval(spec, n, vals).value
                        if "s." + n not in r or r["s." + n].output != want:
                            cx.add({"kind": "value-mismatch" if "s." + n in r else "output-missing"},
                                   f"map-scoped-nested-inputs: {cx.where()}: s.{n} = {r['s.' + n].output if 's.' + n in r else None!r}, the full pipeline gives {want!r}")
                            break
                    else:
                        cx.log("map-scoped-nested-inputs", want_names)
    return cx


# ---- map family -----------------------------------------------------------------------------------
def _f(name, params, ms, out_axes, internal, outs, via="pipefunc"):
    return {"name": name, "params": params, "ms": ms, "out_axes": out_axes, "internal": internal, "outs": outs, "ishape_via": via}


HAND = dict(c03.PIPES)
HAND["nullary-generator-outer"] = {"roots": {"x": ["i"]}, "sizes": c03.S2, "funcs": [
    _f("f", [], {}, ["u"], ["u"], ["v"]), _f("g", ["v", "x"], {"v": ["u"], "x": ["i"]}, ["u", "i"], [], ["w"])]}
HAND["nullary-scalar-then-map-reduce"] = {"roots": {"x": ["i"]}, "sizes": c03.S2, "funcs": [
    _f("f", [], None, [], [], ["k"]), _f("g", ["x", "k"], {"x": ["i"]}, ["i"], [], ["a"]), _f("h", ["a"], None, [], [], ["c"])]}


def marker(spec, name):
    axes = gen_map.output_axes(spec)[name]
    shape = tuple(spec["sizes"][a] for a in axes)
    if not shape:
        return f"<{name}>"
    arr = np.empty(shape, dtype=object)
    for idx in itertools.product(*map(range, shape)):
        arr[idx] = f"<{name}>" + "".join(map(str, idx))
    return arr


def run_map(case, p=None):  # noqa: C901, PLR0912
    spec, s_list, given = case["spec"], case["S"], list(case["I"])
    g = view(spec, "map")
    names = _flat(s_list)
    cx = _Ctx("map", g, names, given, s_list)
    prod = producers(g)
    if p is None:
        p = gen_map.build(spec)
    root_vals = gen_map.make_inputs(spec, "auto")
    vals = {n: (root_vals[n] if n in root_vals else marker(spec, n)) for n in given}
    s_objs = _s_objs(s_list)
    funcs, _, _ = reach(g, names, cx.given)
    front = frontier(g, names, cx.given)
    env = calls = None
    if cx.cls != "reject":
        # the denotation of the selected functions, one at a time, never overwriting a provided name (a provided member of a tuple output
        # stays substituted while its sibling is computed)
        env, calls = dict(vals), {}
        for i in sorted(funcs):
            e1, c1 = gen_map.ref_map({"roots": {}, "sizes": spec["sizes"], "funcs": [spec["funcs"][i]]}, env)
            for o in spec["funcs"][i]["outs"]:
                if o not in cx.given:
                    env[o] = e1[o]
            calls.update(c1)
    ish = gen_map.internal_shapes_arg(spec) or {}
    ish = {o: v for o, v in ish.items() if prod[o] in funcs} or None
    want_calls = [(n, a) for n, args in (calls or {}).items() for a in args]

    def fresh_inputs():
        return {n: (v.copy() if isinstance(v, np.ndarray) else (list(v) if isinstance(v, list) else v)) for n, v in vals.items()}

    entries = [("map", lambda: p.map(fresh_inputs(), output_names=set(s_objs), internal_shapes=ish, parallel=False, storage="dict",
                                     auto_subpipeline=any(n in prod for n in given)))]
    if auto_applies(g, names, cx.given):
        entries.append(("auto", lambda: p.map(fresh_inputs(), internal_shapes=ish, parallel=False, storage="dict", auto_subpipeline=True)))
    if case.get("sub_map", True):
        entries.append(("sub-map", lambda: p.subpipeline(inputs=set(given), output_names=set(s_objs)).map(
            fresh_inputs(), internal_shapes=ish, parallel=False, storage="dict")))
    for entry, call in entries:
        terms.LOG.clear()
        try:
            r = _quiet(call)
        except Exception as e:  # noqa: BLE001
            cx.raised(entry, e, cx.cls, front)
            continue
        if not cx.answered(entry, cx.cls):
            continue
        for n in names:
            if n not in r:
                cx.add({"kind": "output-missing"}, f"{entry}: {cx.where()}: answered without {n!r} (result keys {sorted(r)}, executed {sorted({k for k, _ in terms.LOG})})")
                break
            got = r[n].output
            if terms.T(got) != terms.T(env[n]) or tuple(np.shape(got)) != tuple(np.shape(env[n])):
                cx.add({"kind": "value-mismatch"}, f"{entry}: {cx.where()}: {n} = {terms.T(got)[:160]}, the denotation with the provided "
                                                                    f"arrays substituted gives {terms.T(env[n])[:160]}")
                break
        else:
            cx.log(entry, want_calls=want_calls)
    return cx


def run_case(case, p=None):
    cx = run_dag(case, p) if case["fam"] == "dag" else run_map(case, p)
    return cx


# ------------------------------------------------------------------------------------------------
# enumeration: stages, units
# ------------------------------------------------------------------------------------------------
SEMANTIC_DECOS = ("sigdef", "pfdef", "bound-root", "bound-upstream", "shared-default", "sigdef-on-produced")
RENAMES = ("rename-param", "rename-output")


def _ntuples(spec):
    return sum(len(f["outs"]) > 1 for f in spec["funcs"])


def dag_specs(stage):  # noqa: C901, PLR0912
    if stage == "dag-N1":
        for s in gen_dag.base_specs(1):
            yield s
            yield from gen_dag.decorations(s)
    elif stage == "dag-N2":
        yield from gen_dag.base_specs(2)
    elif stage == "dag-N2-three-output-producer":
        yield from gen_dag.tri_output_specs()
        # two consumers of ONE produced name that declare DIFFERENT signature defaults for it (never used in the full pipeline;
        # a selection that cuts the producer away and keeps one consumer is valid)
        yield {"funcs": [{"name": "f0", "params": ["x"], "outs": ["o0"]},
                         {"name": "f1", "params": ["o0"], "outs": ["o1"], "sigdef": {"o0": "d1"}},
                         {"name": "f2", "params": ["o0", "y"], "outs": ["o2"], "sigdef": {"o0": "d2"}}], "deco": "two-defaults-on-one-produced-name"}
    elif stage == "dag-N2-decorated":
        for s in gen_dag.base_specs(2):
            for d in gen_dag.decorations(s):
                if d["deco"] in SEMANTIC_DECOS:
                    yield d
    elif stage == "dag-N2-renamed":
        for s in gen_dag.base_specs(2):
            for d in gen_dag.decorations(s):
                if d["deco"] in RENAMES:
                    yield d
    elif stage == "dag-N3-le1-tuple":
        for s in gen_dag.base_specs(3):
            if _ntuples(s) <= 1:
                yield s
    elif stage == "dag-N3-ge2-tuples":
        for s in gen_dag.base_specs(3):
            if _ntuples(s) >= 2:
                yield s
    elif stage == "dag-N3-decorated-single-output":
        for s in gen_dag.base_specs(3, nouts=(1,)):
            for d in gen_dag.decorations(s):
                if d["deco"] in SEMANTIC_DECOS:
                    yield d
    elif stage == "dag-N3-decorated-one-tuple":
        for s in gen_dag.base_specs(3):
            if _ntuples(s) == 1:
                for d in gen_dag.decorations(s):
                    if d["deco"] in SEMANTIC_DECOS:
                        yield d
    else:
        raise ValueError(stage)


def _third_layer(s2):
    """the third layer of gen_map.pipelines for one 2-function pipeline"""
    ax2 = gen_map.output_axes(s2)
    for extra3 in (None, "a"):
        avail3 = {"c": ax2["c"]}
        if extra3:
            avail3["a"] = ax2["a"]
        for f3 in gen_map.functions_over(avail3, "h", [("d",)], gen_map._used_axes(s2["roots"], s2["funcs"]), ["m"], 1, False,
                                         must_use=list(avail3), no_ms_internal=False):
            yield {"roots": s2["roots"], "sizes": s2["sizes"], "funcs": [*s2["funcs"], f3]}


def _first_roots(spec):
    return {r: a for r, a in spec["roots"].items() if r != "z"}


def map_specs(stage):
    if stage == "map-hand":
        for k in HAND:
            yield HAND[k]
    elif stage == "gmap-1":
        yield from gen_map.pipelines(1, "quick")
    elif stage == "gmap-2-over-x[i]":
        for s in gen_map.pipelines(2, "quick"):
            if len(s["funcs"]) == 2 and _first_roots(s) == {"x": ["i"]}:
                yield s
    elif stage == "gmap-2-rest":
        for s in gen_map.pipelines(2, "quick"):
            if len(s["funcs"]) == 2 and _first_roots(s) != {"x": ["i"]}:
                yield s
    elif stage == "gmap-3-over-x[i]":
        # 3-function pipelines over the single root x[i] whose first function has no internal axis
        for s in gen_map.pipelines(2, "quick"):
            if len(s["funcs"]) == 2 and s["roots"] == {"x": ["i"]} and not s["funcs"][0]["internal"]:
                yield from _third_layer(s)
    else:
        raise ValueError(stage)


STAGES = {
    "quick": ["dag-N1", "dag-N2", "dag-N2-three-output-producer", "map-hand", "dag-N2-decorated", "gmap-1", "dag-N3-le1-tuple", "gmap-2-over-x[i]"],
    "thorough": ["dag-N1", "dag-N2", "dag-N2-three-output-producer", "map-hand", "dag-N2-decorated", "gmap-1", "dag-N3-le1-tuple", "gmap-2-over-x[i]", "dag-N2-renamed",
                 "dag-N3-ge2-tuples", "dag-N3-decorated-single-output", "gmap-2-rest", "dag-N3-decorated-one-tuple", "gmap-3-over-x[i]"],
}
NCHUNK = {"dag-N2-three-output-producer": 8, "dag-N1": 2, "dag-N2": 8, "dag-N2-decorated": 24, "dag-N2-renamed": 16, "map-hand": 7, "gmap-1": 8, "dag-N3-le1-tuple": 96,
          "gmap-2-over-x[i]": 32, "dag-N3-ge2-tuples": 400, "dag-N3-decorated-single-output": 64, "gmap-2-rest": 480,
          "dag-N3-decorated-one-tuple": 600, "gmap-3-over-x[i]": 240}


def plan(tier, seed):
    out = []
    for st in STAGES[tier]:
        n = NCHUNK[st]
        us = [(st, (st, c, n)) for c in range(n)]
        r = seed % n
        out.extend(us[r:] + us[:r])
    return out


def _nontrivial_key(spec_key, cx, s_list, given):
    g = cx.g
    funcs = reach(g, cx.names, cx.given)[0]
    prod = producers(g)
    cuts = any(n in prod for n in given)
    if cuts or len(funcs) < len(g) or cx.cls == "reject":
        return (spec_key, str(s_list), tuple(given))
    return None


def run_spec(fam, spec, acc, sub_map=True):  # noqa: C901, PLR0912
    g = view(spec, fam)
    try:
        p = gen_dag.build(spec) if fam == "dag" else gen_map.build(spec)
    except Exception:  # noqa: BLE001
        acc.notes["construction-failed (C01/C02's business)"] += 1
        return
    if fam == "map":
        # the unrestricted run must agree with the denotation, otherwise the pipeline is C01's business
        inputs = gen_map.make_inputs(spec, "auto")
        env, _ = gen_map.ref_map(spec, inputs)
        try:
            r = _quiet(p.map, dict(inputs), internal_shapes=gen_map.internal_shapes_arg(spec), parallel=False, storage="dict")
            ok = all(terms.T(r[o].output) == terms.T(env[o]) for f in spec["funcs"] for o in f["outs"])
        except Exception:  # noqa: BLE001
            ok = False
        if not ok:
            acc.notes["unrestricted map differs from the denotation (C01's business)"] += 1
            return
        roots = list(spec["roots"])
        feats = gen_map.features(spec)
    else:
        roots = sorted({d for f in g for d in f["deps"]} - set(producers(g)))
        feats = gen_dag.features(spec)
    acc.stratum(f"{fam}-pipelines")
    for ft in feats:
        acc.stratum(f"{fam}-pipelines-with-{ft}")
    if any(not f["deps"] for f in g):
        acc.stratum(f"{fam}-pipelines-with-parameterless-function")
    skey = gen_dag._key(spec)
    prod = producers(g)
    nsample = 0
    for names, given, _pol in requests(g, roots):
        for s_list in spellings(spec, names):
            case = {"fam": fam, "spec": spec, "S": s_list, "I": given}
            if fam == "map" and not sub_map:
                case["sub_map"] = False
            cx = run_case(case, p)
            acc.case(_nontrivial_key(skey, cx, s_list, given))
            acc.stratum(f"{fam}-requests-{cx.cls}" + (f"-{cx.why}" if cx.why else ""))
            kinds = {("interior" if n in prod else "root") for n in given}
            acc.stratum(f"{fam}-cut-" + ("empty" if not kinds else "mixed" if len(kinds) == 2 else kinds.pop() + "-only"))
            if any(isinstance(s, list) for s in s_list):
                acc.stratum(f"{fam}-S-names-a-tuple")
            for k, v in cx.pred.items():
                if v is True:
                    acc.stratum(f"{fam}-requests-with-{k}")
            for o in cx.outcomes:
                acc.outcome(f"{fam}:{cx.cls}:{o}")
            for sig, text in cx.res:
                acc.violation(sig, case, text)
            if nsample < 1 and cx.cls == "must" and any(n in prod for n in given) and len(names) > 1:
                nsample += 1
                acc.sample({"fam": fam, "funcs": [(f["name"], f["deps"], f["outs"]) for f in g], "S": s_list, "I": given})


def run_unit(unit):
    st, c, n = unit
    acc = Acc()
    fam = "dag" if st.startswith("dag") else "map"
    it = dag_specs(st) if fam == "dag" else map_specs(st)
    for k, spec in enumerate(it):
        if k % n == c:
            run_spec(fam, spec, acc, sub_map=st in ("map-hand", "gmap-1", "gmap-2-over-x[i]"))
    return acc


def replay(art):
    return [s for s, _ in run_case(art).res]
