"""C20 — Resources combine monotonically and without side effects (DESIGN.md §5 C20).

Bounded-exhaustive enumeration of Resources values and operand lists against a reference arithmetic
(own memory/duration parsers)."""
from __future__ import annotations

import copy
import itertools
import re

from pipefunc.resources import Resources

from ..acc import Acc

ID = "C20"
LEVEL = "exploration"
TECHNIQUE = "bounded-exhaustive enumeration of Resources values / operand lists against a reference arithmetic"
RULE = ("all pairs over a 1440-value product alphabet (structure x gpus x memory x time x partition x extra_args) for "
        "combine_max/with_defaults/maybe_with_defaults; all operand lists of length 1..3 (thorough 4) over per-quantity "
        "focus alphabets; update with every field and an unknown key; from_dict/dict round trip; to_slurm_options; NestedPipeFunc resources >= its children's (6x6 child resources, nested directly and through Pipeline(default_resources in 3 values).nest_funcs); invalid "
        "constructions by single-edit mutation. non-trivial = distinct operand list in which at least two operands set the "
        "same quantity to different values (a real max/precedence decision) or a side-effect probe on a non-empty extra_args")
ASSUMPTIONS = ["memory units are decimal (1 KB = 1000 B), as documented by Resources._convert_to_gb",
               "wall time is [[D:]HH:]MM:SS read from the right",
               "gpus=0 denotes 'no request' for to_slurm_options"]
BUDGET = {"quick": 60.0, "thorough": 600.0}

STRUCT = [{}, {"cpus": 1}, {"cpus": 10}, {"nodes": 2}, {"nodes": 2, "cpus_per_node": 2}]
GPUS = [None, 0, 2]
MEM = [None, "500MB", "2GB", "1024MB"]
MEM_FULL = [None, "500MB", "2GB", "1.5GB", "1024MB", "1TB", "900B", "3kb", "1500MB", "0.5PB", "100B", "1.2KB", "1.4KB"]  # sizes below 1 KB and two that differ by < 1 KB
TIME = [None, "30:00", "2:00:00", "10:00:00"]
def _spellings(seconds):
    """every valid spelling of a duration: MM:SS (< 100 min), H:MM:SS / HH:MM:SS (hours unbounded), D:HH:MM:SS (hours < 100)"""
    out = []
    m, sec = divmod(seconds, 60)
    if m < 100:
        out.append(f"{m:02d}:{sec:02d}")
    h, mm = divmod(m, 60)
    out.append(f"{h}:{mm:02d}:{sec:02d}")
    if h < 10:
        out.append(f"{h:02d}:{mm:02d}:{sec:02d}")
    d, hh = divmod(h, 24)
    if d:
        out.append(f"{d}:{hh:02d}:{mm:02d}:{sec:02d}")
    if d >= 1 and hh + 24 < 100:
        out.append(f"{d - 1}:{hh + 24:02d}:{mm:02d}:{sec:02d}")  # e.g. 0:30:00:00 — hours field above 23 is accepted by the format
    return out


# durations chosen around every unit boundary (1 h, 24 h, and 60 h = where a wrong day factor of 60**3 would land)
DURATIONS = [30 * 60, 99 * 60 + 59, 2 * 3600, 10 * 3600, 24 * 3600, 25 * 3600 + 123, 30 * 3600, 48 * 3600, 59 * 3600, 61 * 3600, 100 * 3600]
TIME_FULL = [None] + sorted({s for d in DURATIONS for s in _spellings(d)})
PART = [None, "p"]
EXTRA = [{}, {"a": 1}, {"a": 3}]  # two values for one key: a real precedence decision in with_defaults
EXTRA_FULL = [{}, {"a": 1}, {"b": 2}, {"a": 3}]


def mem_bytes(s):
    m = re.fullmatch(r"(\d+(?:\.\d+)?)([KMGTP]?)B", s.upper())
    return float(m.group(1)) * 1000 ** " KMGTP".index(m.group(2) or " ")


def dur_s(s):
    parts = [int(p) for p in s.split(":")]
    return sum(p * f for p, f in zip(reversed(parts), (1, 60, 3600, 86400)))


def mk(kw):
    return Resources(**copy.deepcopy(kw))


def med_alphabet():
    out = []
    for st, g, m, t, p, e in itertools.product(STRUCT, GPUS, MEM, TIME, PART, EXTRA):
        kw = dict(st)
        if g is not None:
            kw["gpus"] = g
        if m:
            kw["memory"] = m
        if t:
            kw["time"] = t
        if p:
            kw["partition"] = p
        if e:
            kw["extra_args"] = dict(e)
        out.append(kw)
    return out


BACKGROUNDS = [{}, {"cpus": 2, "memory": "2GB", "time": "2:00:00", "extra_args": {"a": 1}},
               {"nodes": 2, "gpus": 1, "partition": "q", "extra_args": {"b": 2}}]


def focus_alphabet(q):
    vals = {"cpus": [None, 1, 2, 10], "gpus": [None, 0, 1, 2], "memory": MEM_FULL, "time": TIME_FULL}[q]
    out = []
    for v in vals:
        for bg in BACKGROUNDS:
            kw = copy.deepcopy(bg)
            if q == "cpus" and "nodes" in kw:
                if v is not None:
                    continue
            if v is None:
                kw.pop(q, None)
            else:
                kw[q] = v
            out.append(kw)
    return out


# ------------------------------------------------------------------------------------------------
def snap(r):
    return (repr(r), repr(sorted(r.extra_args.items())), id(r.extra_args))


def check_combine(ops_kw):
    """returns list of (sig, text)"""
    out = []
    ops = [mk(k) for k in ops_kw]
    before = [snap(o) for o in ops]
    try:
        res = Resources.combine_max(ops)
    except Exception as e:  # noqa: BLE001
        return [({"kind": "exception", "op": "combine_max", "exc": type(e).__name__}, f"combine_max({ops_kw}) raised {e!r}")]
    for q, measure in (("cpus", lambda v: v), ("gpus", lambda v: v), ("memory", mem_bytes), ("time", dur_s)):
        have = [getattr(o, q) for o in ops if getattr(o, q) is not None]
        if not have:
            continue
        got = getattr(res, q)
        if got is None or any(measure(got) < measure(h) for h in have):
            out.append(({"kind": "not-max", "op": "combine_max", "quantity": q},
                        f"combine_max({ops_kw}).{q} = {got!r} is smaller than an operand ({have})"))
    if [snap(o) for o in ops] != before:
        out.append(({"kind": "operand-mutated", "op": "combine_max"}, f"combine_max mutated an operand: {ops_kw}"))
    return out


QUANT = ("cpus", "cpus_per_node", "nodes", "memory", "gpus", "time", "partition")


def _child(name, param, out, kw):
    ns: dict = {}
    exec(f"def {name}({param}):\n    return {param}\n", ns)  # noqa: S102
    from pipefunc import PipeFunc
    return PipeFunc(ns[name], out, resources=mk(kw) if kw else None)


def check_nested(a_kw, b_kw, d_kw, how):
    """NestedPipeFunc resources = the maximum of its children's: two chained functions with resources A and B, nested
    directly (how='ctor') or through Pipeline(default_resources=D).nest_funcs('*') (how='nest_funcs')"""
    import contextlib, io
    from pipefunc import NestedPipeFunc, Pipeline
    out = []
    try:
        with contextlib.redirect_stdout(io.StringIO()):
            f1, f2 = _child("f1", "x", "y", a_kw), _child("f2", "y", "z", b_kw)
            if how == "ctor":
                kids = [f1, f2]
                nested = NestedPipeFunc(kids)
            else:
                p = Pipeline([f1, f2], default_resources=mk(d_kw) if d_kw else None)
                kids = list(p.functions)  # their resources include the pipeline defaults
                kid_res = [k.resources for k in kids]
                nested = p.nest_funcs("*")
                kids = None
        res = nested.resources
        kid_res = [k.resources for k in kids] if kids is not None else kid_res
    except Exception as e:  # noqa: BLE001
        clash = any(("cpus" in x and "nodes" in y) or ("nodes" in x and "cpus" in y) for x in (a_kw, b_kw, d_kw or {}) for y in (a_kw, b_kw, d_kw or {}))
        if isinstance(e, ValueError) and clash:
            return []
        return [({"kind": "exception", "op": "nested-" + how, "exc": type(e).__name__}, f"nesting f1({a_kw}) and f2({b_kw}) [{how}, defaults {d_kw}] raised {e!r}")]
    kid_res = [r for r in kid_res if r is not None]
    for q, measure in (("cpus", lambda v: v), ("gpus", lambda v: v), ("memory", mem_bytes), ("time", dur_s)):
        have = [getattr(r, q) for r in kid_res if getattr(r, q) is not None]
        if not have:
            continue
        got = getattr(res, q, None) if res is not None else None
        if got is None or any(measure(got) < measure(h) for h in have):
            out.append(({"kind": "not-max", "op": "nested-" + how, "quantity": q},
                        f"NestedPipeFunc of f1({a_kw}) and f2({b_kw}) [{how}, pipeline defaults {d_kw}] has {q} = {got!r}, smaller than a child's ({have})"))
    return out


def check_defaults(a_kw, b_kw, via):
    out = []
    a, b = mk(a_kw), mk(b_kw)
    before = (snap(a), snap(b))
    try:
        res = a.with_defaults(b) if via == "with_defaults" else Resources.maybe_with_defaults(a, b)
    except ValueError:
        # mutually exclusive cpus/nodes clash between receiver and defaults: unconstrained by the statement
        clash = (("cpus" in a_kw) and ("nodes" in b_kw)) or (("nodes" in a_kw) and ("cpus" in b_kw)) or \
                ("cpus_per_node" in b_kw and "nodes" not in a_kw and "cpus" in a_kw)
        if clash:
            return out
        return [({"kind": "exception", "op": via, "exc": "ValueError"}, f"{via}({a_kw}, {b_kw}) raised ValueError without a cpus/nodes clash")]
    except Exception as e:  # noqa: BLE001
        return [({"kind": "exception", "op": via, "exc": type(e).__name__}, f"{via}({a_kw}, {b_kw}) raised {e!r}")]
    for q in QUANT:
        va, vb, vr = getattr(a, q), getattr(b, q), getattr(res, q)
        if va is not None and vr != va:
            out.append(({"kind": "receiver-overridden", "op": via, "quantity": q}, f"{via}: receiver {a_kw} lost {q}={va!r} (got {vr!r}) with defaults {b_kw}"))
        if va is None and vb is not None and vr != vb:
            out.append(({"kind": "default-not-filled", "op": via, "quantity": q}, f"{via}: unset {q} not filled from defaults {b_kw} (receiver {a_kw}, got {vr!r})"))
        if va is None and vb is None and vr is not None:
            out.append(({"kind": "invented", "op": via, "quantity": q}, f"{via}: {q}={vr!r} came from nowhere ({a_kw}, {b_kw})"))
    if a.extra_args and res.extra_args != a.extra_args and not all(res.extra_args.get(k) == v for k, v in a.extra_args.items()):
        out.append(({"kind": "receiver-overridden", "op": via, "quantity": "extra_args"}, f"{via}: receiver extra_args lost ({a_kw}, {b_kw})"))
    if (snap(a), snap(b)) != before:
        out.append(({"kind": "operand-mutated", "op": via}, f"{via} mutated an operand ({a_kw}, {b_kw})"))
    return out


UPDATES = [("cpus", 4), ("gpus", 1), ("memory", "8GB"), ("time", "1:00:00"), ("partition", "z"),
           ("extra_args", {"c": 3}), ("foo", 1), ("a", 9)]


def check_update(kw, key, value):
    out = []
    r = mk(kw)
    before = snap(r)
    try:
        res = r.update(**{key: copy.deepcopy(value)})
    except ValueError:
        if key == "cpus" and "nodes" in kw:
            return out
        return [({"kind": "exception", "op": "update", "exc": "ValueError"}, f"update({key}) on {kw} raised ValueError")]
    except Exception as e:  # noqa: BLE001
        return [({"kind": "exception", "op": "update", "exc": type(e).__name__}, f"update({key}) on {kw} raised {e!r}")]
    if snap(r) != before:
        out.append(({"kind": "operand-mutated", "op": "update", "unknown_key": key not in QUANT and key != "extra_args"},
                    f"Resources({kw}).update({key}={value!r}) mutated the receiver: now {r!r}"))
    if key in QUANT:
        if getattr(res, key) != value:
            out.append(({"kind": "update-lost", "op": "update"}, f"update({key}={value!r}) on {kw} gave {getattr(res, key)!r}"))
        for q in QUANT:
            if q != key and getattr(res, q) != getattr(r, q):
                out.append(({"kind": "update-collateral", "op": "update"}, f"update({key}) on {kw} changed {q}"))
    elif key == "extra_args":
        exp = {**kw.get("extra_args", {}), **value}
        if res.extra_args != exp:
            out.append(({"kind": "update-lost", "op": "update"}, f"update(extra_args={value}) on {kw} gave {res.extra_args}"))
    else:
        exp = {**kw.get("extra_args", {}), key: value}
        if res.extra_args != exp:
            out.append(({"kind": "update-lost", "op": "update"}, f"update({key}={value}) on {kw} gave extra_args {res.extra_args}"))
    return out


def check_single(kw):
    out = []
    r = mk(kw)
    try:
        if Resources.from_dict(r.dict()) != r:
            out.append(({"kind": "roundtrip", "op": "from_dict"}, f"from_dict(dict()) != r for {kw}"))
        # from_dict leaves ITS operand (the caller's dict) unchanged: the same dict gives the same Resources again
        import copy as _copy
        d = r.dict()
        d0 = _copy.deepcopy(d)
        a = Resources.from_dict(d)
        if d != d0:
            out.append(({"kind": "operand-mutated", "op": "from_dict"}, f"from_dict changed the dict it was given: {d0} -> {d}"))
        elif Resources.from_dict(d) != a:
            out.append(({"kind": "roundtrip", "op": "from_dict", "second_call": True}, f"from_dict of the same dict twice gives different Resources for {kw}"))
    except Exception as e:  # noqa: BLE001
        out.append(({"kind": "exception", "op": "from_dict", "exc": type(e).__name__}, f"from_dict(dict()) raised for {kw}: {e!r}"))
    toks = r.to_slurm_options().split()
    vals = [t.split("=", 1)[1] for t in toks if "=" in t]
    # every quantity that is set needs a token of its OWN (nodes=2 is not mentioned by "--gres=gpu:2" or by the token
    # that mentions cpus_per_node=2): an injective assignment quantity -> token carrying its value
    need = [(q, getattr(r, q)) for q in QUANT if getattr(r, q) not in (None, 0)]

    def fits(q, v, x):
        return x == f"gpu:{v}" or (x == str(v) and q != "gpus") or (q == "gpus" and x == str(v))

    def assign(i, used):
        if i == len(need):
            return True
        q, v = need[i]
        return any(k not in used and fits(q, v, x) and assign(i + 1, used | {k}) for k, x in enumerate(vals))

    if not assign(0, frozenset()):
        missing = [q for q, v in need if not any(fits(q, v, x) for x in vals)] or [need[-1][0]]
        q = missing[0]
        out.append(({"kind": "slurm-missing", "op": "to_slurm_options", "quantity": q},
                    f"to_slurm_options() of {kw} = {toks} does not mention every set quantity ({dict(need)}) with a token of its own: {q} is missing"))
    for k, v in r.extra_args.items():
        if f"--{k}={v}" not in toks:
            out.append(({"kind": "slurm-missing", "op": "to_slurm_options", "quantity": "extra_args"}, f"to_slurm_options() of {kw} misses --{k}={v}"))
    return out


INVALID = (
    [{"cpus": 1, "nodes": 1}, {"cpus_per_node": 2}, {"cpus_per_node": 2, "cpus": 2}, {"cpus": 0}, {"cpus": -1}, {"nodes": 0},
     {"nodes": -2}, {"gpus": -1}, {"cpus_per_node": 0, "nodes": 1}, {"cpus_per_node": -1, "nodes": 1}]
    + [{"memory": m} for m in ["", "GB", "2", "2XB", "-2GB", "2GBs", "abc", "2..5GB", "2,5GB", "B2", "2G B", "GB2", "2GiB", "1e3MB"]]
    + [{"memory": 2}]
    + [{"time": t} for t in ["", "2", "2:0:00", "2:00:0", "2;00:00", ":00:00", "00:00:", "2:00:00:", "-2:00:00", "2h", "1:2:3",
                             "00", "0:0", "a:00:00", "2:00:00 ", " 2:00:00", "1:1:00:00:00", "2.5:00:00", "12:3"]]
)


# every combination of the three allocation fields over {unset, 1, 2} that the documented rule excludes
# (`nodes` together with `cpus`; `cpus_per_node` without `nodes`)
for _c, _n, _p in itertools.product((None, 1, 2), repeat=3):
    if (_n and _c) or (_p and not _n):
        _kw = {k: v for k, v in (("cpus", _c), ("nodes", _n), ("cpus_per_node", _p)) if v is not None}
        if _kw not in INVALID:
            INVALID.append(_kw)
INVALID += [{"memory": m} for m in ["2 GB", " 2GB", "2GB ", "1 024MB"]]


def check_invalid(kw):
    try:
        Resources(**kw)
    except (ValueError, TypeError):
        return []
    except Exception as e:  # noqa: BLE001
        return [({"kind": "exception", "op": "construct-invalid", "exc": type(e).__name__}, f"Resources({kw}) raised {e!r} instead of ValueError")]
    return [({"kind": "invalid-accepted", "op": "construct", "field": sorted(kw)[0]}, f"Resources({kw}) was accepted")]


# ------------------------------------------------------------------------------------------------
def run_case(case):
    op = case["op"]
    if op == "combine":
        return check_combine(case["ops"])
    if op in ("with_defaults", "maybe_with_defaults"):
        return check_defaults(case["a"], case["b"], op)
    if op == "update":
        return check_update(case["r"], case["key"], case["value"])
    if op == "single":
        return check_single(case["r"])
    if op == "invalid":
        return check_invalid(case["kw"])
    if op == "nested":
        return check_nested(case["a"], case["b"], case.get("d"), case["how"])
    raise ValueError(op)


def _decisive(ops):
    for q in ("cpus", "gpus", "memory", "time"):
        vs = {o.get(q) for o in ops if o.get(q) is not None}
        if len(vs) > 1:
            return True
    return False


def plan(tier, seed):
    med = med_alphabet()
    units = []
    nchunks = 64
    for c in range(nchunks):
        units.append(("pairs-medium-alphabet", ("pairs", c, nchunks)))
    units.append(("singles-updates-invalid", ("singles",)))
    units.append(("nested-function-resources", ("nested",)))
    for q in ("time", "memory", "cpus", "gpus"):
        for L in (1, 2, 3):
            units.append((f"lists-len<={3}", ("lists", q, L, 0, 1)))
    if tier == "thorough":
        for q in ("time", "memory", "cpus", "gpus"):
            n = len(focus_alphabet(q))
            for first in range(n):
                units.append(("lists-len4", ("lists", q, 4, first, n)))
    k = seed % max(1, len(units))
    order = {}
    for i, u in enumerate(units):
        order.setdefault(u[0], []).append(u)
    out = []
    for st, us in order.items():
        r = seed % len(us)
        out.extend(us[r:] + us[:r])
    del med, k
    return out


def run_unit(unit):
    acc = Acc()

    def do(case, nontrivial_key=None):
        acc.case(nontrivial_key)
        for sig, text in run_case(case):
            acc.violation(sig, case, text)

    kind = unit[0]
    if kind == "pairs":
        _, c, n = unit
        med = med_alphabet()
        for i in range(c, len(med), n):
            a = med[i]
            for b in med:
                dec = _decisive([a, b])
                do({"op": "combine", "ops": [a, b]}, (f"c|{a}|{b}" if dec else None))
                do({"op": "with_defaults", "a": a, "b": b}, (f"d|{a}|{b}" if dec else None))
            acc.stratum("pairs-rows")
        for i in range(c, len(med), n * 8):
            for b in med[::7]:
                do({"op": "maybe_with_defaults", "a": med[i], "b": b})
        acc.sample({"op": "combine", "ops": [med[c], med[-1 - c]]})
    elif kind == "singles":
        med = med_alphabet()
        full = []
        for kw in med:
            full.append(kw)
        for m in MEM_FULL:
            for t in TIME_FULL:
                for e in EXTRA_FULL:
                    kw = {}
                    if m:
                        kw["memory"] = m
                    if t:
                        kw["time"] = t
                    if e:
                        kw["extra_args"] = dict(e)
                    full.append(kw)
        for kw in full:
            do({"op": "single", "r": kw}, f"s|{kw}")
            for key, value in UPDATES:
                do({"op": "update", "r": kw, "key": key, "value": value}, f"u|{kw}|{key}" if kw.get("extra_args") else None)
        for kw in INVALID:
            do({"op": "invalid", "kw": kw}, f"i|{kw}")
            acc.stratum("invalid-constructions")
        acc.sample({"op": "update", "r": full[7], "key": "foo", "value": 1})
    elif kind == "nested":
        small = [{}, {"cpus": 1}, {"cpus": 8, "memory": "16GB", "time": "1:00:00:00"}, {"cpus": 2, "gpus": 1, "memory": "500MB", "time": "30:00"},
                 {"memory": "2GB"}, {"gpus": 2, "time": "2:00:00"}]
        for a in small:
            for b in small:
                do({"op": "nested", "a": a, "b": b, "how": "ctor"}, f"n|{a}|{b}" if _decisive([a, b]) else None)
                for d in (None, {"cpus": 1, "memory": "1GB", "time": "10:00"}, {"gpus": 1}):
                    do({"op": "nested", "a": a, "b": b, "d": d, "how": "nest_funcs"}, f"nf|{a}|{b}|{d}" if _decisive([a, b, d or {}]) else None)
        acc.stratum("nested-resources")
    elif kind == "lists":
        _, q, L, first, n = unit
        al = focus_alphabet(q)
        heads = [al[first]] if L == 4 else None
        if L >= 3 and q in ("time", "memory"):
            # lists of >= 3 operands over the long time/memory alphabets: the background is fixed (it is varied for L <= 2)
            al = [kw for kw in al if {k: v for k, v in kw.items() if k != q} == {k: v for k, v in BACKGROUNDS[0].items() if k != q}]
            heads = [al[first % len(al)]] if L == 4 else None
        for ops in itertools.product(*([heads] if heads else []), *([al] * (L - (1 if heads else 0)))):
            ops = list(ops)
            do({"op": "combine", "ops": ops}, (f"l|{ops}" if _decisive(ops) else None))
        acc.stratum(f"lists-{q}-len{L}")
        acc.sample({"op": "combine", "ops": list(al[1:1 + min(L, 3)])})
    return acc


def replay(art):
    return [sig for sig, _ in run_case(art)]
