"""C19 — xarray datasets label results with the right dimensions and coordinates (DESIGN.md §5 C19).

For every enumerated MapSpec pipeline the real ``pipeline.map`` is run once per storage into a run folder; then for every
(load_intermediate, requested output names) both entry points build a dataset

    ds1 = xarray_dataset_from_results(inputs, results[restricted to the requested names], pipeline, load_intermediate=L)
    ds2 = load_xarray_dataset(*names, run_folder=folder, load_intermediate=L)

and the clauses of the statement are checked against a reference computed in this module from the spec alone:

* ``provenance(spec)``: for every array and axis, the set of root inputs the axis is mapped from (own ~20 lines, does not
  use pipefunc's trace_dependencies);
* ``gen_map.ref_map``: the values (self-describing term strings).

Three-valued oracle: *must* — ds1.identical(ds2); every requested MapSpec output is a variable (data variable or coordinate)
with dims == its output axes in order and the denotation's values; every requested output without MapSpec is a variable
with the denotation's values and shape; a 1-D root input x that some requested output's axis i is mapped from is a
coordinate whose dims are exactly (i,) with x's values — either directly or as a named level of a pandas MultiIndex backed
coordinate on (i,); two or more such 1-D roots on one axis of one output share ONE MultiIndex-backed coordinate;
``ds.sel({x: v})`` (for level coordinates also ``ds.sel({<multi-index coordinate>: <tuple>})``) returns, for every requested
variable having dimension i, the reference slice at the position of v.  *unconstrained* — coordinates for 2-D roots,
for intermediate arrays, for internal axes, xarray index objects, whether a variable is a data variable or a coordinate,
dims of outputs without MapSpec, a KeyError of xarray_dataset_from_results caused only by this harness handing it a
sub-dict of the results that lacks an intermediate it wants to load (a sub-dict is not "results as returned by map").
One extra *must-not* taken from the docstring of ``load_intermediate`` (not from the statement, own violation kind): with
load_intermediate=False no pipeline output is a coordinate on another variable's dimension.
"""
from __future__ import annotations

import collections
import contextlib
import io
import itertools
import shutil
import warnings

import numpy as np
import pandas as pd
from pipefunc.map import load_xarray_dataset
from pipefunc.map.xarray import xarray_dataset_from_results

from .. import boot, findings, gen_map, terms
from ..acc import Acc

ID = "C19"
LEVEL = "exploration"
TECHNIQUE = ("bounded-exhaustive enumeration of MapSpec pipelines x storage x load_intermediate x requested outputs; both dataset "
             "builders run on a real map run and compared with an axis-provenance + term-denotation reference, incl. sel() on every "
             "coordinate value")
RULE = ("G-MAP (vmc/gen_map.py quick generator: roots {x[i]; x[i],y[i]; x[i],y[j]; x[i,j]; x[i,j],y[j]; x[i],n}, distinct string elements, "
        "1-D roots as lists). quick: every 1-function pipeline x {dict+persist, file_array} x load_intermediate {T,F} x ('all' + every "
        "non-empty subset of the output names), plus file_array x T x 'all' with a mapped 1-D root that also has a default of other values, (>= 2 roots) with every name in a scope (agreement of the two builders only), and after an earlier run with other input values into the same folder that was loaded once; every 2-function pipeline whose second function consumes only `a`, or `a` and a new "
        "1-D root z zipped with a's first axis (first function: one output, no internal axis other than the zipped one; second: no "
        "internal axis): file_array x {T,F} x ('all' + each single output), dict x {T,F} x 'all'; the two-input ones again with the second function's inputs in the opposite order (z[..], a[..] -> c[..]) (file_array x {T,F} x 'all', dict x T x 'all'). thorough adds: the rest of the full "
        "product for that 2-function sub-bound (file_array: remaining subsets, dict: singles); every other 2-function pipeline of the "
        "generator with file_array x {T,F} x ('all' + singles); 3-function pipelines = the 2-function sub-bound extended by every h "
        "consuming only `c` (no internal axis on h), file_array x {T,F} x ('all' + singles). non-trivial = distinct (pipeline, "
        "load_intermediate, requested names) whose dataset must carry at least one 1-D-root coordinate")
ASSUMPTIONS = ["reference denotation vmc/gen_map.py:ref_map and axis provenance c19.provenance (own code, independent of trace_dependencies)",
               "a dataset variable may be a data variable or a coordinate (intermediates loaded as coordinates are accepted)",
               "'multi-index' is accepted as a coordinate on the axis whose to_index() is a pandas.MultiIndex with the inputs as named levels",
               "xarray_dataset_from_results is given the map results restricted to the requested names; a KeyError for an intermediate "
               "missing from that sub-dict is harness-induced and skipped (counted in strata)",
               "installed xarray/pandas versions (xarray 2026.7, pandas 3.0) define sel()/identical() behaviour",
               "load_intermediate=False: no pipeline output may be a coordinate on another dimension (from the parameter's docstring, not "
               "from the property statement; own violation kind 'intermediate-coordinate-without-load_intermediate')",
               "sequential map run; correctness of the map results themselves is C01's business (values are still compared here)"]
BUDGET = {"quick": 100.0, "thorough": 900.0}


# ------------------------------------------------------------------------------------------------
# reference model
# ------------------------------------------------------------------------------------------------
def provenance(spec) -> dict:
    """array -> {axis: set of root inputs this axis is mapped from}; internal axes and axes of arrays returned whole
    by functions without MapSpec come from no input (empty set)"""
    prov = {r: {a: {r} for a in axes} for r, axes in spec["roots"].items()}
    for fn in spec["funcs"]:
        d = {}
        if fn["ms"]:
            for a in fn["out_axes"]:
                src = set()
                if a not in fn["internal"]:
                    for p, axes in fn["ms"].items():
                        if a in axes:
                            src |= prov[p].get(a, set())
                d[a] = src
        else:
            for a in fn["internal"]:
                d[a] = set()
        for o in fn["outs"]:
            prov[o] = d
    return prov


def producer(spec, name):
    return next(fn for fn in spec["funcs"] if name in fn["outs"])


def all_outputs(spec) -> list:
    return [o for fn in spec["funcs"] for o in fn["outs"]]


def demands(spec, names):
    """(coords, zips): coords = {1-D root x: axis} that must be coordinates of a dataset holding `names`;
    zips = set of (axis, tuple of >= 2 1-D roots) that must share one multi-index"""
    prov = provenance(spec)
    one_d = {r for r, axes in spec["roots"].items() if len(axes) == 1}
    coords, zips = {}, set()
    for o in names:
        fn = producer(spec, o)
        if not fn["ms"]:
            continue
        for a in fn["out_axes"]:
            grp = sorted(prov[o][a] & one_d)
            for x in grp:
                coords[x] = a
            if len(grp) >= 2:
                zips.add((a, tuple(grp)))
    return coords, zips


def predicates(spec) -> dict:
    """case-class predicates for signatures: how N-D (N >= 2) root inputs are indexed over all MapSpecs"""
    gap = short = False
    for r, axes in spec["roots"].items():
        if len(axes) < 2:
            continue
        named = set()
        for fn in spec["funcs"]:
            if fn["ms"] and r in fn["ms"]:
                named |= {k for k, a in enumerate(fn["ms"][r]) if a}
        if named and named != set(range(max(named) + 1)):
            gap = True  # a leading position is ':' everywhere, e.g. only x[:, j]
        elif named and len(named) < len(axes):
            short = True  # only a proper prefix is ever named, e.g. only x[i, :]
    return {"nd_root_leading_colon": gap, "nd_root_trailing_colon": short}


def _as_array(v):
    if isinstance(v, np.ndarray):
        return v
    if isinstance(v, (list, tuple)):
        return gen_map._arr(v)
    a = np.empty((), dtype=object)
    a[()] = v
    return a


def _mi_coords(ds):
    """coordinates whose underlying pandas index is a MultiIndex: name -> (dims, MultiIndex)"""
    out = {}
    for name, c in ds.coords.items():
        if c.ndim != 1:
            continue
        try:
            idx = c.to_index()
        except Exception:  # noqa: BLE001, S112
            continue
        if isinstance(idx, pd.MultiIndex):
            out[name] = (tuple(c.dims), idx)
    return out


def _kinds(values):
    """'i' for integers, 's' for strings, '?' otherwise - per element"""
    return "".join("i" if isinstance(v, (int, np.integer)) and not isinstance(v, bool) else "s" if isinstance(v, str) else "?" for v in list(values))


def check_dataset(ds, spec, names, inputs, env, li=True, sel=True, stats=None):  # noqa: C901, PLR0912, PLR0915
    """list of (signature-part dict, text) for one dataset that was asked to hold `names`"""
    out = []
    stats = collections.Counter() if stats is None else stats
    mis = _mi_coords(ds)
    # -- variables ---------------------------------------------------------------------------
    for o in names:
        fn = producer(spec, o)
        if o not in ds.variables:
            out.append(({"kind": "missing-variable", "has_mapspec": bool(fn["ms"])}, f"requested output {o} is not a variable of the dataset {list(ds.variables)}"))
            continue
        v = ds[o]
        exp = _as_array(env[o])
        if fn["ms"]:
            if tuple(v.dims) != tuple(fn["out_axes"]):
                out.append(({"kind": "dims-mismatch", "internal": bool(fn["internal"])},
                            f"{o}: dims {tuple(v.dims)} != MapSpec output axes {tuple(fn['out_axes'])}"))
                continue
        if tuple(v.shape) != tuple(exp.shape) or terms.T(v.values) != terms.T(exp):
            out.append(({"kind": "value-mismatch", "has_mapspec": bool(fn["ms"])},
                        f"{o}: dataset holds {terms.T(v.values)[:160]} shape {v.shape}, map denotation {terms.T(exp)[:160]} shape {exp.shape}"))
    # -- coordinates -------------------------------------------------------------------------
    coords, zips = demands(spec, names)
    where = {}  # root -> None (direct coordinate) | name of the multi-index coordinate holding it as a level
    for x, axis in sorted(coords.items()):
        want = terms.T(inputs[x])
        if x in ds.coords:
            c = ds.coords[x]
            where[x] = None
            stats["coordinate-direct"] += 1
            if tuple(c.dims) != (axis,):
                out.append(({"kind": "coord-wrong-axis", "level": False}, f"coordinate {x} is on {tuple(c.dims)}, input is mapped along ({axis},)"))
            elif terms.T(c.values) != want:
                out.append(({"kind": "coord-values", "level": False}, f"coordinate {x} = {terms.T(c.values)}, input = {want}"))
            continue
        holder = next((n for n, (_, idx) in sorted(mis.items()) if x in idx.names), None)
        if holder is None:
            out.append(({"kind": "coord-missing", "zipped": any(x in g for _, g in zips)}, f"1-D root input {x} (axis {axis}) is not a coordinate; coords = {list(ds.coords)}"))
            continue
        where[x] = holder
        stats["coordinate-as-multiindex-level"] += 1
        dims, idx = mis[holder]
        if dims != (axis,):
            out.append(({"kind": "coord-wrong-axis", "level": True}, f"multi-index {holder} holding {x} is on {dims}, input is mapped along ({axis},)"))
        elif terms.T(list(idx.get_level_values(x))) != want or _kinds(idx.get_level_values(x)) != _kinds(inputs[x]):
            out.append(({"kind": "coord-values", "level": True}, f"level {x} of {holder} = {list(idx.get_level_values(x))}, input = {want} ({_kinds(inputs[x])})"))
    for axis, grp in sorted(zips):
        ok = any(dims == (axis,) and set(grp) <= set(idx.names) for dims, idx in mis.values())
        stats["zip-group-checked"] += 1
        if not ok:
            out.append(({"kind": "zip-not-one-multiindex"}, f"zipped inputs {grp} on axis {axis} are not combined into one multi-index; coords = "
                        f"{ {n: tuple(c.dims) for n, c in ds.coords.items()} }"))
    # -- load_intermediate=False (docstring of the parameter: "Whether to load intermediate outputs as coordinates") -----------
    if not li:
        for n in all_outputs(spec):
            if n in ds.coords and tuple(ds.coords[n].dims) != (n,):  # (n,): xarray's own promotion of a 1-D variable named like its dim
                out.append(({"kind": "intermediate-coordinate-without-load_intermediate"},
                            f"load_intermediate=False but output {n} is a coordinate on {tuple(ds.coords[n].dims)}"))
                break
    # -- selection by coordinate value -------------------------------------------------------
    if not sel or any(s["kind"].startswith(("coord-", "dims-", "missing-")) for s, _ in out):
        return out
    prov = provenance(spec)
    for x, axis in sorted(coords.items()):
        vals = list(inputs[x])
        for k, v in enumerate(vals):
            res, errs = None, []
            attempts = [{x: v}]
            if where.get(x) is not None:
                idx = mis[where[x]][1]
                attempts.append({where[x]: tuple(idx[k])})
            for how in attempts:
                try:
                    with warnings.catch_warnings():
                        warnings.simplefilter("ignore")
                        res = ds.sel(how)
                    break
                except Exception as e:  # noqa: BLE001
                    errs.append(f"sel({how}) -> {type(e).__name__}: {str(e)[:80]}")
            if res is None:
                out.append(({"kind": "sel-fails", "level": where.get(x) is not None}, f"cannot select {x}={v!r}: {'; '.join(errs)}"))
                break
            bad = False
            for o in names:
                full = ds[o]
                if axis not in full.dims:
                    continue
                exp = np.take(_as_array(env[o]), k, axis=full.dims.index(axis))
                if x in prov[o].get(axis, ()):
                    assert all(str(v) in str(t) for t in np.ravel(_as_array(exp))), ("oracle self-check", o, v, exp)
                got = np.asarray(res[o].values)
                pos = full.dims.index(axis)
                if got.ndim == full.ndim:
                    # the dimension was kept (selecting one level of a multi-index keeps it, possibly renamed): one element must be left
                    if got.shape[pos] != 1:
                        out.append(({"kind": "sel-wrong-count"}, f"sel({x}={v!r}) kept {got.shape[pos]} elements of {o} along {axis}"))
                        bad = True
                        break
                    got = np.take(got, 0, axis=pos)
                stats["sel-slices-compared"] += 1
                if terms.T(got) != terms.T(exp):
                    out.append(({"kind": "sel-wrong-element", "level": where.get(x) is not None},
                                f"sel({x}={v!r})[{o}] = {terms.T(got)[:160]}, the element computed from {v!r} is {terms.T(exp)[:160]}"))
                    bad = True
                    break
            if bad:
                break
    return out


# ------------------------------------------------------------------------------------------------
# execution of the real code
# ------------------------------------------------------------------------------------------------
def _quiet():
    st = contextlib.ExitStack()
    st.enter_context(contextlib.redirect_stdout(io.StringIO()))
    w = st.enter_context(warnings.catch_warnings())
    del w
    warnings.simplefilter("ignore")
    return st


def run_group(spec, storage, combos, variant=None):  # noqa: C901, PLR0912
    """one real map run; then for each (load_intermediate, names|None) both builders.  Yields
    (case, [(sig, text)], info) where info = {'coords': int, 'zips': int, 'outcome': str|None, 'skipped_subdict': bool}"""
    pred = predicates(spec)
    inputs = gen_map.make_inputs(spec)
    if variant == "mixed-kinds":
        # zipped roots of DIFFERENT kinds of values: the last zipped 1-D root holds ints, the others strings - each level of the
        # multi-index carries its own input's values (an int stays an int)
        r = sorted(k for k, a in spec["roots"].items() if len(a) == 1)[-1]
        inputs[r] = [10 + k for k in range(len(inputs[r]))]
    env, _ = gen_map.ref_map(spec, inputs)
    every = all_outputs(spec)
    folder = boot.mkscratch("c19-")
    desc = f"{[gen_map.spec_str(f) or f['name'] + '(no MapSpec)' for f in spec['funcs']]} storage={storage}"
    try:
        results = pipeline = None
        fail = None
        try:
            ish = gen_map.internal_shapes_arg(spec)
            with _quiet():
                pipeline = gen_map.build(spec)
                if variant == "root-default":
                    # a mapped 1-D root ALSO has a default of the same length but other values: what labels the axis is the input
                    r = [k for k, a in spec["roots"].items() if len(a) == 1][-1]
                    pipeline.update_defaults({r: [f"default-{k}" for k in range(len(inputs[r]))]})
                elif variant == "scoped":
                    # every name in one scope: the names (and the input files) contain a dot; only the agreement of the two
                    # builders is checked for this variant
                    pipeline.update_scope("s", inputs="*", outputs="*")
                    inputs = {"s." + k: v for k, v in inputs.items()}
                    ish = {"s." + k: v for k, v in ish.items()} if ish else ish
                if variant == "rerun-same-folder":
                    # an EARLIER run with other input values into the same folder, loaded once: nothing of it may survive
                    older = {k: ([str(e) + "-old" for e in v] if isinstance(v, list) else v) for k, v in inputs.items()}
                    pipeline.map(dict(older), run_folder=folder, internal_shapes=ish, parallel=False, storage=storage)
                    try:
                        load_xarray_dataset(run_folder=folder)
                    except Exception:  # noqa: BLE001, S110  (a failing builder is reported by the normal flow below)
                        pass
                results = pipeline.map(dict(inputs), run_folder=folder, internal_shapes=ish, parallel=False, storage=storage)
        except Exception as e:  # noqa: BLE001
            fail = (findings.exc_sig(e, phase="map", **pred), f"map failed on {desc}: {type(e).__name__}: {str(e)[:120]}")
        # ONE inputs dict for all requests of this run (as a caller would hold it): if a builder writes into it, a LATER request
        # sees the difference (the two builders then disagree, or an intermediate shows up as a coordinate)
        shared_inputs = dict(inputs)
        earlier = []
        for li, names in combos:
            case = {"spec": spec, "storage": storage, "li": li, "outs": names, **({"variant": variant} if variant else {}),
                    **({"earlier": list(earlier)} if earlier else {})}
            earlier.append([li, names])
            info = {"coords": 0, "zips": 0, "outcome": None, "skipped_subdict": False, "stats": collections.Counter()}
            if fail is not None:
                yield case, [fail], info
                continue
            req = list(names) if names is not None else list(every)
            cd, zd = demands(spec, req)
            info["coords"], info["zips"] = len(cd), len(zd)
            built, errors = {}, {}
            for entry in ("from_results", "load"):
                try:
                    with _quiet():
                        if entry == "from_results":
                            sub = results if names is None else collections.OrderedDict((k, v) for k, v in results.items() if k in req)
                            built[entry] = xarray_dataset_from_results(shared_inputs, sub, pipeline, load_intermediate=li)
                        else:
                            built[entry] = load_xarray_dataset(*(names or ()), run_folder=folder, load_intermediate=li)
                except Exception as e:  # noqa: BLE001
                    errors[entry] = e
            viol = []
            e1 = errors.get("from_results")
            if (e1 is not None and names is not None and li and isinstance(e1, KeyError) and findings.exc_site(e1) == "map/xarray.py:_data_loader"
                    and e1.args and e1.args[0] in every and e1.args[0] not in req):
                info["skipped_subdict"] = True  # the sub-dict handed over by this harness lacks an intermediate: unconstrained
                del errors["from_results"]
            if errors:
                sigs = {n: findings.exc_sig(e, phase="dataset", **pred) for n, e in errors.items()}
                if len(sigs) == 2 and sigs["from_results"] == sigs["load"]:
                    e = errors["load"]
                    viol.append(({**sigs["load"], "entry": "both"}, f"both dataset builders raised {type(e).__name__}: {str(e)[:120]} "
                                 f"(load_intermediate={li}, names={names}) on {desc}"))
                else:
                    for n, e in errors.items():
                        viol.append(({**sigs[n], "entry": n}, f"{n} raised {type(e).__name__}: {str(e)[:120]} (load_intermediate={li}, "
                                     f"names={names}) on {desc}"))
            same = False
            if len(built) == 2:
                with _quiet():
                    same = bool(built["from_results"].identical(built["load"]))
                if not same:
                    viol.append(({"kind": "not-identical", "storage": storage, **pred},
                                 f"xarray_dataset_from_results and load_xarray_dataset differ (load_intermediate={li}, names={names}) on {desc}: "
                                 f"{_describe(built['from_results'])} vs {_describe(built['load'])}"))
            for entry, ds in built.items():
                if variant == "scoped":
                    break
                if entry == "load" and same:
                    continue  # identical to the one already checked
                with _quiet():
                    for part, text in check_dataset(ds, spec, req, inputs, env, li=li, stats=info["stats"]):
                        viol.append(({**part, "li": li}, f"[{entry}, load_intermediate={li}, names={names}] {text} on {desc}"))
                info["outcome"] = _describe(ds)
            yield case, viol, info
    finally:
        shutil.rmtree(folder, ignore_errors=True)


def _describe(ds) -> str:
    return (f"vars={ {k: tuple(v.dims) for k, v in ds.data_vars.items()} } "
            f"coords={ {k: tuple(v.dims) for k, v in ds.coords.items()} }")


def run_case(case):
    # the requests made earlier on the same run (and the same inputs dict) are part of the case: replayed first
    combos = [(li, outs) for li, outs in case.get("earlier", [])] + [(case["li"], case["outs"])]
    viol = []
    for _, viol, _ in run_group(case["spec"], case["storage"], combos, case.get("variant")):
        pass
    return viol


# ------------------------------------------------------------------------------------------------
# enumeration
# ------------------------------------------------------------------------------------------------
def subsets(names, mode):
    """requested-name lists; None = 'all' (no names given to load_xarray_dataset, whole results to the other builder)"""
    names = list(names)
    if mode == "all":
        return [None]
    if mode == "singles":
        return [None] + ([[n] for n in names] if len(names) > 1 else [])
    out = [None]
    for r in range(1, len(names) + (0 if len(names) > 1 else 1)):
        out += [list(c) for c in itertools.combinations(names, r)]
    if len(names) > 1:
        out.append(list(names))  # all names given explicitly
    return out


def _zip_z(spec) -> bool:
    """second function consumes `a` and a new 1-D root z zipped with a's first axis"""
    g = spec["funcs"][1]
    if sorted(g["params"]) != ["a", "z"] or len(spec["roots"].get("z", [])) != 1:
        return False
    ax = gen_map.output_axes(spec)
    return bool(ax["a"]) and spec["roots"]["z"][0] == ax["a"][0]


def in_quick_bound(spec) -> bool:
    n = len(spec["funcs"])
    if n == 1:
        return True
    g = spec["funcs"][1]
    if g["params"] == ["a"]:
        return True
    f = spec["funcs"][0]
    return (len(f["outs"]) == 1 and _zip_z(spec) and not g["internal"]
            and (not f["internal"] or spec["roots"]["z"][0] in f["internal"]))


def groups_for(spec, stage):
    """[(storage, [(li, names)])]"""
    outs = all_outputs(spec)
    lis = (True, False)
    every, singles = subsets(outs, "subsets"), subsets(outs, "singles")
    if stage == "1-function":
        combos = [(li, s) for li in lis for s in every]
        return [("file_array", combos), ("dict", combos)]
    if stage == "2-functions-sub":
        return [("file_array", [(li, s) for li in lis for s in singles]), ("dict", [(li, None) for li in lis])]
    if stage == "2-functions-swapped":
        return [("file_array", [(li, None) for li in lis]), ("dict", [(True, None)])]
    if stage == "2-functions-sub-more":  # what "2-functions-sub" left out of the full product
        return [("file_array", [(li, s) for li in lis for s in every if s not in singles]),
                ("dict", [(li, s) for li in lis for s in singles if s is not None])]
    if stage in ("2-functions-rest", "3-functions"):
        return [("file_array", [(li, s) for li in lis for s in singles])]
    if stage == "fan-in":
        return [("file_array", [(li, s) for li in lis for s in every]), ("dict", [(li, None) for li in lis])]
    raise ValueError(stage)


def extend3(s2):
    """third function h consuming only `c` (no internal axis on h) on top of a 2-function pipeline"""
    ax2 = gen_map.output_axes(s2)
    used = gen_map._used_axes(s2["roots"], s2["funcs"])  # noqa: SLF001
    for f3 in gen_map.functions_over({"c": ax2["c"]}, "h", [("d",)], used, ["m"], 0, False, must_use=["c"], no_ms_internal=False):
        yield {"roots": s2["roots"], "sizes": s2["sizes"], "funcs": [*s2["funcs"], f3]}


_SPECS: dict = {}  # filled by plan() in the parent process and inherited by the forked workers


def specs_for(stage) -> list:
    if stage in _SPECS:
        return _SPECS[stage]
    if stage == "1-function":
        out = list(gen_map.pipelines(1, "quick"))
    elif stage in ("2-functions-sub", "2-functions-sub-more"):
        out = [s for s in gen_map.pipelines(2, "quick") if len(s["funcs"]) == 2 and in_quick_bound(s)]
    elif stage == "2-functions-swapped":  # second function's inputs in the opposite order: root before intermediate
        out = [gen_map.swapped(s, 1) for s in specs_for("2-functions-sub") if len(s["funcs"][1]["params"]) == 2]
    elif stage == "2-functions-rest":
        out = [s for s in gen_map.pipelines(2, "quick") if len(s["funcs"]) == 2 and not in_quick_bound(s)]
    elif stage == "3-functions":
        out = [s3 for s in specs_for("2-functions-sub") for s3 in extend3(s)]
    elif stage == "fan-in":
        # ONE function fed by TWO mapped intermediates that come from DIFFERENT roots (+ a root of its own): zipped on one axis
        # (one multi-index of all three roots) and as an outer product (each axis labelled by its own root)
        sizes = dict(specs_for("1-function")[0]["sizes"])

        def f(name, params, ms, oa, outs):
            return {"name": name, "params": params, "ms": ms, "out_axes": oa, "internal": [], "outs": outs, "ishape_via": "map"}
        out = [
            {"roots": {"x": ["i"], "y": ["i"], "z": ["i"]}, "sizes": sizes, "funcs": [
                f("f", ["x"], {"x": ["i"]}, ["i"], ["a"]), f("g", ["y"], {"y": ["i"]}, ["i"], ["b"]),
                f("h", ["a", "b", "z"], {"a": ["i"], "b": ["i"], "z": ["i"]}, ["i"], ["c"])]},
            {"roots": {"x": ["i"], "y": ["j"]}, "sizes": sizes, "funcs": [
                f("f", ["x"], {"x": ["i"]}, ["i"], ["a"]), f("g", ["y"], {"y": ["j"]}, ["j"], ["b"]),
                f("h", ["a", "b"], {"a": ["i"], "b": ["j"]}, ["i", "j"], ["c"])]},
            {"roots": {"x": ["i"], "y": ["j"]}, "sizes": sizes, "funcs": [
                f("f", ["x"], {"x": ["i"]}, ["i"], ["a"]), f("g", ["y"], {"y": ["j"]}, ["j"], ["b"]),
                f("h", ["b", "a"], {"b": ["j"], "a": ["i"]}, ["j", "i"], ["c"])]},
        ]
    else:
        raise ValueError(stage)
    _SPECS[stage] = out
    return out


STAGES = {"quick": ["1-function", "2-functions-sub", "2-functions-swapped", "fan-in"],
          "thorough": ["1-function", "2-functions-sub", "2-functions-swapped", "fan-in", "2-functions-sub-more", "2-functions-rest", "3-functions"]}
NCHUNK = {"fan-in": 3, "1-function": 32, "2-functions-sub": 224, "2-functions-swapped": 96, "2-functions-sub-more": 256, "2-functions-rest": 1024, "3-functions": 1024}


def plan(tier, seed):
    out = []
    for st in STAGES[tier]:
        specs_for(st)
        n = NCHUNK[st]
        us = [(st, (st, c, n)) for c in range(n)]
        r = seed % n
        out.extend(us[r:] + us[:r])
    return out


def run_unit(unit):
    st, c, n = unit
    acc = Acc()
    for k, spec in enumerate(specs_for(st)):
        if k % n != c:
            continue
        feats = gen_map.features(spec)
        for f in feats:
            acc.stratum("pipelines-with-" + f)
        if any(len(a) >= 2 for a in spec["roots"].values()):
            acc.stratum("pipelines-with-2d-root")
        skey = gen_map.key(spec)
        groups = [(storage, combos, None) for storage, combos in groups_for(spec, st)]
        if st == "1-function":
            if any(len(a) == 1 for a in spec["roots"].values()):
                groups.append(("file_array", [(True, None)], "root-default"))
            if len(spec["roots"]) >= 2:
                groups.append(("file_array", [(True, None)], "scoped"))
            if sum(1 for a in spec["roots"].values() if len(a) == 1) >= 2:
                groups.append(("file_array", [(True, None)], "mixed-kinds"))
            if any(len(a) == 1 for a in spec["roots"].values()) and len(spec["funcs"][0]["outs"]) == 1:
                groups.append(("file_array", [(True, None)], "rerun-same-folder"))
        for storage, combos, variant in groups:
            for case, viol, info in run_group(spec, storage, combos, variant):
                nt = info["coords"] > 0
                acc.case(f"{skey}|{case['li']}|{case['outs']}" if nt else None)
                acc.stratum("storage-" + storage)
                acc.stratum("load_intermediate-" + str(case["li"]))
                acc.stratum("request-" + ("all" if case["outs"] is None else f"{len(case['outs'])}-of-{len(all_outputs(spec))}"))
                if info["coords"]:
                    acc.stratum("datasets-with-1d-root-coordinate")
                if info["zips"]:
                    acc.stratum("datasets-with-zipped-inputs")
                if info["skipped_subdict"]:
                    acc.stratum("from_results-skipped(sub-dict lacks an intermediate)")
                if info["outcome"]:
                    acc.outcome(info["outcome"])
                for name, cnt in info["stats"].items():
                    acc.stratum("checked:" + name, cnt)
                for sig, text in viol:
                    acc.violation(sig, case, text)
        if k % (n * 40) == c:
            acc.sample({"mapspecs": [gen_map.spec_str(f) for f in spec["funcs"]], "roots": spec["roots"]})
    return acc


def replay(art):
    return [s for s, _ in run_case(art)]
