"""C18 — lazy pipelines evaluate to the eager result, at most once per node (DESIGN.md §5 C18)."""
from __future__ import annotations

import contextlib
import io

import networkx as nx
from pipefunc import PipeFunc
from pipefunc.lazy import _LazyFunction, construct_dag

from .. import findings, gen_dag, terms
from ..acc import Acc
from . import c02

ID = "C18"
LEVEL = "exploration"
TECHNIQUE = "bounded-exhaustive enumeration of all DAG pipelines x outputs x argument cuts, lazy vs reference evaluator, task graph vs reference dependency edges"
RULE = ("the pipelines, outputs and argument combinations of C02 (G-DAG N<=2 decorated + N=3 quick; thorough adds the N=4 single-output family) with lazy=True, "
        "with and without an active construct_dag() (and, once per pipeline, right after a construct_dag() block that was left through an exception, and with list-valued inputs rendered type-strictly), evaluate() called three times, and every ordered pair of requested outputs "
        "evaluated in both orders on one lazy pipeline - as two plain requests, inside ONE construct_dag() block, and with cache=True on every function. Plus: lazy results inside list/tuple/set arguments in one dag block, and a function OWNED by a lazy pipeline (built from PipeFuncs / from plain callables) called directly with a deferred argument; a deferred result made before (or in an earlier) construct_dag() block and consumed inside one; a deferred result evaluated after its pipeline was garbage-collected. non-trivial = distinct (pipeline, output, cut, mode) with >= 2 functions on the dependency path")
ASSUMPTIONS = c02.ASSUMPTIONS + ["task-graph nodes whose func is not a PipeFunc are output pickers and are contracted"]
BUDGET = {"quick": 200.0, "thorough": 1500.0}


class _Abort(Exception):
    pass


def _quiet(fn, *a, **k):
    with contextlib.redirect_stdout(io.StringIO()):
        return fn(*a, **k)


def _names(spec, idxs):
    return sorted(spec["funcs"][i].get("tag", spec["funcs"][i]["name"]) for i in idxs)


def _ref_edges(spec, ref, kw):
    prod = gen_dag.producers(spec)
    edges = set()
    for i in ref.ran:
        f = spec["funcs"][i]
        for p in f["params"]:
            if p in f.get("bound", {}) or p in kw or p not in prod:
                continue
            edges.add((spec["funcs"][prod[p][0]]["name"], f["name"]))
    return edges


def check_lazy(spec, out, kw, mode):  # noqa: C901, PLR0912
    res = []
    out_t = tuple(out) if isinstance(out, (list, tuple)) else out
    base = {"deco": spec.get("deco"), "mode": mode, "out_is_tuple": isinstance(out_t, tuple)}
    if mode == "list-inputs":
        # every supplied value is a Python LIST (the functions must receive lists, not tuples): rendered strictly
        kw = {k: [f"{v}0", f"{v}1"] for k, v in kw.items()}
        terms.STRICT_SEQ = True
        try:
            return check_lazy(spec, out, kw, "plain")
        finally:
            terms.STRICT_SEQ = False
    if mode == "after-aborted-dag":
        # a construct_dag() block that is left through an exception must leave nothing behind: afterwards a NEW pipeline with
        # the same names but other function bodies (tags ...v2) is evaluated outside any dag
        try:
            with construct_dag():
                _quiet(gen_dag.build(spec, lazy=True), out_t, **kw)
                raise _Abort  # noqa: TRY301
        except _Abort:
            pass
        except Exception:  # noqa: BLE001  (a failing request is reported by the plain modes)
            return res
        spec = {**spec, "funcs": [{**f, "tag": f.get("tag", f["name"]) + "v2"} for f in spec["funcs"]]}
    try:
        ref = gen_dag.ref_eval(spec, out_t, kw)
    except gen_dag.NotComputable:
        return res
    if set(kw) - ref.used_kw:
        return res
    pl = gen_dag.build(spec, lazy=True)
    terms.LOG.clear()
    tg = None
    try:
        if mode == "dag":
            with construct_dag() as tg:
                lz = _quiet(pl, out_t, **kw)
        else:
            lz = _quiet(pl, out_t, **kw)
    except Exception as e:  # noqa: BLE001
        return [(findings.exc_sig(e, **base), f"lazy call ({out_t!r}, {kw}) raised {type(e).__name__}: {str(e)[:150]}")]
    if terms.LOG:
        res.append(({"kind": "ran-before-evaluate", **base}, f"lazy ({out_t!r}, {kw}) executed {terms.LOG} before evaluate()"))
    if not isinstance(lz, _LazyFunction):
        res.append(({"kind": "not-deferred", **base}, f"lazy ({out_t!r}, {kw}) returned {type(lz).__name__}"))
        return res
    try:
        vals = [_quiet(lz.evaluate) for _ in range(3)]
    except Exception as e:  # noqa: BLE001
        return [*res, (findings.exc_sig(e, phase="evaluate", **base), f"evaluate() of ({out_t!r}, {kw}) raised {type(e).__name__}: {str(e)[:150]}")]
    for v in vals:
        v = tuple(v) if isinstance(out_t, tuple) and isinstance(v, (list, tuple)) else v
        if v != ref.value:
            res.append(({"kind": "value-mismatch", **base}, f"lazy ({out_t!r}, {kw}).evaluate() = {v!r}, eager reference {ref.value!r}"))
            break
    if sorted(n for n, _ in terms.LOG) != _names(spec, ref.ran):
        res.append(({"kind": "call-count", **base},
                    f"lazy ({out_t!r}, {kw}): executed {sorted(n for n, _ in terms.LOG)} over 3 evaluate() calls, needed once each {_names(spec, ref.ran)}"))
    if tg is not None:
        g = tg.graph
        if not nx.is_directed_acyclic_graph(g):
            res.append(({"kind": "dag-cyclic", **base}, f"task graph of ({out_t!r}, {kw}) has a cycle"))
            return res
        node_fn = {}
        for nid, lf in tg.mapping.items():
            node_fn[nid] = lf.func.__name__ if isinstance(lf.func, PipeFunc) else None
        func_nodes = [n for n, f in node_fn.items() if f is not None]
        if sorted(node_fn[n] for n in func_nodes) != sorted(spec["funcs"][i]["name"] for i in ref.ran):
            res.append(({"kind": "dag-nodes", **base},
                        f"task graph of ({out_t!r}, {kw}) has function nodes {sorted(node_fn[n] for n in func_nodes)}, needed {_names(spec, ref.ran)}"))
        # contract picker nodes: an edge picker -> consumer stands for producer -> consumer
        edges = set()
        for u, v in g.edges:
            if node_fn.get(v) is None:
                continue  # edge into a picker, handled from the consumer side
            srcs = [u]
            seen = set()
            while srcs:
                s = srcs.pop()
                if s in seen:
                    continue
                seen.add(s)
                if node_fn.get(s) is None:
                    srcs.extend(g.predecessors(s))
                else:
                    edges.add((node_fn[s], node_fn[v]))
        want = _ref_edges(spec, ref, kw)
        if edges != want:
            res.append(({"kind": "dag-edges", **base}, f"task graph edges {sorted(edges)} != dependencies {sorted(want)} for ({out_t!r}, {kw})"))
    return res


PAIR_MODES = ("separate", "one-dag", "cache=True", "one-dag+small-lru")


def check_pair(spec, out_a, kw_a, out_b, kw_b, pmode="separate"):
    """two deferred results of one lazy pipeline evaluated in both orders.

    pmode "separate": two plain requests; "one-dag": both requests inside ONE construct_dag() block (its SimpleCache makes the
    second request hit the nodes of the first); "cache=True": every function cached by the pipeline's own cache. With a
    cache a node shared by the two requests may be evaluated once instead of twice - never more, never zero times."""
    res = []
    ra = gen_dag.ref_eval(spec, out_a, kw_a)
    rb = gen_dag.ref_eval(spec, out_b, kw_b)
    base = {"mode": "pair" if pmode == "separate" else "pair-" + pmode}
    for first in (0, 1):
        extra = {"cache": True} if pmode == "cache=True" else {}
        if pmode == "one-dag+small-lru":  # the pipeline's OWN cache evicts; inside a dag block the block's cache must be the one used
            extra = {"cache": True, "cache_type": "lru", "cache_kwargs": {"max_size": 1, "shared": False}}
        pl = gen_dag.build(spec, lazy=True, **extra)
        terms.LOG.clear()
        try:
            if pmode.startswith("one-dag"):
                with construct_dag():
                    la, lb = _quiet(pl, out_a, **kw_a), _quiet(pl, out_b, **kw_b)
            else:
                la, lb = _quiet(pl, out_a, **kw_a), _quiet(pl, out_b, **kw_b)
            if terms.LOG:
                res.append(({"kind": "ran-before-evaluate", **base}, f"pair ({out_a}, {out_b}) [{pmode}] executed {terms.LOG} before evaluate()"))
            if not isinstance(la, _LazyFunction) or not isinstance(lb, _LazyFunction):
                res.append(({"kind": "not-deferred", **base}, f"pair ({out_a}, {out_b}) [{pmode}] returned {type(la).__name__}, {type(lb).__name__}"))
                continue
            if first == 0:
                va, vb = _quiet(la.evaluate), _quiet(lb.evaluate)
            else:
                vb, va = _quiet(lb.evaluate), _quiet(la.evaluate)
        except Exception as e:  # noqa: BLE001
            res.append((findings.exc_sig(e, **base), f"pair ({out_a}, {out_b}) [{pmode}] raised {type(e).__name__}: {str(e)[:120]}"))
            continue
        if va != ra.value or vb != rb.value:
            res.append(({"kind": "value-mismatch", **base}, f"pair [{pmode}] order {first}: ({out_a}, {kw_a}) = {va!r} / ({out_b}, {kw_b}) = {vb!r}; reference {ra.value!r} / {rb.value!r}"))
        names = sorted(n for n, _ in terms.LOG)
        need_a, need_b = _names(spec, ra.ran), _names(spec, rb.ran)
        if pmode == "separate":
            ok = names == sorted(need_a + need_b)
        elif pmode.startswith("one-dag"):
            # inside ONE dag block both requests (same root-argument values) share their nodes: every needed function once
            ok = names == sorted(set(need_a + need_b))
        else:
            ok = all(1 <= names.count(n) <= need_a.count(n) + need_b.count(n) for n in set(need_a + need_b)) and set(names) <= set(need_a + need_b)
        if not ok:
            res.append(({"kind": "call-count", **base}, f"pair ({out_a}, {out_b}) [{pmode}] order {first} executed {names}; needed {need_a} + {need_b}"))
    return res


def check_containers():
    """lazy results of one pipeline handed to another lazy pipeline inside a list / tuple / set, in ONE dag block: the task
    graph must have an edge from each of them to the consumer, and everything is evaluated once"""
    from pipefunc import PipeFunc, Pipeline
    res = []
    for kind, mk in (("list", list), ("tuple", tuple), ("set", set)):
        terms.LOG.clear()
        f = terms.make_function("f", ["x"])
        g = terms.make_function("g", ["parts"])
        try:
            with contextlib.redirect_stdout(io.StringIO()):
                p1, p2 = Pipeline([PipeFunc(f, "o")], lazy=True), Pipeline([PipeFunc(g, "t")], lazy=True)
                with construct_dag() as tg:
                    la, lb = p1("o", x="<x>a"), p1("o", x="<x>b")
                    lc = p2("t", parts=mk([la, lb]))
                edges = set(tg.graph.edges)
                val = lc.evaluate()
        except Exception as e:  # noqa: BLE001
            res.append((findings.exc_sig(e, mode="containers", container=kind), f"lazy results inside a {kind} raised {type(e).__name__}: {str(e)[:120]}"))
            continue
        for src in (la, lb):
            if not nx.has_path(tg.graph, src._id, lc._id):
                res.append(({"kind": "dag-edges", "mode": "containers", "container": kind},
                            f"lazy results handed over inside a {kind}: no path from the producer node {src._id} to the consumer node {lc._id} (edges {sorted(edges)})"))
                break
        names = sorted(n for n, _ in terms.LOG)
        if names != ["f", "f", "g"] or not all(t in str(val) for t in ("f(<x>a)", "f(<x>b)")):
            res.append(({"kind": "value-mismatch", "mode": "containers", "container": kind}, f"lazy results inside a {kind}: evaluate() = {val!r}, executed {names}"))
    return res


def check_direct_call():
    """a function OWNED by a lazy pipeline called directly with deferred arguments (PipeFunc.__call__ evaluates them when a
    lazy pipeline owns the function) - for pipelines built from PipeFunc objects and from plain callables"""
    from pipefunc import PipeFunc, Pipeline
    res = []
    for form in ("pipefunc", "callable"):
        terms.LOG.clear()
        fo = terms.make_function("o", ["x"])
        ft = terms.make_function("t", ["o", "y"])
        try:
            with contextlib.redirect_stdout(io.StringIO()):
                pl = Pipeline([PipeFunc(fo, "o"), PipeFunc(ft, "t")] if form == "pipefunc" else [fo, ft], lazy=True)
                lo = pl("o", x="<x>")
                val = pl["t"](o=lo, y="<y>")
                val = val.evaluate() if isinstance(val, _LazyFunction) else val
        except Exception as e:  # noqa: BLE001
            res.append((findings.exc_sig(e, mode="direct-call", built_from=form), f"owned function called with a deferred argument raised {type(e).__name__}: {str(e)[:120]}"))
            continue
        names = sorted(n for n, _ in terms.LOG)
        if str(val) != "t(o(<x>),<y>)" or names != ["o", "t"]:
            res.append(({"kind": "value-mismatch", "mode": "direct-call", "built_from": form},
                        f"lazy pipeline built from {form}s: pl['t'](o=<deferred o>, y=...) = {val!r} (executed {names}), eager t(o(<x>),<y>)"))
    return res


def check_lifetimes():
    """deferred objects that outlive what made them: (a) a deferred result created BEFORE a construct_dag() block and consumed
    inside it (the graph stays acyclic, no self-loop, one edge producer -> consumer); (b) a deferred result whose lazy pipeline
    has been garbage-collected before evaluate()"""
    import gc

    from pipefunc import PipeFunc, Pipeline
    res = []
    # (a) ---------------------------------------------------------------------------------------------------------------
    for first in ("outside-then-dag", "dag-then-second-dag"):
        terms.LOG.clear()
        try:
            with contextlib.redirect_stdout(io.StringIO()):
                p1 = Pipeline([PipeFunc(terms.make_function("f", ["x"]), "o")], lazy=True)
                p2 = Pipeline([PipeFunc(terms.make_function("g", ["o", "y"]), "t"), PipeFunc(terms.make_function("h", ["t"]), "w")], lazy=True)
                if first == "outside-then-dag":
                    la = p1("o", x="<x>")
                else:
                    with construct_dag():
                        la = p1("o", x="<x>")
                with construct_dag() as tg:
                    lw = p2("w", o=la, y="<y>")
                g = tg.graph
                val = lw.evaluate()
        except Exception as e:  # noqa: BLE001
            res.append((findings.exc_sig(e, mode="lifetimes", case=first), f"a deferred result made {first} raised {type(e).__name__}: {str(e)[:120]}"))
            continue
        loops = list(nx.selfloop_edges(g))
        if loops or not nx.is_directed_acyclic_graph(g):
            res.append(({"kind": "dag-cyclic", "mode": "lifetimes", "case": first},
                        f"deferred f made {first}, consumed inside a construct_dag() block: task graph edges {sorted(g.edges)} (self-loops {loops}) are not acyclic"))
        if str(val) != "h(g(f(<x>),<y>))" or sorted(n for n, _ in terms.LOG) != ["f", "g", "h"]:
            res.append(({"kind": "value-mismatch", "mode": "lifetimes", "case": first}, f"{first}: evaluate() = {val!r}, executed {sorted(n for n, _ in terms.LOG)}"))
    # (b) ---------------------------------------------------------------------------------------------------------------
    terms.LOG.clear()
    try:
        with contextlib.redirect_stdout(io.StringIO()):
            def deferred():
                p = Pipeline([PipeFunc(terms.make_function("f", ["x"]), "o"), PipeFunc(terms.make_function("g", ["o", "y"]), "t")], lazy=True)
                return p("t", x="<x>", y="<y>")
            lz = deferred()
            gc.collect()
            val = lz.evaluate()
    except Exception as e:  # noqa: BLE001
        res.append((findings.exc_sig(e, mode="lifetimes", case="pipeline-collected"), f"evaluate() after the pipeline was collected raised {type(e).__name__}: {str(e)[:120]}"))
    else:
        if str(val) != "g(f(<x>),<y>)" or sorted(n for n, _ in terms.LOG) != ["f", "g"]:
            res.append(({"kind": "value-mismatch", "mode": "lifetimes", "case": "pipeline-collected"},
                        f"deferred result evaluated after its lazy pipeline was garbage-collected: {val!r}, executed {sorted(n for n, _ in terms.LOG)}; eager g(f(<x>),<y>)"))
    return res


def run_spec(spec, acc):
    try:
        p0 = gen_dag.build(spec)
    except Exception:  # noqa: BLE001
        return  # construction failures are C02's business
    acc.stratum("pipelines")
    root_calls = []
    first = True
    for out, kw, _listed in c02.calls_for(spec, p0):
        deep = gen_dag.depth_of(spec, out) >= 2
        modes = ("plain", "dag", "after-aborted-dag", "list-inputs") if first and deep else ("plain", "dag")
        first = first and not deep
        for mode in modes:
            acc.case((gen_dag._key(spec), str(out), tuple(sorted(kw)), mode) if deep else None)
            for sig, text in check_lazy(spec, out, kw, mode):
                acc.violation(sig, {"spec": spec, "out": out, "kw": kw, "mode": mode}, text)
        if all(k in gen_dag.ROOTS for k in kw) and not isinstance(out, tuple):
            try:
                if not (set(kw) - gen_dag.ref_eval(spec, out, kw).used_kw):
                    root_calls.append((out, kw))
            except gen_dag.NotComputable:
                pass
    # pairs of root-argument calls on ONE lazy pipeline, both evaluation orders
    seen = set()
    for (oa, ka) in root_calls:
        for (ob, kb) in root_calls:
            if oa >= ob or (oa, ob) in seen:
                continue
            seen.add((oa, ob))
            for pmode in PAIR_MODES:
                acc.case((gen_dag._key(spec), oa, ob, "pair", pmode))
                acc.stratum("pairs-" + pmode)
                for sig, text in check_pair(spec, oa, ka, ob, kb, pmode):
                    acc.violation(sig, {"spec": spec, "pair": [oa, ka, ob, kb], "pmode": pmode}, text)
    acc.sample({"spec": spec, "out": gen_dag.all_outputs(spec)[-1], "mode": "dag"})


STAGES = {"quick": ["N1", "N2", "N2-three-output-producer", "N2-decorated", "N3-shared-none", "N3"],
          "thorough": ["N1", "N2", "N2-three-output-producer", "N2-decorated", "N3-shared-none", "N3", "N4-single-output"]}


def plan(tier, seed):
    out = [("containers-of-lazies", ("containers-of-lazies", 0, 1))]
    for st in STAGES[tier]:
        n = sum(1 for _ in c02.specs_for(st))
        nchunks = max(1, (n + c02.CHUNK[st] - 1) // c02.CHUNK[st])
        us = [(st, (st, c, nchunks)) for c in range(nchunks)]
        r = seed % len(us)
        out.extend(us[r:] + us[:r])
    return out


def run_unit(unit):
    st, c, n = unit
    acc = Acc()
    if st == "containers-of-lazies":
        acc.case(("containers",))
        acc.stratum("containers-of-lazies")
        for sig, text in check_containers():
            acc.violation(sig, {"containers": True}, text)
        acc.case(("direct-call",))
        for sig, text in check_direct_call():
            acc.violation(sig, {"direct_call": True}, text)
        acc.case(("lifetimes",), n=3)
        for sig, text in check_lifetimes():
            acc.violation(sig, {"lifetimes": True}, text)
        return acc
    for k, spec in enumerate(c02.specs_for(st)):
        if k % n == c:
            run_spec(spec, acc)
    return acc


def replay(art):
    if art.get("lifetimes"):
        return [s for s, _ in check_lifetimes()]
    if art.get("direct_call"):
        return [s for s, _ in check_direct_call()]
    if art.get("containers"):
        return [s for s, _ in check_containers()]
    spec = art["spec"]
    if "pair" in art:
        oa, ka, ob, kb = art["pair"]
        return [s for s, _ in check_pair(spec, oa, ka, ob, kb, art.get("pmode", "separate"))]
    out = art["out"]
    out = tuple(out) if isinstance(out, list) else out
    return [s for s, _ in check_lazy(spec, out, art["kw"], art["mode"])]
