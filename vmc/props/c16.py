"""C16 — Type-annotation validation agrees with subtype compatibility (DESIGN.md §5 C16).

Bounded-exhaustive enumeration of annotation expression trees and of small annotated pipelines against a
three-valued reference subtype relation (must-hold / must-not-hold / unconstrained) written below.

A *type tree* is a JSON list ``[op, *children]``:
  classes     ["int"] ["bool"] ["float"] ["str"] ["bytes"] ["None"] (NoneType) ["complex"] ["Number"]
  specials    ["Any"] ["NoAnn"] (pipefunc.typing.NoAnnotation)  ["NoneLit"] (the literal ``None``)
  generics    ["list", T] ["set", T] ["tuple", T...] ["dict", K, V] ["Sequence", T] ["Mapping", K, V]; bare: ["list"] …
  unions      ["union", T, U...] (typing.Union)  ["bor", T, U...] (T | U)  ["opt", T] (Optional[T])
  Annotated   ["ann", T] (metadata = a non-string marker object)   ["annstr", T] (metadata = the string "m")
  Array       ["array", T] (pipefunc.typing.Array[T])   ["array"] (np.ndarray[Any, np.dtype[np.object_]])
  TypeVars    ["tv", name, bound_tree | None, [constraint_trees]]
"""
from __future__ import annotations

import collections.abc
import contextlib
import functools
import io
import itertools
import numbers
import operator
import warnings
from typing import Annotated, Any, Optional, TypeVar, Union

import numpy as np
from pipefunc import PipeFunc, Pipeline
from pipefunc.typing import Array, NoAnnotation, is_type_compatible

from .. import findings
from ..acc import Acc

ID = "C16"
LEVEL = "exploration"
TECHNIQUE = ("bounded-exhaustive enumeration of annotation expression trees (all ordered pairs) and of 2-3 node annotated "
             "pipelines against a three-valued reference subtype relation")
RULE = ("annotations = all expression trees with <= 1 constructor level (DESIGN depth 2: 13 leaves int,bool,float,str,bytes,"
        "NoneType,Any,bare list,bare dict,free/bound/constrained TypeVar + NoAnnotation at top level; constructors list,set,"
        "tuple[T],tuple[T,U],dict,Union,Optional,Annotated[T,marker],Array); ALL ordered pairs (A,B) are evaluated with "
        "is_type_compatible and compared with the reference verdict; plus all ordered pairs over {depth<=2 over reduced leaves "
        "int,bool,str,Any} u {list/Optional/Annotated/Array wrapped around such a depth-2 annotation}. thorough adds depth 3 (two constructor levels), capped to the "
        "reduced leaves {int,bool,str,Any} with unordered Union members: every such depth-3 annotation (all constructors but set) against "
        "every depth-2 annotation in both directions, and all ordered depth-3 x depth-3 pairs over the core constructors "
        "{list,Optional,Annotated,Array,tuple[T,U],Union}. Separate classes: "
        "Annotated[T,'m'] (string metadata), the literal None, the literal triples of tests/test_typing.py. Pipelines: "
        "pair/chain/fan-in/fan-out wirings of a sub-alphabet, edges direct / element-wise map / reduction (whole, 'y[i, :]', "
        "'y[:]'), two-output producers incl. renamed and name-swapped outputs, validate_type_annotations in {True,False}, built by Pipeline([...]) (from function objects that are RE-ANNOTATED from case to case) and by add() (fresh function objects), in dependency order and reversed (2 nodes: 25 annotations, all "
        "ordered pairs; 3 nodes: 6 annotations per slot, thorough 7). A pair is distinct by "
        "construction (distinct trees) and non-trivial iff the reference verdict is must/must-not and was reached by "
        "descending into union members, generic arguments, TypeVar bounds or a subclass decision (not by identity, Any, "
        "NoAnnotation or a top-level class mismatch); a pipeline case is non-trivial iff some edge is constrained and "
        "explicitly annotated on both ends. In the depth-3 stages distinct keys are kept per (source annotation, verdict, "
        "reason) and the per-pair counts are in strata")
ASSUMPTIONS = [
    "reference relation: 'A compatible with B' = every value of type A is acceptable where B is required, generics covariant "
    "in every argument; Any as a *source* is therefore not compatible with a concrete class (tests/test_typing.py pins "
    "`not is_type_compatible(Any, int)`), Any/NoAnnotation as target and NoAnnotation as source accept everything",
    "unconstrained (either answer accepted): TypeVar sources, int/bool->float numeric tower, bare generic -> parametrised "
    "generic, an Array[...] output consumed through a reduction (the implementation does not wrap it again)",
    "Annotated[T, marker] is read as T (PEP 593); a TypeVar target accepts what its bound / one of its constraints accepts",
    "the reference relation was validated against the is_type_compatible triples of tests/test_typing.py that are "
    "expressible in the tree language (embedded below; plan() refuses to run if one is contradicted)",
    "NoAnnotation only occurs at the top level of an annotation (it is a marker for a missing annotation)",
]
BUDGET = {"quick": 60.0, "thorough": 600.0}

MUST, NOT, UNC = "must", "must-not", "unconstrained"


class _Marker:
    def __repr__(self) -> str:
        return "MARK"


MARK = _Marker()

# ------------------------------------------------------------------------------------------------
# tree helpers
def tup(t):
    """JSON lists -> nested tuples (hashable internal form)."""
    if isinstance(t, (list, tuple)):
        return tuple(tup(x) for x in t)
    return t


def lst(t):
    if isinstance(t, tuple):
        return [lst(x) for x in t]
    return t


TV_T = ("tv", "T", None, ())
TV_U = ("tv", "U", ("int",), ())
TV_S = ("tv", "S", None, (("int",), ("str",)))
ANY = ("Any",)
NOANN = ("NoAnn",)
NONE = ("None",)

CLS = {"int": int, "bool": bool, "float": float, "str": str, "bytes": bytes, "None": type(None), "complex": complex,
       "Number": numbers.Number, "list": list, "set": set, "tuple": tuple, "dict": dict,
       "Sequence": collections.abc.Sequence, "Mapping": collections.abc.Mapping, "array": np.ndarray}
GENERIC = {"list", "set", "tuple", "dict", "Sequence", "Mapping", "array"}
TOWER = {("int", "float"), ("bool", "float"), ("int", "complex"), ("bool", "complex"), ("float", "complex")}
OBJ_ARRAY = np.ndarray[Any, np.dtype[np.object_]]


@functools.lru_cache(maxsize=None)
def obj(t):  # noqa: C901, PLR0911, PLR0912
    """Real annotation object of a (tuple-form) type tree."""
    op = t[0]
    if op == "Any":
        return Any
    if op == "NoAnn":
        return NoAnnotation
    if op == "NoneLit":
        return None
    if op == "tv":
        _, name, bound, cons = t
        if cons:
            return TypeVar(name, *[obj(c) for c in cons])
        if bound is not None:
            return TypeVar(name, bound=obj(bound))
        return TypeVar(name)
    if op == "array":
        return Array[obj(t[1])] if len(t) > 1 else OBJ_ARRAY
    if op == "union":
        return Union[tuple(obj(a) for a in t[1:])]  # noqa: UP007
    if op == "bor":
        return functools.reduce(operator.or_, [obj(a) for a in t[1:]])
    if op == "opt":
        return Optional[obj(t[1])]  # noqa: UP007
    if op == "ann":
        return Annotated[obj(t[1]), MARK]
    if op == "annstr":
        return Annotated[obj(t[1]), "m"]
    c = CLS[op]
    if len(t) == 1:
        return c
    return c[tuple(obj(a) for a in t[1:])]


def show(t) -> str:  # noqa: PLR0911
    op = t[0]
    if op == "tv":
        _, name, bound, cons = t
        if cons:
            return f"{name}({','.join(show(c) for c in cons)})"
        return f"{name}<={show(bound)}" if bound is not None else name
    if op in ("union", "bor"):
        return " | ".join(show(a) for a in t[1:]) if op == "bor" else f"Union[{', '.join(show(a) for a in t[1:])}]"
    if op == "opt":
        return f"Optional[{show(t[1])}]"
    if op == "ann":
        return f"Annotated[{show(t[1])}, MARK]"
    if op == "annstr":
        return f"Annotated[{show(t[1])}, 'm']"
    name = {"array": "Array", "NoAnn": "NoAnnotation", "None": "NoneType", "NoneLit": "None"}.get(op, op)
    if len(t) == 1:
        return name
    return f"{name}[{', '.join(show(a) for a in t[1:])}]"


def contains(t, op) -> bool:
    if not isinstance(t, tuple):
        return False
    if t and t[0] == op:
        return True
    return any(contains(x, op) for x in t[1:])


# ------------------------------------------------------------------------------------------------
# reference relation
@functools.lru_cache(maxsize=None)
def norm(t):
    """Normal form the reference works on: Annotated stripped, unions flattened and de-duplicated."""
    op = t[0]
    if op in ("ann", "annstr"):
        return norm(t[1])
    if op == "NoneLit":
        return NONE
    if op == "tv":
        _, name, bound, cons = t
        return ("tv", name, None if bound is None else norm(bound), tuple(norm(c) for c in cons))
    if op in ("union", "bor", "opt"):
        members = []
        for a in (*t[1:], *([NONE] if op == "opt" else [])):
            n = norm(a)
            for m in (n[1:] if n[0] == "union" else (n,)):
                if m not in members:
                    members.append(m)
        return members[0] if len(members) == 1 else ("union", *members)
    return (op, *[norm(a) for a in t[1:]])


def _origin_rel(a: str, b: str) -> str:
    if a == b:
        return "same"
    if issubclass(CLS[a], CLS[b]):
        return "sub"
    if (a, b) in TOWER:
        return "tower"
    return "disjoint"


def _all3(vs):
    if NOT in vs:
        return NOT
    return MUST if all(v == MUST for v in vs) else UNC


def _any3(vs):
    if MUST in vs:
        return MUST
    return NOT if all(v == NOT for v in vs) else UNC


@functools.lru_cache(maxsize=400_000)
def rel(a, b):  # noqa: C901, PLR0911, PLR0912
    """(verdict, reason, consulted sub-pairs) for normal-form trees: may a value of type `a` go where `b` is required?"""
    if a == NOANN or b == NOANN:
        return MUST, "no-annotation", ()
    if b == ANY:
        return MUST, "target-any", ()
    if a == b:
        return MUST, "reflexive", ()
    if a[0] == "union":  # a union source needs all members accepted
        kids = tuple((m, b) for m in a[1:])
        v = _all3([rel(*k)[0] for k in kids])
        return v, {MUST: "union-source-all-accepted", NOT: "union-source-member-rejected", UNC: "union-source"}[v], kids
    if b[0] == "union":  # a union target needs one
        kids = tuple((a, m) for m in b[1:])
        v = _any3([rel(*k)[0] for k in kids])
        return v, {MUST: "member-of-union", NOT: "union-target-no-member", UNC: "union-target"}[v], kids
    if a[0] == "tv":
        return UNC, "typevar-source", ()
    if b[0] == "tv":
        _, _, bound, cons = b
        if cons:
            kids = tuple((a, c) for c in cons)
            return _any3([rel(*k)[0] for k in kids]), "typevar-constraints", kids
        if bound is not None:
            return rel(a, bound)[0], "typevar-bound", ((a, bound),)
        return MUST, "typevar-free", ()
    if a == ANY:
        return NOT, "any-source", ()
    oa, ob = a[0], b[0]
    o = _origin_rel(oa, ob)
    if o == "disjoint":
        return NOT, ("origin-mismatch" if (oa in GENERIC or ob in GENERIC) else "class-mismatch"), ()
    if o == "tower":
        return UNC, "numeric-tower", ()
    aa, ba = a[1:], b[1:]
    if not ba:
        return MUST, ("subclass" if o == "sub" else "parametrised-to-bare"), ()
    if not aa:
        return UNC, "bare-to-parametrised", ()
    if len(aa) != len(ba):
        if oa == ob == "tuple":
            return NOT, "tuple-arity", ()
        return UNC, "generic-arity", ()
    kids = tuple(zip(aa, ba))
    v = _all3([rel(*k)[0] for k in kids])
    return v, ("argument-rejected" if v == NOT else "covariant-arguments"), kids


TRIVIAL_REASONS = {"no-annotation", "target-any", "reflexive", "any-source", "class-mismatch", "origin-mismatch",
                   "typevar-free", "typevar-source", "numeric-tower", "bare-to-parametrised"}


def impl(oa, ob):
    """is_type_compatible on real objects -> True / False / exception instance."""
    try:
        with warnings.catch_warnings():
            warnings.simplefilter("ignore")
            return bool(is_type_compatible(oa, ob))
    except Exception as e:  # noqa: BLE001
        return e


_WRAP = ("ann", "annstr")
_UNIONS = ("union", "bor", "opt")


def _members(t):
    return (*t[1:], NONE) if t[0] == "opt" else t[1:]


def _raw_kids(ta, tb):  # noqa: PLR0911
    """Sub-pairs (raw trees) whose verdicts decide the verdict of (ta, tb)."""
    a, b = ta[0], tb[0]
    if a in _WRAP or b in _WRAP:
        return ([(ta[1], tb)] if a in _WRAP else []) + ([(ta, tb[1])] if b in _WRAP else [])
    if a in _UNIONS:
        return [(m, tb) for m in _members(ta)]
    if b in _UNIONS:
        return [(ta, m) for m in _members(tb)]
    if b == "tv":
        _, _, bound, cons = tb
        return [(ta, c) for c in cons] or ([(ta, bound)] if bound is not None else [])
    if a in CLS and b in CLS and len(ta) == len(tb) and len(ta) > 1 and _origin_rel(a, b) in ("same", "sub"):
        return list(zip(ta[1:], tb[1:]))
    return []


def _disagrees(ta, tb) -> bool:
    v = rel(norm(ta), norm(tb))[0]
    if v == UNC:
        return False
    r = impl(obj(ta), obj(tb))
    return isinstance(r, Exception) or r != (v == MUST)


def blame(ta, tb):
    """Innermost sub-pair on which implementation and reference still disagree -> (class of that pair, ta', tb')."""
    for ka, kb in _raw_kids(ta, tb):
        if _disagrees(ka, kb):
            return blame(ka, kb)
    a, b = ta[0], tb[0]
    r = impl(obj(ta), obj(tb))
    if isinstance(r, Exception):
        why = f"exception:{type(r).__name__}"
    elif "annstr" in (a, b):
        why = "annotated-string-metadata"
    elif "NoneLit" in (a, b):
        why = "none-literal"
    elif a in _WRAP and b in _WRAP:
        why = "annotated-both"
    elif b in _WRAP:
        why = "annotated-target"
    elif a in _WRAP:
        why = "annotated-source"
    elif b == "array" and a != "array" and len(tb) > 1:
        why = "array-target"  # Array[T] is an Annotated[...] underneath
    else:
        why = rel(norm(ta), norm(tb))[1]
    return why, ta, tb


def _flags(*trees) -> dict:
    """Case-class predicates of the separately reported spellings (only set when present)."""
    out = {}
    if any(contains(t, "annstr") for t in trees):
        out["string_metadata"] = True
    return out


def check_pair(ta, tb, oa=None, ob=None):
    """One ordered pair -> (verdict, reason, implementation outcome, [(sig, text)])."""
    na, nb = norm(ta), norm(tb)
    v, reason, _ = rel(na, nb)
    r = impl(obj(ta) if oa is None else oa, obj(tb) if ob is None else ob)
    if isinstance(r, Exception):
        sig = findings.exc_sig(r, level="relation", **_flags(ta, tb))
        return v, reason, type(r).__name__, [(sig, f"is_type_compatible({show(ta)}, {show(tb)}) raised {r!r} (reference: {v}, {reason})")]
    if v == UNC or r == (v == MUST):
        return v, reason, r, []
    why, ma, mb = blame(ta, tb)  # innermost disagreeing sub-pair
    kind = "accepted-incompatible" if r else "rejected-compatible"
    sig = {"kind": kind, "level": "relation", "reason": why, **_flags(ma, mb)}
    text = (f"is_type_compatible({show(ta)}, {show(tb)}) = {r}, reference says {v} ({reason}); innermost disagreement: "
            f"({show(ma)}, {show(mb)}) [{why}]")
    return v, reason, r, [(sig, text)]


# ------------------------------------------------------------------------------------------------
# alphabets
L_FULL = [("int",), ("bool",), ("float",), ("str",), ("bytes",), NONE, ANY, ("list",), ("dict",), TV_T, TV_U, TV_S]
L_RED = [("int",), ("bool",), ("str",), ANY]
UNARY = ["list", "set", "tuple", "opt", "ann", "array"]
BINARY = ["tuple", "dict", "union"]


UNARY_CORE = ["list", "opt", "ann", "array"]
BINARY_CORE = ["tuple", "union"]


def grow(args, need=None, sym_union=False, unary=UNARY, binary=BINARY):
    """All one-constructor applications over `args`; with `need`, at least one argument must come from `need`."""
    out = []
    needset = None if need is None else set(need)
    idx = {a: i for i, a in enumerate(args)}
    for c in unary:
        for a in args:
            if needset is not None and a not in needset:
                continue
            if c == "opt" and a == NONE:
                continue
            out.append((c, a))
    for c in binary:
        for a in args:
            for b in args:
                if needset is not None and a not in needset and b not in needset:
                    continue
                if c == "union" and (a == b or (sym_union and idx[a] > idx[b])):
                    continue
                out.append((c, a, b))
    return out


@functools.lru_cache(maxsize=None)
def alphabet(name):
    if name == "d2":  # DESIGN depth 2: leaves + one constructor level (NoAnnotation only at top level)
        return tuple([NOANN, *L_FULL, *grow(L_FULL)])
    if name == "d2r":  # depth <= 2 over the reduced leaves (set[...] left out: no code path distinguishes it from list[...])
        return tuple([*L_RED, *grow(L_RED, sym_union=True, unary=[c for c in UNARY if c != "set"])])
    if name == "w3":  # d2r plus the depth-3 annotations that wrap a depth-2 one in a core unary constructor
        lower = list(alphabet("d2r"))
        return tuple([*lower, *grow(lower, need=lower[len(L_RED):], unary=UNARY_CORE, binary=[])])
    if name == "d3r":  # depth exactly 3 over the reduced leaves
        lower = list(alphabet("d2r"))
        return tuple(grow(lower, need=lower[len(L_RED):], sym_union=True, unary=[c for c in UNARY if c != "set"]))
    if name == "d3c":  # depth exactly 3, reduced leaves, core constructors only (both levels)
        lower = [*L_RED, *grow(L_RED, sym_union=True, unary=UNARY_CORE, binary=BINARY_CORE)]
        return tuple(grow(lower, need=lower[len(L_RED):], sym_union=True, unary=UNARY_CORE, binary=BINARY_CORE))
    if name == "strmeta":  # Annotated[T, "m"]
        out = [("annstr", a) for a in L_FULL]
        out += [("list", ("annstr", ("int",))), ("opt", ("annstr", ("int",))), ("annstr", ("list", ("int",))),
                ("array", ("annstr", ("int",))), ("annstr", ("array", ("int",)))]
        return tuple(out)
    if name == "nonelit":  # the literal None (what `-> None` is before get_type_hints normalises it), also nested
        return (("NoneLit",), ("list", ("NoneLit",)), ("dict", ("str",), ("NoneLit",)), ("tuple", ("int",), ("NoneLit",)),
                ("array", ("NoneLit",)), ("ann", ("NoneLit",)))
    if name == "probe":  # partners of the separately reported classes
        return tuple([NOANN, *L_FULL, ("list", ("int",)), ("list", NONE), ("opt", ("int",)), ("union", ("int",), ("str",)),
                      ("ann", ("int",)), ("array", ("int",)), ("array", NONE), ("tuple", ("int",), NONE),
                      ("dict", ("str",), NONE), ("dict", ("str",), ("opt", ("int",))), ("list", ("opt", ("int",))),
                      ("tuple", ("int",), ("opt", ("str",)))])
    raise KeyError(name)


# ------------------------------------------------------------------------------------------------
# literal triples of /repo/tests/test_typing.py that are expressible in the tree language (line numbers of the pinned tree)
def _triples():
    i, s, f, b, c, A = ["int"], ["str"], ["float"], ["bool"], ["complex"], ["Any"]  # noqa: N806
    L = lambda x: ["list", x]  # noqa: E731, N806
    D = lambda k, v: ["dict", k, v]  # noqa: E731, N806
    T = ["tv", "T", None, []]  # noqa: N806
    S = ["tv", "S", None, [s, i]]  # noqa: N806
    N = ["tv", "N", ["Number"], []]  # noqa: N806
    R = ["tv", "R", ["Sequence", T], []]  # noqa: N806
    Q = ["tv", "Q", ["Sequence", S], []]  # noqa: N806
    AB = ["tv", "A", A, []]  # noqa: N806
    M, K = ["tv", "M", None, []], ["tv", "K", None, []]  # noqa: N806
    nl = ["NoneLit"]
    na = ["NoAnn"]
    arr = ["array", i]
    del b
    return [
        (39, L(i), L(i), True), (40, L(i), L(f), False), (41, ["bor", i, s], ["union", s, f], False),
        (42, ["bor", i, s], ["bor", s, f], False), (43, i, f, False), (44, A, i, False), (45, i, A, True),
        (46, D(i, D(s, s)), D(i, D(s, A)), True), (47, D(i, s), ["dict"], True), (48, ["dict"], D(i, s), True),
        (49, D(i, s), ["ann", D(i, s)], True),
        (53, ["bor", i, s], s, False), (54, ["bor", i, s], i, False), (55, i, ["bor", i, s], True), (56, s, ["bor", i, s], True),
        (57, ["bor", i, s], f, False), (58, D(i, s), D(i, ["bor", s, i]), True),
        (75, L(L(i)), L(L(i)), True), (76, L(L(i)), L(L(f)), False), (77, L(L(i)), L(L(A)), True), (80, L(A), L(i), False),
        (81, L(i), L(A), True), (82, D(i, s), D(A, A), True), (84, D(i, s), D(i, f), False), (85, D(i, s), L(i), False),
        (91, ["bor", i, s, f], ["bor", s, f, i], True), (93, ["bor", i, s], ["bor", i, s, f], True),
        (95, ["bor", i, s], ["bor", f, c], False), (98, ["union", ["bor", i, s], f], ["union", s, i, f], True),
        (99, ["union", ["bor", i, s], f], ["union", f, c], False), (102, i, ["bor", i, c], True), (103, c, ["bor", i, c], True),
        (104, ["bor", i, s], A, True),
        (128, ["bor", i, s], s, False), (130, s, ["bor", i, s], True), (134, i, ["bor", i, s], True), (136, ["bor", i, s], i, False),
        (140, L(i), ["Sequence", i], True), (142, D(s, i), ["Mapping", s, i], True), (144, ["Sequence", i], L(i), False),
        (145, ["Mapping", s, i], D(s, i), False),
        (149, ["list"], ["Sequence"], True), (151, L(i), ["list"], True), (152, ["list"], L(i), True), (153, D(s, i), ["dict"], True),
        (154, ["dict"], D(s, i), True),
        (158, nl, nl, True), (159, nl, A, True), (160, i, nl, False), (161, nl, i, False), (162, nl, s, False),
        (166, A, na, True), (167, na, A, True), (168, na, na, True), (169, i, na, True), (170, na, i, True),
        (198, arr, ["array"], True), (205, arr, ["array", i], True), (206, arr, ["array", f], False), (209, arr, ["ann", ["array"]], True),
        (262, arr, ["ann", L(i)], False), (270, ["ann", arr], ["ann", arr], True),
        (283, L(s), T, True), (284, L(s), L(T), True), (285, L(T), L(T), True), (286, L(L(s)), L(L(T)), True),
        (287, L(L(s)), L(["tuple", T]), False), (288, L(s), ["tuple", T], False),
        (291, s, S, True), (292, i, S, True), (293, f, S, False), (294, L(s), L(S), True), (295, L(f), L(S), False),
        (298, i, N, True), (299, f, N, True), (300, s, N, False), (301, L(i), L(N), True), (302, L(s), L(N), False),
        (305, D(s, L(i)), D(T, L(N)), True), (306, D(s, L(s)), D(T, L(N)), False),
        (307, ["tuple", L(i), D(s, f)], ["tuple", L(N), D(S, N)], True), (308, ["tuple", L(i), D(s, s)], ["tuple", L(N), D(S, N)], False),
        (311, ["union", i, s], ["union", T, S], True), (312, ["union", i, f], ["union", N, T], True),
        (313, ["union", i, s], ["union", N, T], True),
        (317, L(L(i)), R, True), (318, ["tuple", L(s), L(i)], ["tuple", R, R], True), (319, L(D(s, i)), R, True),
        (321, L(D(s, i)), Q, False),
        (325, i, AB, True), (326, s, AB, True), (327, L(i), AB, True), (328, D(s, f), AB, True),
        (333, D(s, i), D(M, K), True), (334, D(i, L(s)), D(M, L(K)), True), (335, D(i, ["tuple", s, i]), D(M, L(K)), False),
        (343, T, L(s), True), (344, L(T), L(s), True), (345, L(T), L(T), True),
    ]


TRIPLES = _triples()


def selfcheck():
    """The reference must never contradict a literal expectation of tests/test_typing.py (oracle error otherwise)."""
    bad = []
    for line, a, b, exp in TRIPLES:
        v, reason, _ = rel(norm(tup(a)), norm(tup(b)))
        if v != UNC and (v == MUST) != exp:
            bad.append(f"test_typing.py:{line} ({show(tup(a))}, {show(tup(b))}) expects {exp}, reference says {v} ({reason})")
    if bad:
        raise RuntimeError("C16 reference relation contradicts tests/test_typing.py:\n  " + "\n  ".join(bad))


# ------------------------------------------------------------------------------------------------
# pipelines
P2 = [NOANN, ("int",), ("bool",), ("str",), ("float",), NONE, ANY, ("list", ("int",)), ("list", ("bool",)), ("list",),
      ("tuple", ("int",)), ("tuple", ("int",), ("str",)), ("dict", ("str",), ("int",)), ("bor", ("int",), ("str",)),
      ("opt", ("int",)), ("ann", ("int",)), ("array", ("int",)), ("array", ("bool",)), ("array", ("union", ("int",), ("str",))),
      ("array", ANY), ("ann", ("array", ("int",))), ("ann", ("opt", ("int",))), TV_T, TV_U, TV_S]
P3 = {"p3q": [NOANN, ("int",), ("bool",), ("str",), ("opt", ("int",)), ("array", ("int",))],
      "p3t": [NOANN, ("int",), ("bool",), ("str",), ANY, ("opt", ("int",)), ("array", ("int",))]}
PSTR = [("annstr", ("int",)), ("list", ("annstr", ("int",))), ("annstr", ("array", ("int",)))]
PNONE = [(("list", ("NoneLit",)), ("list", ("opt", ("int",)))), (("list", ("NoneLit",)), ("list", NONE)), (("list", ("NoneLit",)), ("list", ("int",))),
         (("dict", ("str",), ("NoneLit",)), ("dict", ("str",), ("opt", ("int",)))), (("list", NONE), ("list", ("NoneLit",))),
         (("tuple", ("int",), ("NoneLit",)), ("tuple", ("int",), ("opt", ("str",)))), (("list", ("NoneLit",)), ("list", ("NoneLit",)))]

# topology -> wiring -> ([(func, params, out, ann slot of return | None, {param: ann slot}, mapspec)], [(src slot, dst slot, edge kind)])
_F, _G, _H = "f", "g", "h"
WIRINGS = {
    "pair": {
        "direct": ([(_F, ["x"], "y", 0, {}, None), (_G, ["y"], "z", None, {"y": 1}, None)], [(0, 1, "direct")]),
        "elementwise": ([(_F, ["x"], "y", 0, {}, "x[i] -> y[i]"), (_G, ["y"], "z", None, {"y": 1}, "y[i] -> z[i]")],
                        [(0, 1, "elementwise")]),
        "reduce-whole": ([(_F, ["x"], "y", 0, {}, "x[i] -> y[i]"), (_G, ["y"], "z", None, {"y": 1}, None)], [(0, 1, "reduce")]),
        "reduce-partial": ([(_F, ["x", "v"], "y", 0, {}, "x[i], v[j] -> y[i, j]"), (_G, ["y"], "z", None, {"y": 1}, "y[i, :] -> z[i]")],
                           [(0, 1, "reduce")]),
        "reduce-colon": ([(_F, ["x"], "y", 0, {}, "x[i] -> y[i]"), (_G, ["y", "k"], "z", None, {"y": 1}, "y[:], k[j] -> z[j]")],
                         [(0, 1, "reduce")]),
        # the producer has TWO outputs (returns tuple[A, int]); the edge under test carries its first output
        "direct-tuple-producer": ([(_F, ["x"], ("y", "y2"), 0, {}, None), (_G, ["y"], "z", None, {"y": 1}, None)], [(0, 1, "direct")]),
        "elementwise-tuple-producer": ([(_F, ["x"], ("y", "y2"), 0, {}, "x[i] -> y[i], y2[i]"), (_G, ["y"], "z", None, {"y": 1}, "y[i] -> z[i]")],
                                       [(0, 1, "elementwise")]),
        "reduce-partial-tuple-producer": ([(_F, ["x", "v"], ("y", "y2"), 0, {}, "x[i], v[j] -> y[i, j], y2[i, j]"),
                                           (_G, ["y"], "z", None, {"y": 1}, "y[i, :] -> z[i]")], [(0, 1, "reduce")]),
        # the two outputs of the producer are RENAMED (7th field = renames original -> new; the annotation of `y` is the one of
        # the output that is CALLED y after renaming): fresh names, and the two names swapped
        "direct-tuple-producer-renamed": ([(_F, ["x"], ("y0", "y20"), 0, {}, None, {"y0": "y", "y20": "y2"}), (_G, ["y"], "z", None, {"y": 1}, None)],
                                          [(0, 1, "direct")]),
        "elementwise-tuple-producer-renamed": ([(_F, ["x"], ("y0", "y20"), 0, {}, "x[i] -> y[i], y2[i]", {"y0": "y", "y20": "y2"}),
                                                (_G, ["y"], "z", None, {"y": 1}, "y[i] -> z[i]")], [(0, 1, "elementwise")]),
        "direct-tuple-producer-swapped": ([(_F, ["x"], ("y", "y2"), 0, {}, None, {"y": "y2", "y2": "y"}, "second"), (_G, ["y"], "z", None, {"y": 1}, None)],
                                          [(0, 1, "direct")]),
    },
    "chain": {  # f -> y:A ; g(y:B) -> z:C ; h(z:D)
        "direct-direct": ([(_F, ["x"], "y", 0, {}, None), (_G, ["y"], "z", 2, {"y": 1}, None), (_H, ["z"], "w", None, {"z": 3}, None)],
                          [(0, 1, "direct"), (2, 3, "direct")]),
        "map-map": ([(_F, ["x"], "y", 0, {}, "x[i] -> y[i]"), (_G, ["y"], "z", 2, {"y": 1}, "y[i] -> z[i]"),
                     (_H, ["z"], "w", None, {"z": 3}, "z[i] -> w[i]")], [(0, 1, "elementwise"), (2, 3, "elementwise")]),
        "map-reduce": ([(_F, ["x"], "y", 0, {}, "x[i] -> y[i]"), (_G, ["y"], "z", 2, {"y": 1}, "y[i] -> z[i]"),
                        (_H, ["z"], "w", None, {"z": 3}, None)], [(0, 1, "elementwise"), (2, 3, "reduce")]),
        "reduce-direct": ([(_F, ["x"], "y", 0, {}, "x[i] -> y[i]"), (_G, ["y"], "z", 2, {"y": 1}, None),
                           (_H, ["z"], "w", None, {"z": 3}, None)], [(0, 1, "reduce"), (2, 3, "direct")]),
        "generated-map": ([(_F, ["x"], "y", 0, {}, None), (_G, ["y"], "z", 2, {"y": 1}, "y[i] -> z[i]"),
                           (_H, ["z"], "w", None, {"z": 3}, "z[i] -> w[i]")], [(0, 1, "generated"), (2, 3, "elementwise")]),
        "map-partial": ([(_F, ["x", "v"], "y", 0, {}, "x[i], v[j] -> y[i, j]"), (_G, ["y"], "z", 2, {"y": 1}, "y[i, j] -> z[i, j]"),
                         (_H, ["z"], "w", None, {"z": 3}, "z[i, :] -> w[i]")], [(0, 1, "elementwise"), (2, 3, "reduce")]),
    },
    "fanin": {  # f -> y:A ; g -> z:C ; h(y:B, z:D)
        "direct-direct": ([(_F, ["x"], "y", 0, {}, None), (_G, ["x"], "z", 2, {}, None), (_H, ["y", "z"], "w", None, {"y": 1, "z": 3}, None)],
                          [(0, 1, "direct"), (2, 3, "direct")]),
        "map-map": ([(_F, ["x"], "y", 0, {}, "x[i] -> y[i]"), (_G, ["x"], "z", 2, {}, "x[i] -> z[i]"),
                     (_H, ["y", "z"], "w", None, {"y": 1, "z": 3}, "y[i], z[i] -> w[i]")], [(0, 1, "elementwise"), (2, 3, "elementwise")]),
        "map-reduce": ([(_F, ["x"], "y", 0, {}, "x[i] -> y[i]"), (_G, ["u"], "z", 2, {}, "u[j] -> z[j]"),
                        (_H, ["y", "z"], "w", None, {"y": 1, "z": 3}, "y[i], z[:] -> w[i]")], [(0, 1, "elementwise"), (2, 3, "reduce")]),
        "direct-reduce": ([(_F, ["x"], "y", 0, {}, None), (_G, ["u"], "z", 2, {}, "u[j] -> z[j]"),
                           (_H, ["y", "z"], "w", None, {"y": 1, "z": 3}, None)], [(0, 1, "direct"), (2, 3, "reduce")]),
    },
    "fanout": {  # f -> y:A ; g(y:B) ; h(y:D)    (slots: A=0, B=1, D=2)
        "direct-direct": ([(_F, ["x"], "y", 0, {}, None), (_G, ["y"], "z", None, {"y": 1}, None), (_H, ["y"], "w", None, {"y": 2}, None)],
                          [(0, 1, "direct"), (0, 2, "direct")]),
        "map-map": ([(_F, ["x"], "y", 0, {}, "x[i] -> y[i]"), (_G, ["y"], "z", None, {"y": 1}, "y[i] -> z[i]"),
                     (_H, ["y"], "w", None, {"y": 2}, "y[i] -> w[i]")], [(0, 1, "elementwise"), (0, 2, "elementwise")]),
        "map-reduce": ([(_F, ["x"], "y", 0, {}, "x[i] -> y[i]"), (_G, ["y"], "z", None, {"y": 1}, "y[i] -> z[i]"),
                        (_H, ["y"], "w", None, {"y": 2}, None)], [(0, 1, "elementwise"), (0, 2, "reduce")]),
    },
}
NSLOTS = {"pair": 2, "chain": 4, "fanin": 4, "fanout": 3}


_TEMPLATES: dict = {}


def _mkfunc(name, params, annotations, reuse=False):
    """reuse=True: ONE function object per (name, parameters) for the whole process, re-annotated for every case (what a hint
    cache keyed by the function object would have to notice)"""
    key = (name, tuple(params))
    if reuse and key in _TEMPLATES:
        fn = _TEMPLATES[key]
    else:
        ns: dict = {}
        exec(f"def {name}({', '.join(params)}):\n    return 0\n", ns)  # noqa: S102
        fn = ns[name]
        if reuse:
            _TEMPLATES[key] = fn
    fn.__annotations__ = annotations
    return fn


def _is_array_tree(t) -> bool:
    n = norm(t)
    return n[0] == "array"


def edge_verdict(src, dst, kind):
    """Reference verdict of one edge; a reduction makes the consumer see Array[src]."""
    eff = src
    if kind == "generated":
        # the producer has no MapSpec and gets an auto-generated "... -> y[i]": pipefunc cannot check this edge (its own
        # note in the source) - unconstrained; the OTHER edges of the pipeline must still be checked
        return UNC, "auto-generated-mapspec", src
    if kind == "reduce" and src != NOANN:
        if _is_array_tree(src):
            return UNC, "array-output-reduced", src
        eff = ("array", src)
    v, reason, _ = rel(norm(eff), norm(dst))
    return v, reason, eff


def run_pipe(case):  # noqa: C901, PLR0912, PLR0915
    topo, wiring, validate, mode = case["topo"], case["wiring"], case["validate"], case["mode"]
    anns = [tup(a) for a in case["anns"]]
    funcs, edges = WIRINGS[topo][wiring]
    verdicts = [(edge_verdict(anns[s], anns[d], k), s, d, k) for s, d, k in edges]
    extra = _flags(*anns)
    outcome, exc = "constructed", None
    try:
        with warnings.catch_warnings(), contextlib.redirect_stdout(io.StringIO()):
            warnings.simplefilter("ignore")
            pfs = []
            for name, params, out, ret_slot, pslots, mapspec, *more in funcs:
                annotations = {p: obj(anns[sl]) for p, sl in pslots.items() if anns[sl] != NOANN}
                if ret_slot is not None and anns[ret_slot] != NOANN:
                    if not isinstance(out, tuple):
                        annotations["return"] = obj(anns[ret_slot])
                    elif len(more) > 1 and more[1] == "second":  # swapped names: the output CALLED y is the second element
                        annotations["return"] = tuple[int, obj(anns[ret_slot])]
                    else:
                        annotations["return"] = tuple[obj(anns[ret_slot]), int]
                pfs.append(PipeFunc(_mkfunc(name, params, annotations, reuse=(mode == "ctor")), out, mapspec=mapspec, **({"renames": dict(more[0])} if more else {})))
            if mode == "ctor":
                Pipeline(pfs, validate_type_annotations=validate)
            elif mode == "ctor-reversed":  # consumers listed before their producers
                Pipeline(pfs[::-1], validate_type_annotations=validate)
            elif mode == "add-reversed":
                p = Pipeline(pfs[-1:], validate_type_annotations=validate)
                for pf in pfs[-2::-1]:
                    p.add(pf)
            else:
                p = Pipeline(pfs[:1], validate_type_annotations=validate)
                for pf in pfs[1:]:
                    p.add(pf)
    except Exception as e:  # noqa: BLE001
        exc = e
        outcome = type(e).__name__
    desc = (f"{topo}/{wiring} [{', '.join(show(a) for a in anns)}] validate_type_annotations={validate} via {mode}")
    vs = [v[0][0] for v in verdicts]
    info = {"outcome": outcome, "verdicts": vs}

    def edge_sig(kind, ev, s, d, k):
        (v, reason, eff) = ev
        r = impl(obj(eff), obj(anns[d]))
        wrong = isinstance(r, Exception) or r != (v == MUST)
        why = blame(eff, anns[d])[0] if wrong else reason
        if wrong:  # is_type_compatible itself is wrong on this edge: class of the innermost disagreeing sub-pair
            sig = {"kind": kind, "level": "pipeline", "relation_wrong": True, "reason": why, **extra}
        else:  # the relation is right on this edge: the defect is in how the pipeline applies it
            sig = {"kind": kind, "level": "pipeline", "relation_wrong": False, "edge": k, **extra}
        return (sig,
                f"edge {show(eff)} -> {show(anns[d])} ({k}) is {v} [{reason}]; is_type_compatible on that edge = {r!r}")

    out = []
    is_type_rejection = isinstance(exc, TypeError) and "Inconsistent type annotations" in str(exc)
    if exc is not None and not is_type_rejection:
        sig = findings.exc_sig(exc, level="pipeline", validate=validate, **extra)
        out.append((sig, f"{desc}: raised {exc!r} (not the type-annotation TypeError)"))
    elif not validate:
        if exc is not None:
            out.append(({"kind": "rejected-validation-off", "level": "pipeline", "mode": mode, **extra},
                        f"{desc}: rejected with TypeError although validation is off"))
    elif exc is None and NOT in vs:
        ev, s, d, k = next(v for v in verdicts if v[0][0] == NOT)
        sig, t = edge_sig("accepted-incompatible", ev, s, d, k)
        out.append((sig, f"{desc}: constructed, but {t}"))
    elif exc is not None and all(v == MUST for v in vs):
        where = _slot_sites(funcs)
        named = [v for v in verdicts if f"Argument `{where[v[2]][0]}`" in str(exc) and f"`{where[v[2]][1]}(...)` expects" in str(exc)]
        ev, s, d, k = (named or verdicts)[0]
        sig, t = edge_sig("rejected-compatible", ev, s, d, k)
        out.append((sig, f"{desc}: TypeError although every edge is compatible; {t}"))
    return info, out


def _slot_sites(funcs):
    """annotation slot of a consumer parameter -> (parameter name, function name)"""
    return {sl: (p, name) for name, _, _, _, pslots, *_ in funcs for p, sl in pslots.items()}


# ------------------------------------------------------------------------------------------------
def run_case(case):
    op = case["op"]
    if op == "pair":
        return check_pair(tup(case["a"]), tup(case["b"]))[3]
    if op == "triple":
        ta, tb = tup(case["a"]), tup(case["b"])
        r = impl(obj(ta), obj(tb))
        if isinstance(r, Exception):
            return [(findings.exc_sig(r, level="test-triple"), f"test_typing.py:{case['line']} ({show(ta)}, {show(tb)}) raised {r!r}")]
        out = list(check_pair(ta, tb)[3])
        if r != case["expected"] and not out:
            out.append(({"kind": "test-triple-mismatch", "level": "test-triple"},
                        f"test_typing.py:{case['line']}: is_type_compatible({show(ta)}, {show(tb)}) = {r}, the test expects {case['expected']}"))
        return out
    if op == "pipe":
        for earlier in case.get("after", []):
            # the template functions were first annotated by these cases (in the process that found the violation)
            run_pipe({**earlier, "op": "pipe"})
        return run_pipe(case)[1]
    raise ValueError(op)


def replay(art):
    return [sig for sig, _ in run_case(art)]


# ------------------------------------------------------------------------------------------------
def _chunks(stage, kind, rows, cols, n):
    return [(stage, (kind, rows, cols, c, n)) for c in range(n)]


def plan(tier, seed):
    selfcheck()
    units = [("test-triples", ("triples",))]
    units += _chunks("pairs-depth2", "pairs", "d2", "d2", 96)
    units += _chunks("pairs-depth3-unary-wrappers", "pairs", "w3", "w3", 32)
    units += [("string-metadata+none-literal", ("pairs", "strmeta", "probe", 0, 1)), ("string-metadata+none-literal", ("pairs", "probe", "strmeta", 0, 1)),
              ("string-metadata+none-literal", ("pairs", "strmeta", "strmeta", 0, 1)),
              ("string-metadata+none-literal", ("pairs", "nonelit", "probe", 0, 1)), ("string-metadata+none-literal", ("pairs", "probe", "nonelit", 0, 1)),
              ("string-metadata+none-literal", ("pairs", "nonelit", "nonelit", 0, 1))]
    for w in WIRINGS["pair"]:
        for c in range(4):
            units.append(("pipelines-2-nodes", ("pipe2", w, c, 4)))
    units.append(("pipelines-2-nodes", ("pipe2str",)))
    for topo in ("chain", "fanin", "fanout"):
        for w in WIRINGS[topo]:
            n = (8 if tier == "thorough" else 4) if topo != "fanout" else 1
            for c in range(n):
                units.append(("pipelines-3-nodes", ("pipe3", topo, w, c, n, "p3t" if tier == "thorough" else "p3q")))
    if tier == "thorough":
        units += _chunks("pairs-depth3-x-depth2", "pairs3", "d3r", "d2", 128)
        units += _chunks("pairs-depth3-x-depth2", "pairs3", "d2", "d3r", 64)
        units += _chunks("pairs-depth3-x-depth3", "pairs3", "d3c", "d3c", 256)
    by_stage: dict = {}
    for st, u in units:
        by_stage.setdefault(st, []).append((st, u))
    out = []
    for us in by_stage.values():
        r = seed % len(us)
        out.extend(us[r:] + us[:r])
    return out


def _feature_strata(acc, trees, product):
    for op in ("union", "opt", "ann", "array", "tv", "tuple", "dict", "list", "set", "Any", "None", "NoAnn"):
        n = sum(1 for t in trees if contains(t, op))
        if n:
            acc.stratum(f"annotations-with-{op}:rows-of-{product}", n)


def run_unit(unit):  # noqa: C901, PLR0912, PLR0915
    acc = Acc()
    kind = unit[0]
    if kind == "triples":
        for line, a, b, exp in TRIPLES:
            case = {"op": "triple", "line": line, "a": a, "b": b, "expected": exp}
            acc.case(f"t|{line}")
            acc.stratum("test-triples")
            for sig, text in run_case(case):
                acc.violation(sig, case, text)
        acc.sample({"op": "triple", "line": TRIPLES[0][0], "a": TRIPLES[0][1], "b": TRIPLES[0][2], "expected": TRIPLES[0][3]})
    elif kind in ("pairs", "pairs3"):
        _, rname, cname, c, n = unit
        rows, cols = alphabet(rname), alphabet(cname)
        cobjs = [obj(t) for t in cols]
        cshow = [show(t) for t in cols]
        per_pair_keys = kind == "pairs"
        counts: dict = {}
        trivial = 0
        for i in range(c, len(rows), n):
            ta = rows[i]
            oa = obj(ta)
            sa = show(ta)
            for j, tb in enumerate(cols):
                v, reason, r, viol = check_pair(ta, tb, oa, cobjs[j])
                k = (v, reason, r if isinstance(r, (bool, str)) else str(r))
                counts[k] = counts.get(k, 0) + 1
                if v != UNC and reason not in TRIVIAL_REASONS:
                    if per_pair_keys:
                        acc.case(f"{sa}>{cshow[j]}")
                    else:
                        acc.case(f"{sa}>{v}>{reason}")
                else:
                    trivial += 1
                for sig, text in viol:
                    acc.violation(sig, {"op": "pair", "a": lst(ta), "b": lst(tb)}, text)
            if kind == "pairs3":
                rel.cache_clear()
        acc.case(None, n=trivial)
        for (v, reason, r), cnt in counts.items():
            acc.stratum(f"verdict:{v}", cnt)
            acc.stratum(f"reason:{reason}", cnt)
            if v != UNC and reason not in TRIVIAL_REASONS:
                acc.stratum(f"nontrivial-pairs:{rname}x{cname}", cnt)
            acc.outcome(f"{v}|{reason}|{r}")
        if c == 0:  # once per (rows x cols) product
            _feature_strata(acc, rows, f"{rname}x{cname}")
            acc.stratum(f"alphabet-size:rows-of-{rname}x{cname}", len(rows))
            acc.stratum(f"alphabet-size:cols-of-{rname}x{cname}", len(cols))
            acc.sample({"op": "pair", "a": lst(rows[len(rows) // 2]), "b": lst(cols[len(cols) // 3])})
    elif kind in ("pipe2", "pipe2str"):
        if kind == "pipe2":
            _, w, c, n = unit
            combos = [(w, a, b) for i, a in enumerate(P2) if i % n == c for b in P2]
        else:
            combos = [(w, a, b) for w in WIRINGS["pair"] for a in PSTR for b in (("str",), ("int",), ANY, ("array", ("str",)), ("array", ("int",)))]
            combos += [(w, a, b) for w in WIRINGS["pair"] for b in PSTR for a in (("str",), ("int",), ("array", ("int",)))]
            combos += [(w, a, b) for w in ("direct", "elementwise") for a, b in PNONE]
        for w, a, b in combos:
            for validate in (True, False):
                for mode in ("ctor", "add", "ctor-reversed", "add-reversed"):
                    _do_pipe(acc, {"op": "pipe", "topo": "pair", "wiring": w, "anns": [lst(a), lst(b)], "validate": validate, "mode": mode})
        if kind == "pipe2" and c == 0:
            acc.sample({"op": "pipe", "topo": "pair", "wiring": w, "anns": [lst(P2[1]), lst(P2[3])], "validate": True, "mode": "ctor"})
    elif kind == "pipe3":
        _, topo, w, c, n, pname = unit
        k = NSLOTS[topo]
        idx = 0
        for combo in itertools.product(P3[pname], repeat=k):
            idx += 1
            if idx % n != c:
                continue
            for validate in (True, False):
                _do_pipe(acc, {"op": "pipe", "topo": topo, "wiring": w, "anns": [lst(a) for a in combo], "validate": validate, "mode": "ctor"})
        if c == 0:
            acc.sample({"op": "pipe", "topo": topo, "wiring": w, "anns": [lst(P3[pname][1])] * k, "validate": True, "mode": "ctor"})
    else:
        raise ValueError(kind)
    return acc


_TEMPLATE_FIRST: dict = {}  # (function name, parameters) -> the first case that annotated this template function in this process


def _do_pipe(acc, case):
    if case["mode"] == "ctor":
        # the re-annotated template functions make a case depend on earlier ones (a hint cache keyed by the function object
        # remembers the FIRST annotations): the artefact carries the first case of every template it uses
        mini = {k: case[k] for k in ("topo", "wiring", "anns", "validate", "mode")}
        keys = [(name, tuple(params)) for name, params, *_ in WIRINGS[case["topo"]][case["wiring"]][0]]
        firsts = []
        for k in keys:
            f0 = _TEMPLATE_FIRST.setdefault(k, mini)
            if f0 is not mini and f0 not in firsts:
                firsts.append(f0)
        if firsts:
            case = {**case, "after": firsts}
    info, viol = run_pipe(case)
    vs = info["verdicts"]
    anns = [tup(a) for a in case["anns"]]
    funcs, edges = WIRINGS[case["topo"]][case["wiring"]]
    explicit = any(v != UNC and anns[s] != NOANN and anns[d] != NOANN for v, (s, d, _) in zip(vs, edges))
    key = None
    if explicit:
        key = f"{case['topo']}|{case['wiring']}|{'|'.join(show(a) for a in anns)}|{case['validate']}|{case['mode']}"
    acc.case(key)
    expect = "any" if not case["validate"] else ("reject" if NOT in vs else ("accept" if all(v == MUST for v in vs) else "free"))
    acc.stratum(f"pipeline:{case['topo']}/{case['wiring']}")
    acc.stratum(f"pipeline-expectation:{'validation-off' if not case['validate'] else expect}")
    for _, _, k in edges:
        acc.stratum(f"pipeline-edge:{k}")
    acc.outcome(f"pipe|{expect}|{info['outcome']}")
    for sig, text in viol:
        acc.violation(sig, case, text)
