"""C10 — structural rewrites preserve what a pipeline computes (DESIGN.md §5 C10).

Explicit-state BFS over REWRITE SEQUENCES applied to real Pipeline objects. A state is the canonical form of the real
pipeline (per function: original name, renames, defaults, bound, MapSpec string, nesting structure); a transition
applies one rewrite of the alphabet to the real object. The model side is tiny: the name map old -> new, the list of
added MapSpec axes, the partition of the original functions into top-level nodes, and the reference evaluators of
vmc/gen_dag.py / vmc/gen_map.py for the ORIGINAL pipeline. On every new state the complete oracle runs (every
retained output x every input assignment x both calling conventions, and map); on every transition of a
non-mutating rewrite the original is checked unchanged, and both objects are then mutated in turn to probe aliasing.
"""
from __future__ import annotations

import collections
import contextlib
import copy
import io
import itertools
import json
import warnings

import cloudpickle
import numpy as np
from pipefunc import NestedPipeFunc, PipeFunc, Pipeline

from .. import findings, gen_dag, gen_map, terms
from ..acc import Acc
from . import c03

ID = "C10"
LEVEL = "model_checking"
TECHNIQUE = ("explicit-state BFS over rewrite sequences on real Pipeline objects (states merged by canonical pipeline form), oracle = reference "
             "evaluator of the ORIGINAL pipeline under the tracked name map; aliasing probed by mutating either object after every non-mutating rewrite")
RULE = ("bases: 13 hand-picked G-DAG pipelines (chain, diamond, fan-in, tuple-output leaf / interior, nullary, signature / PipeFunc default, bound root / "
        "upstream, renamed, disconnected, shared root) + the five MapSpec pipelines of C03; thorough adds ALL G-DAG pipelines with N<=3 functions and the "
        "default/bound decorations of N<=2. Alphabet: copy, cloudpickle round trip, join and | with a disjoint fresh pipeline, update_renames (every root / "
        "output -> fresh name), a default set through one FUNCTION after the pipeline has been used, one update_renames call that exchanges two output names, update_renames(..., overwrite=True) after earlier renamings (all undone), nest of a pair with ONE exported name (new_output_name = last output of the leaf), function-level update_scope with exclude and pipeline-level update_scope with exclude, update_scope('s') on inputs / outputs / both and update_scope(None) likewise (thorough: re-scoping to 't'), nest_funcs "
        "(every convex subset of >= 2 top-level nodes with one leaf, in place and on a copy, and '*'), simplified_pipeline(every node, both "
        "conservatively_combine), split_disconnected (every component), add_mapspec_axis(every root, fresh axis; thorough: a second axis and zipping "
        "another root onto an added axis). BFS over sequences of length <= 2 (quick; thorough: <= 3 for the hand-picked bases and N<=2, <= 2 for the "
        "decorated and the single-output N=3 bases, 1 for every N=3 base); two histories are merged when the canonical form of the real pipeline AND the "
        "model's name map / axes / partition coincide. On every new state: pipeline(output, ...) for every retained output x {all needed roots, "
        "defaulted roots omitted, each single suppliable intermediate} x {flat dotted keys, nested scope dicts}, requested tuples, and "
        "map(parallel=False, storage='dict') with flat / nested / default-omitting inputs. On every transition of a rewrite that returns a new "
        "pipeline: original unchanged (form and results), no shared PipeFunc objects, then defaults+renames of every root and a bound value on every "
        "function of the RESULT must not reach the original, and the same on the ORIGINAL must not reach the result. non-trivial = distinct "
        "(base, canonical state) other than the base itself")
ASSUMPTIONS = ["reference evaluators of vmc/gen_dag.py (bound > keyword > upstream > default) and vmc/gen_map.py (MapSpec denotation) for the ORIGINAL pipeline",
               "user functions are uninterpreted term builders, so value equality is derivation equality",
               "a nested node runs as one function: to request one of its outputs every (non-bound, non-defaulted) root of all its members is supplied, and an "
               "intermediate is only supplied when no member of the node that produces it has to run",
               "the position of an added MapSpec axis is not specified: arrays are compared after aligning axes BY NAME with Pipeline.mapspec_axes",
               "when simplified_pipeline / nest_funcs refuse (ValueError 'No combinable nodes', NotImplementedError for MapSpecs, 'Cannot combine' MapSpecs) "
               "and when split_disconnected says 'fully connected', no transition is taken (the property does not say when they apply)",
               "simplified_pipeline must retain the requested output; which other outputs it retains is read from the result",
               "states with equal canonical form and equal model have equal futures (fresh names are functions of the current name, not of the step)",
               "work units of one base share no visited set: `states` sums per-unit counts, `states_distinct` is the number of distinct (base, state) pairs"]
BUDGET = {"quick": 150.0, "thorough": 3000.0}

AXIS_SIZES = {"k0": 2, "k1": 3, "k2": 2}
NONMUTATING = ("copy", "pickle", "join", "simplify", "split")


# ------------------------------------------------------------------------------------------------
# bases
# ------------------------------------------------------------------------------------------------
def _F(name, params, outs, **kw):
    return {"name": name, "params": list(params), "outs": list(outs), **kw}


QUICK_DAG = {
    "chain3": {"funcs": [_F("f0", ["x"], ["o0"]), _F("f1", ["o0", "y"], ["o1"]), _F("f2", ["o1"], ["o2"])]},
    "diamond4": {"funcs": [_F("f0", ["x"], ["o0"]), _F("f1", ["o0"], ["o1"]), _F("f2", ["o0", "y"], ["o2"]), _F("f3", ["o1", "o2"], ["o3"])]},
    # as diamond4, but the final output's name sorts BEFORE the other heads (simplified_pipeline orders merged groups by name)
    "diamond4-leaf-sorts-first": {"funcs": [_F("f0", ["x"], ["o0"]), _F("f1", ["o0"], ["o1"]), _F("f2", ["o0", "y"], ["o2"]), _F("f3", ["o1", "o2"], ["a3"])]},
    "fan-in": {"funcs": [_F("f0", ["x"], ["o0"]), _F("f1", ["y"], ["o1"]), _F("f2", ["o0", "o1"], ["o2"])]},
    "tuple-leaf": {"funcs": [_F("f0", ["x"], ["o0"]), _F("f1", ["o0", "y"], ["o1", "p1"])]},
    # the two-output leaf returns a dict and has a custom output_picker
    "tuple-leaf-custom-picker": {"funcs": [_F("f0", ["x"], ["o0"]), _F("f1", ["o0", "y"], ["o1", "p1"], picker=True)], "deco": "custom-picker"},
    "tuple-interior": {"funcs": [_F("f0", ["x", "y"], ["o0", "p0"]), _F("f1", ["o0"], ["o1"]), _F("f2", ["o1", "p0"], ["o2"])]},
    "nullary": {"funcs": [_F("f0", [], ["o0"]), _F("f1", ["x", "o0"], ["o1"])]},
    "sig-default": {"funcs": [_F("f0", ["x", "y"], ["o0"], sigdef={"y": "dy"}), _F("f1", ["o0"], ["o1"])], "deco": "sigdef"},
    "pf-default": {"funcs": [_F("f0", ["x"], ["o0"]), _F("f1", ["y", "o0"], ["o1"], pfdef={"y": "dy"})], "deco": "pfdef"},
    "bound-root": {"funcs": [_F("f0", ["x", "y"], ["o0"], bound={"y": "by"}), _F("f1", ["x", "o0"], ["o1"])], "deco": "bound-root"},
    "bound-upstream": {"funcs": [_F("f0", ["x"], ["o0"]), _F("f1", ["y", "o0"], ["o1"], bound={"o0": "bo0"}), _F("f2", ["o1"], ["o2"])],
                       "deco": "bound-upstream"},
    "disconnected": {"funcs": [_F("f0", ["x"], ["o0"]), _F("f1", ["y"], ["o1"]), _F("f2", ["o1"], ["o2"])]},
    "renamed": {"funcs": [_F("f0", ["x"], ["o0"], ren={"x": "x_orig", "o0": "o0_orig"}), _F("f1", ["y", "o0"], ["o1"], ren={"o0": "o0_orig"})],
                "deco": "rename"},
    "shared-root": {"funcs": [_F("f0", ["x"], ["o0"]), _F("f1", ["x", "o0"], ["o1", "p1"]), _F("f2", ["p1", "y"], ["o2"])]},
    # two functions with NO function-to-function path that share a root (whose default only one of them declares): ONE component
    "connected-only-through-a-root": {"funcs": [_F("f0", ["x", "y"], ["o0"], sigdef={"y": "dy"}), _F("f1", ["y"], ["o1"])], "deco": "sigdef"},
}


def _quiet(fn, *a, **k):
    with contextlib.redirect_stdout(io.StringIO()), warnings.catch_warnings():
        warnings.simplefilter("ignore")
        return fn(*a, **k)


def bases(tier):
    """the hand-picked bases; base = {"id", "fam", "spec"}"""
    out = []
    for k, s in QUICK_DAG.items():
        out.append({"id": "dag:" + k, "fam": "dag", "spec": s})
    for k, s in c03.PIPES.items():
        out.append({"id": "map:" + k, "fam": "map", "spec": s})
    return out


def gdag_bases(nmax):
    seen = {gen_dag._key(s) for s in QUICK_DAG.values()}
    for n in range(1, nmax + 1):
        for s in gen_dag.base_specs(n):
            if gen_dag._key(s) not in seen:
                yield n, {"id": f"gdag{n}:" + gen_dag._key(s), "fam": "dag", "spec": s}


def decorated_bases(nmax):
    for n in range(1, nmax + 1):
        for s in gen_dag.base_specs(n):
            for d in gen_dag.decorations(s):
                yield n, {"id": f"deco{n}:" + gen_dag._key(d), "fam": "dag", "spec": d}


# ------------------------------------------------------------------------------------------------
# the model: original spec (+ joined functions), name map, added axes, top-level partition
# ------------------------------------------------------------------------------------------------
class Model:
    def __init__(self, base):
        self.fam = base["fam"]
        self.spec = copy.deepcopy(base["spec"])
        self.M = {}
        for f in self.spec["funcs"]:
            for n in [*f["params"], *f["outs"]]:
                self.M[n] = n
        self.axes: list = []          # [[root, ...], axis name] in the order added
        self.groups = [frozenset([f["name"]]) for f in self.spec["funcs"]]
        self.must = {o for f in self.spec["funcs"] for o in f["outs"]}
        self.njoin = 0
        self.dropped: set = set()     # outputs that simplified_pipeline did not keep
        self.nest_names: dict = {}    # nested group -> {output: its name when the node was created}

    # -- static structure of the original ------------------------------------------------------
    @property
    def funcs(self):
        return self.spec["funcs"]

    def func(self, name):
        return next(f for f in self.funcs if f["name"] == name)

    def alive(self):
        return set().union(*self.groups) if self.groups else set()

    def producers(self):
        return {o: f["name"] for f in self.funcs for o in f["outs"] if f["name"] in self.alive()}

    def unbound(self, f):
        return [p for p in f["params"] if p not in f.get("bound", {})]

    def group_of(self, fname):
        return next(g for g in self.groups if fname in g)

    def group_outs(self, g):
        return {o for n in g for o in self.func(n)["outs"]}

    def group_params(self, g):
        inside = self.group_outs(g)
        return {p for n in g for p in self.unbound(self.func(n)) if p not in inside}

    def roots(self):
        prod = self.producers()
        return sorted({p for g in self.groups for p in self.group_params(g) if p not in prod})

    def outputs(self):
        return sorted(o for n in self.alive() for o in self.func(n)["outs"] if o not in self.dropped)

    def note_nests(self):
        for g in self.groups:
            if len(g) > 1 and g not in self.nest_names:  # records of nodes nested earlier (now inside g) are kept
                self.nest_names[g] = {n: self.M[n] for n in self.group_outs(g) | self.group_params(g)}

    def defaults(self):
        if self.fam != "dag":
            return {}
        return {k: v for k, v in gen_dag.pipeline_defaults(self.spec).items() if k in self.roots()}

    def inv(self):
        return {v: k for k, v in self.M.items()}

    def depends(self, out, roots):
        """does output `out` of the CURRENT pipeline depend on any of `roots`? A nested node is one function: all its
        outputs depend on all its (non-bound) inputs."""
        prod = self.producers()
        seen, stack = set(), [out]
        while stack:
            n = stack.pop()
            if n in roots:
                return True
            if n not in prod:
                continue
            g = self.group_of(prod[n])
            if g in seen:
                continue
            seen.add(g)
            stack.extend(self.group_params(g))
        return False

    def group_edges(self):
        """top-level dependency edges (producer group index -> consumer group index)"""
        prod = self.producers()
        e = set()
        for j, g in enumerate(self.groups):
            for p in self.group_params(g):
                if p in prod:
                    i = self.groups.index(self.group_of(prod[p]))
                    if i != j:
                        e.add((i, j))
        return e

    def needed(self, out, supplied=()):
        """roots to supply when requesting `out` with the intermediates `supplied` given; None when the node that produces a
        supplied intermediate has to run anyway (then the request is unconstrained)."""
        prod = self.producers()
        blocked = {self.groups.index(self.group_of(prod[s])) for s in supplied}
        roots, seen = set(), set()
        stack = [self.groups.index(self.group_of(prod[out]))]
        while stack:
            gi = stack.pop()
            if gi in seen:
                continue
            seen.add(gi)
            if gi in blocked:
                return None
            for p in self.group_params(self.groups[gi]):
                if p in supplied:
                    continue
                if p in prod:
                    stack.append(self.groups.index(self.group_of(prod[p])))
                else:
                    roots.add(p)
        return roots

    # -- axes ------------------------------------------------------------------------------------
    def root_axes(self, r):
        base = list(self.spec.get("roots", {}).get(r, [])) if self.fam == "map" else []
        return base + [k for rs, k in self.axes if r in rs]

    def size(self, axis):
        if axis in AXIS_SIZES:
            return AXIS_SIZES[axis]
        return self.spec["sizes"][axis]

    def _nest_renamed(self, outs):
        """was a name of some nested node (at any depth) changed after the node was created?"""
        for g, names in self.nest_names.items():
            if any(g <= h for h in self.groups):
                mine = self.group_outs(g)
                for n, v in names.items():
                    if (n in mine) == outs and self.M[n] != v:
                        return True
        return False

    def key(self):
        live = set(self.roots()) | set(self.outputs())
        return json.dumps([sorted((k, v) for k, v in self.M.items() if k in live), self.axes, sorted(sorted(g) for g in self.groups)])

    def feats(self):
        nested = [g for g in self.groups if len(g) > 1]
        return {
            "nested": bool(nested),
            "tuple": any(len(self.func(n)["outs"]) > 1 for n in self.alive()),
            "nest_leaf_tuple": False,  # filled in from the real object (check_state)
            "nest_bound": any(self.func(n).get("bound") for g in nested for n in g),
            "nest_out_renamed": self._nest_renamed(outs=True),
            "nest_in_renamed": self._nest_renamed(outs=False),
            "mapped": self.fam == "map" or bool(self.axes),
            "scoped": any("." in self.M[n] for n in self.roots() + self.outputs()),
        }


def prepend_scope(name, scope):
    if scope is None:
        return name.split(".", 1)[1] if "." in name else name
    if name.startswith(scope + "."):
        return name
    if "." in name:
        name = name.split(".", 1)[1]
    return f"{scope}.{name}"


def fresh(name):
    return name.replace(".", "_") + "r"


# ------------------------------------------------------------------------------------------------
# canonical form and structure of the real object
# ------------------------------------------------------------------------------------------------
def fcanon(f):
    common = [sorted(f._renames.items()), sorted((k, repr(v)) for k, v in f._defaults.items()),
              sorted((k, repr(v)) for k, v in f._bound.items()), str(f.mapspec) if f.mapspec is not None else None,
              list(f._output_name) if isinstance(f._output_name, tuple) else f._output_name]
    if isinstance(f, NestedPipeFunc):
        return ["N", sorted((fcanon(g) for g in f.pipeline.functions), key=json.dumps), *common]
    return ["F", getattr(f.func, "__name__", "?"), *common]


def canon(p) -> str:
    return json.dumps(sorted((fcanon(f) for f in p.functions), key=json.dumps))


def members(f):
    if isinstance(f, NestedPipeFunc):
        return frozenset().union(*(members(g) for g in f.pipeline.functions))
    return frozenset([getattr(f.func, "__name__", "?")])


def structure(p):
    return sorted((members(f) for f in p.functions), key=sorted)


# ------------------------------------------------------------------------------------------------
# applying one rewrite to the real object and to the model
# ------------------------------------------------------------------------------------------------
class Rejected(Exception):
    """the rewrite said it does not apply (no transition)"""


def join_pipeline(n):
    fn = terms.make_function(f"j{n}", [f"jx{n}"])
    return _quiet(Pipeline, [PipeFunc(fn, f"jo{n}")])


def apply_impl(p, op, m):  # noqa: C901, PLR0911, PLR0912
    """returns the rewritten pipeline (the same object for in-place rewrites)"""
    k = op[0]
    if k == "copy":
        return p.copy()
    if k == "pickle":
        return cloudpickle.loads(cloudpickle.dumps(p))
    if k == "join":
        q = join_pipeline(m.njoin)
        return p.join(q) if op[1] == "join" else (p | q)
    if k == "rename":
        p.update_renames({op[1]: op[2]})
        return p
    if k == "rename-swap":
        # ONE update_renames call that exchanges two output names (passes through a state in which both functions claim one name)
        p.update_renames({op[1]: op[2], op[2]: op[1]})
        return p
    if k == "rename-ow":
        # update_renames(..., overwrite=True): every earlier renaming (scopes included) is undone, only this one remains
        p.update_renames({op[1]: op[2]}, overwrite=True)
        return p
    if k == "nest1":
        # nest with ONE exported name (new_output_name): the other outputs of the nested functions are not available any more
        q = p.copy()
        try:
            q.nest_funcs(set(op[1]), new_output_name=op[2])
        except ValueError as e:
            if "Cannot combine" in str(e) and m.feats()["mapped"]:
                raise Rejected(str(e)) from e
            raise
        return q
    if k == "rename-f":
        # the same renaming made through the FUNCTIONS (every function that has the name), not through the pipeline
        for f in list(p.functions):
            if op[1] in f.parameters or op[1] in (f.output_name if isinstance(f.output_name, tuple) else (f.output_name,)):
                f.update_renames({op[1]: op[2]})
        return p
    if k == "default":
        p.update_defaults({op[1]: "UD"})
        return p
    if k == "default-f":
        # a default set through the FUNCTION (the pipeline has been used before: see build()), for a root only this function takes
        p[op[2]].update_defaults({op[1]: "UD"})
        return p
    if k == "scope":
        mode = op[2]
        p.update_scope(op[1], inputs="*" if mode in ("in", "both") else None, outputs="*" if mode in ("out", "both") else None)
        return p
    if k == "scope-x":
        # pipeline-level scope on everything EXCEPT one name
        p.update_scope(op[1], inputs="*", outputs="*", exclude={op[2]})
        return p
    if k == "scope-f":
        # function-level scope on the inputs of ONE function, excluding the names it shares with other functions
        p[op[2]].update_scope(op[1], inputs="*", exclude=set(op[3]))
        return p
    if k == "nest":
        q = p if op[2] else p.copy()
        try:
            q.nest_funcs("*" if op[1] == "*" else set(op[1]))
        except ValueError as e:
            if "Cannot combine" in str(e) and m.feats()["mapped"]:
                raise Rejected(str(e)) from e
            raise
        return q
    if k == "simplify":
        try:
            return p.simplified_pipeline(op[1], conservatively_combine=bool(op[2]))
        except ValueError as e:
            if "No combinable nodes" in str(e):
                raise Rejected(str(e)) from e
            raise
        except NotImplementedError as e:
            if m.feats()["mapped"]:
                raise Rejected(str(e)) from e
            raise
    if k == "split":
        try:
            parts = p.split_disconnected()
        except ValueError as e:
            if "fully connected" in str(e):
                raise Rejected(str(e)) from e
            raise
        parts = sorted(parts, key=lambda q: sorted(sorted(g) for g in structure(q)))
        if op[1] >= len(parts):
            raise Rejected("no such component")
        p._c10_parts = parts  # noqa: SLF001  (kept for the partition check of the transition)
        return parts[op[1]]
    if k == "axis":
        p.add_mapspec_axis(op[1], axis=op[2])
        return p
    raise ValueError(op)


def apply_model(m, op, q):  # noqa: C901, PLR0912
    """advance the model by `op`; `q` = the real result (its grouping is adopted after simplify / split)"""
    k = op[0]
    inv = m.inv()
    if k == "join":
        n = m.njoin
        if m.fam == "dag":
            m.spec["funcs"].append({"name": f"j{n}", "params": [f"jx{n}"], "outs": [f"jo{n}"]})
        else:
            m.spec["funcs"].append({"name": f"j{n}", "params": [f"jx{n}"], "ms": None, "out_axes": [], "internal": [], "outs": [f"jo{n}"]})
            m.spec["roots"] = {**m.spec["roots"], f"jx{n}": []}
        m.M[f"jx{n}"] = f"jx{n}"
        m.M[f"jo{n}"] = f"jo{n}"
        m.groups.append(frozenset([f"j{n}"]))
        m.must.add(f"jo{n}")
        m.njoin += 1
    elif k == "rename-swap":
        a_, b_ = inv[op[1]], inv[op[2]]
        m.M[a_], m.M[b_] = op[2], op[1]
    elif k == "rename-ow":
        tgt = inv[op[1]]
        for n in m.M:
            m.M[n] = n
        m.M[tgt] = op[2]
    elif k == "nest1":
        prod = m.producers()
        sel = {m.groups.index(m.group_of(prod[inv[o]])) for o in op[1]}
        merged = frozenset().union(*(m.groups[i] for i in sel))
        m.groups = [g for i, g in enumerate(m.groups) if i not in sel] + [merged]
        gone = {o for o in m.group_outs(merged) if o != inv[op[2]]}
        m.dropped |= gone
        m.must -= gone
        m.note_nests()
    elif k in ("rename", "rename-f"):
        m.M[inv[op[1]]] = op[2]
    elif k in ("default", "default-f"):
        orig = inv[op[1]]
        for f in m.spec["funcs"]:
            if orig in f["params"] and orig not in f.get("bound", {}):
                f.setdefault("pfdef", {})[orig] = "UD"
    elif k == "scope":
        names = set()
        if op[2] in ("in", "both"):
            names |= set(m.roots())
        if op[2] in ("out", "both"):
            names |= set(m.outputs())
        for n in names:
            m.M[n] = prepend_scope(m.M[n], op[1])
    elif k == "scope-x":
        for n in set(m.roots()) | set(m.outputs()):
            if m.M[n] != op[2]:
                m.M[n] = prepend_scope(m.M[n], op[1])
    elif k == "scope-f":
        for n in exclusive_roots(m, m.producers()[inv[op[2]]]):
            m.M[n] = prepend_scope(m.M[n], op[1])
    elif k == "nest":
        if op[1] == "*":
            m.groups = [frozenset().union(*m.groups)]
        else:
            prod = m.producers()
            sel = {m.groups.index(m.group_of(prod[inv[o]])) for o in op[1]}
            merged = frozenset().union(*(m.groups[i] for i in sel))
            m.groups = [g for i, g in enumerate(m.groups) if i not in sel] + [merged]
        m.note_nests()
    elif k == "simplify":
        m.groups = [frozenset(g) for g in structure(q)]
        m.must = {inv[op[1]]}
        m.dropped |= {o for o in m.outputs() if m.M[o] not in q.all_output_names}
        m.note_nests()
    elif k == "split":
        keep = frozenset().union(*structure(q))
        m.groups = [g for g in m.groups if g <= keep]
        m.must = {o for o in m.must if o in m.outputs()}
    elif k == "axis":
        r = inv[op[1]]
        for ent in m.axes:
            if ent[1] == op[2]:
                ent[0].append(r)
                break
        else:
            m.axes.append([[r], op[2]])


def build_base(base):
    if base["fam"] == "dag":
        return gen_dag.build(base["spec"])
    return gen_map.build(base["spec"])


class ApplyError(Exception):
    def __init__(self, step, exc):
        super().__init__(f"step {step}: {type(exc).__name__}: {exc}")
        self.step, self.exc = step, exc


def build(base, hist):
    """fresh real pipeline + model with the history replayed"""
    p = _quiet(build_base, base)
    m = Model(base)
    for i, op in enumerate(hist):
        if (i and hist[i - 1][0] in ("pickle", "copy")) or op[0] in ("default-f",):
            # use the copied / unpickled object once before it is rewritten again: its lazily computed state (defaults, root
            # arguments, composed functions) then exists and a rewrite that fails to reset it becomes observable
            try:
                behaviour(p, m)
            except Exception:  # noqa: BLE001, S110
                pass
        try:
            q = _quiet(apply_impl, p, op, m)
        except Rejected:
            raise
        except Exception as e:  # noqa: BLE001
            raise ApplyError(i, e) from e
        apply_model(m, op, q)
        p = q
    return p, m


# ------------------------------------------------------------------------------------------------
# enumeration of the enabled rewrites
# ------------------------------------------------------------------------------------------------
def _convex_single_leaf(m, sel):
    edges = m.group_edges()
    sel = set(sel)
    leaves = [i for i in sel if not any((i, j) in edges for j in sel)]
    if len(leaves) != 1:
        return False
    succ = collections.defaultdict(set)
    for a, b in edges:
        succ[a].add(b)

    def reach(srcs):
        seen, st = set(), list(srcs)
        while st:
            n = st.pop()
            for t in succ[n]:
                if t not in seen:
                    seen.add(t)
                    st.append(t)
        return seen
    down = reach(sel) - sel
    return not (reach(down) & sel)


def exclusive_roots(m, fname):
    """root parameters of function `fname` that no other live function takes"""
    f = m.func(fname)
    others = {p for n in m.alive() if n != fname for p in m.func(n)["params"]}
    return [p for p in m.unbound(f) if p in m.roots() and p not in others]


def ops_of(p, m, hist, tier):  # noqa: C901, PLR0912
    ops = _ops_of(p, m, hist, tier)
    # a rename target must be a name nobody holds (the fresh name of one base may already have been given to another one by an
    # earlier overwrite / swap): such a request is rightly refused and is not part of the alphabet
    cur = {m.M[n] for n in m.roots() + m.outputs()}
    out = []
    for op in ops:
        if op[0] in ("rename", "rename-f", "rename-ow") and op[2] in cur:
            nm = op[2]
            while nm in cur:
                nm += "r"
            op = [op[0], op[1], nm]
        out.append(op)
    return out


def _ops_of(p, m, hist, tier):  # noqa: C901, PLR0912
    thorough = tier == "thorough"
    ops = [["copy"], ["pickle"]]
    if sum(1 for o in hist if o[0] == "join") < (2 if thorough else 1):
        ops += [["join", "join"], ["join", "or"]]
    roots, outs = m.roots(), m.outputs()
    cur = [m.M[n] for n in roots + outs]
    for c in cur:
        ops.append(["rename", c, fresh(c)])
    for c in ([m.M[roots[0]]] if roots else []) + ([m.M[outs[0]]] if outs else []):
        ops.append(["rename-f", c, fresh(c)])  # through the functions (matters after pickle: back-references)
    if (all(len(g) == 1 for g in m.groups) and not any(f.get("ren") for f in m.spec["funcs"]) and any(m.M[n] != n for n in roots + outs)
            and not any(o[0] == "rename-ow" for o in hist) and outs):
        ops.append(["rename-ow", m.M[outs[0]], fresh(m.M[outs[0]])])
    if len(outs) >= 2 and all(len(g) == 1 for g in m.groups) and not any(o[0] == "rename-swap" for o in hist):
        # the first two outputs in LISTING order (so that the function listed first receives the name the second still holds)
        listed = [o for f_ in m.spec["funcs"] if f_["name"] in m.alive() for o in f_["outs"][:1] if o not in m.dropped]
        if len(listed) >= 2:
            ops.append(["rename-swap", m.M[listed[0]], m.M[listed[1]]])
    if m.fam == "dag" and roots and not any(o[0] == "default" for o in hist):
        ops.append(["default", m.M[roots[0]]])  # a default set AFTER construction (must survive copies, nesting, ...)
    if m.fam == "dag" and not any(o[0] in ("default", "default-f") for o in hist):
        for g in m.groups:
            if len(g) == 1:
                (fname,) = g
                ex = exclusive_roots(m, fname)
                f_ = m.func(fname)
                if ex and f_["outs"][0] not in m.dropped:
                    ops.append(["default-f", m.M[ex[0]], m.M[f_["outs"][0]]])
                    break
    # the scope name is a proper prefix of an existing name (first letter of the first output): "o" for o0, o1, ...;
    # a scope that merely BEGINS a name must still be prepended to it
    sc = sorted(outs)[0].split(".")[-1][0]
    if any(c.split(".")[-1] == sc or c.split(".")[0] == sc for c in cur):
        sc = "s"  # a scope that EQUALS a parameter name is (rightly) refused; the map family has one-letter names
    for mode in ("in", "out", "both"):
        ops.append(["scope", sc, mode])
    if roots and len(cur) >= 2 and not any(o[0] == "scope-x" for o in hist):
        ops.append(["scope-x", sc, m.M[roots[0]]])
    if not any(o[0] == "scope-f" for o in hist):
        for g in m.groups:
            if len(g) != 1:
                continue
            (fname,) = g
            f = m.func(fname)
            excl = exclusive_roots(m, fname)
            shared = [q_ for q_ in f["params"] if q_ not in excl]
            if excl and shared and f["outs"][0] not in m.dropped:
                ops.append(["scope-f", sc, m.M[f["outs"][0]], sorted(m.M.get(q_, q_) for q_ in shared)])
                break
    if any("." in c for c in cur):
        for mode in ("in", "out", "both"):
            ops.append(["scope", None, mode])
        if thorough:
            ops.append(["scope", "t", "both"])
    # nest: every convex subset of >= 2 top-level nodes with a single leaf
    first_out = [m.M[sorted(o for o in m.group_outs(g) if o not in m.dropped)[0]] for g in m.groups]
    n = len(m.groups)
    for r in range(2, n + 1):
        for sel in itertools.combinations(range(n), r):
            if _convex_single_leaf(m, sel):
                for inplace in (False, True):
                    ops.append(["nest", sorted(first_out[i] for i in sel), inplace])
                if r == 2 and not any(o[0] == "nest1" for o in hist):
                    # one exported name: the LAST output of the leaf function of the pair (the second one of a tuple output),
                    # provided nothing outside the pair consumes another output of the pair
                    gs = [m.groups[i] for i in sel]
                    if all(len(g) == 1 for g in gs):
                        edges = m.group_edges()
                        leaf_i = next(i for i in sel if not any((i, j) in edges for j in sel))
                        (leaf_name,) = m.groups[leaf_i]
                        export = m.func(leaf_name)["outs"][-1]
                        pair_outs = set().union(*(m.group_outs(g) for g in gs))
                        outside = {p_ for j, g in enumerate(m.groups) if j not in sel for p_ in m.group_params(g)}
                        if export not in m.dropped and not ((pair_outs - {export}) & outside):
                            ops.append(["nest1", sorted(first_out[i] for i in sel), m.M[export]])
                if r == n:
                    ops.append(["nest", "*", False])
                    ops.append(["nest", "*", True])
    for o in first_out:
        for cc in (False, True):
            ops.append(["simplify", o, cc])
    try:
        ncomp = len(_quiet(p.split_disconnected))
    except Exception:  # noqa: BLE001
        ncomp = 1
    for i in range(ncomp if ncomp > 1 else 1):
        ops.append(["split", i])  # with one component: the refusal itself is exercised (Rejected)
    nax = len(m.axes)
    if nax < (2 if thorough else 1):
        for r in roots:
            ops.append(["axis", m.M[r], f"k{nax}"])
    if thorough:
        for rs, k in m.axes:
            for r in roots:
                if r not in rs and m.root_axes(r) == []:
                    ops.append(["axis", m.M[r], k])
    return ops


# ------------------------------------------------------------------------------------------------
# reference values
# ------------------------------------------------------------------------------------------------
def token_array(root, shape):
    if not shape:
        return f"<{root}>"
    arr = np.empty(shape, dtype=object)
    for idx in itertools.product(*map(range, shape)):
        arr[idx] = root + "".join(map(str, idx))
    return arr


def ref_inputs(m, omit=()):
    return {r: token_array(r, tuple(m.size(a) for a in m.root_axes(r))) for r in m.roots() if r not in omit}


def base_ref(m, inputs):
    """original output -> (value, axis names) for the original (un-lifted) pipeline"""
    if m.fam == "dag":
        out = {}
        for o in m.outputs():
            out[o] = (gen_dag.ref_eval(m.spec, o, inputs).value, ())
        return out
    spec = dict(m.spec)
    alive = m.alive()
    spec["funcs"] = [f for f in m.funcs if f["name"] in alive]
    env, _ = gen_map.ref_map(spec, inputs)
    ax = gen_map.output_axes(spec)
    return {o: (env[o], tuple(ax[o])) for o in m.outputs()}


def lifted_ref(m, inputs, axes=None):
    axes = m.axes if axes is None else axes
    if not axes:
        return base_ref(m, inputs)
    rs, k = axes[-1]
    rs = [r for r in rs if r in inputs]  # roots that a split removed no longer take part
    if not rs:
        return lifted_ref(m, inputs, axes[:-1])
    size = m.size(k)
    parts = []
    for n in range(size):
        sub = dict(inputs)
        for r in rs:
            sub[r] = np.take(inputs[r], n, axis=-1) if inputs[r].ndim > 1 else inputs[r][n]
        parts.append(lifted_ref(m, sub, axes[:-1]))
    out = {}
    for o, (v0, ax0) in parts[0].items():
        if not m.depends(o, set(rs)):
            out[o] = (v0, ax0)
            continue
        shape0 = np.shape(v0) if isinstance(v0, np.ndarray) else ()
        arr = np.empty((*shape0, size), dtype=object)
        for n in range(size):
            arr[..., n] = parts[n][o][0]
        out[o] = (arr, (*ax0, k))
    return out


def nest_kwargs(kw):
    """{'s.x': v, 'y': w} -> {'s': {'x': v}, 'y': w}"""
    out = {}
    for k, v in kw.items():
        if "." in k:
            s, n = k.split(".", 1)
            out.setdefault(s, {})[n] = v
        else:
            out[k] = v
    return out


# ------------------------------------------------------------------------------------------------
# the state oracle
# ------------------------------------------------------------------------------------------------
def _exc(e, **extra):
    return findings.exc_sig(e, **extra), f"{type(e).__name__}: {str(e)[:140]}"


def call_requests(m):
    """(original output | tuple, kw in original names, label) for every retained output"""
    prod = m.producers()
    defaults = m.defaults()
    reqs = []
    for o in m.outputs():
        need = m.needed(o)
        kw = {r: f"<{r}>" for r in sorted(need)}
        reqs.append((o, kw, "full"))
        if any(r in defaults for r in need):
            reqs.append((o, {r: v for r, v in kw.items() if r not in defaults}, "defaults-omitted"))
        # one supplied intermediate
        full = gen_dag.ref_eval(m.spec, o, kw)
        for i in sorted(full.inter):
            if i == o or i not in prod or prod[i] == prod[o]:
                continue
            need_i = m.needed(o, (i,))
            if need_i is None:
                continue
            kwi = {r: f"<{r}>" for r in sorted(need_i)}
            kwi[i] = f"I<{i}>"
            ref = gen_dag.ref_eval(m.spec, o, kwi)
            if i not in ref.used_kw:
                continue  # a surplus keyword: rejection is the expected answer (C12's business)
            reqs.append((o, kwi, "intermediate"))
    for f in m.funcs:
        if f["name"] in m.alive() and len(f["outs"]) > 1 and len(m.group_of(f["name"])) == 1 and not f.get("picker"):
            # (with a custom picker the whole-tuple request returns the function's raw value, a dict keyed by the names the
            # function itself uses: nothing a rewrite could or should rename)
            need = m.needed(f["outs"][0])
            reqs.append((tuple(f["outs"]), {r: f"<{r}>" for r in sorted(need)}, "tuple"))
    return reqs


def check_calls(p, m, base_sig):
    res = []
    n = 0
    retained = set(p.all_output_names)
    for out, kw, label in call_requests(m):
        names = out if isinstance(out, tuple) else (out,)
        if not all(m.M[o] in retained for o in names):
            continue  # reported once by check_retained
        want = tuple(gen_dag.ref_eval(m.spec, o, kw).value for o in names)
        want = want if isinstance(out, tuple) else want[0]
        cur_out = tuple(m.M[o] for o in names) if isinstance(out, tuple) else m.M[out]
        flat = {m.M[k]: v for k, v in kw.items()}
        forms = [("flat", flat)]
        if any("." in k for k in flat):
            forms.append(("nested", nest_kwargs(flat)))
        for form, kwargs in forms:
            n += 1
            sig_extra = {"phase": "call", "form": form, "request": label, **base_sig}
            try:
                got = _quiet(p, cur_out, **kwargs)
            except Exception as e:  # noqa: BLE001
                s, t = _exc(e, **sig_extra)
                res.append((s, f"pipeline({cur_out!r}, **{kwargs}) raised {t}"))
                continue
            if isinstance(out, tuple):
                got = tuple(got) if isinstance(got, (tuple, list)) else got
            if got != want:
                res.append(({"kind": "value-mismatch", **sig_extra}, f"pipeline({cur_out!r}, **{kwargs}) = {got!r}, original computes {want!r}"))
    return res, n


def _align(arr, have, want):
    """transpose `arr` whose axes are named `have` into the order `want` (same names)"""
    if tuple(have) == tuple(want) or not isinstance(arr, np.ndarray):
        return arr
    return np.transpose(arr, [list(have).index(a) for a in want])


def run_map(p, m, omit=(), nested=False):
    """-> ({orig out: (T-rendering, shape)}, None) | (None, (sig, text)); axes are aligned by name"""
    inputs = ref_inputs(m, omit)
    want = lifted_ref(m, inputs)
    declared = _quiet(lambda: dict(p.mapspec_axes))
    cur_inputs = {}
    for r, v in inputs.items():
        ax = m.root_axes(r)
        have = declared.get(m.M[r], ())
        if ax and set(have) != set(ax):
            return None, None, ({"kind": "axes-mismatch", "what": "input"}, f"input {m.M[r]} has declared axes {have}, expected the axes {ax} (in any order)")
        v = _align(v, ax, have) if ax else v
        cur_inputs[m.M[r]] = list(v) if isinstance(v, np.ndarray) and v.ndim == 1 else v
    kw = {}
    if m.fam == "map":
        ish = gen_map.internal_shapes_arg(m.spec)
        if ish:
            kw["internal_shapes"] = {m.M[o]: s for o, s in ish.items() if o in m.M}
    if nested:
        cur_inputs = nest_kwargs(cur_inputs)
    r = _quiet(p.map, cur_inputs, parallel=False, storage="dict", **kw)
    got = {}
    retained = set(p.all_output_names)
    for o, (wv, wax) in want.items():
        if m.M[o] not in retained:
            continue
        have = declared.get(m.M[o], ())
        gv = r[m.M[o]].output
        got[o] = (gv, tuple(have))
    return got, want, None


def check_map(p, m, base_sig, omit=(), nested=False, label="full"):
    sig_extra = {"phase": "map", "form": "nested" if nested else "flat", "request": label, **base_sig}
    try:
        got, want, bad = run_map(p, m, omit, nested)
    except Exception as e:  # noqa: BLE001
        s, t = _exc(e, **sig_extra)
        return [(s, f"map({'nested' if nested else 'flat'} inputs, omitted {sorted(omit)}) raised {t}")]
    if bad:
        return [({**bad[0], **sig_extra}, bad[1])]
    res = []
    for o, (gv, have) in got.items():
        wv, wax = want[o]
        if set(have) != set(wax) or len(have) != len(wax):
            # internal axes of functions WITHOUT a MapSpec are not declared (the array is an opaque value)
            if not (not have and isinstance(wv, np.ndarray) and m.fam == "map" and not any(a in AXIS_SIZES for a in wax)):
                res.append(({"kind": "axes-mismatch", "what": "output", **sig_extra},
                            f"output {m.M[o]} has declared axes {have}, expected the axes {wax} (in any order)"))
                continue
            have = wax
        gv2 = _align(np.asarray(gv, dtype=object) if have else gv, have, wax) if have else gv
        if (terms.T(gv2), terms.shape_of(gv2) if have else ()) != (terms.T(wv), terms.shape_of(wv) if wax else ()):
            res.append(({"kind": "value-mismatch", **sig_extra},
                        f"map: {m.M[o]}{list(wax)} = {terms.T(gv2)}, original (lifted over {m.axes}) gives {terms.T(wv)}"))
    return res


def check_retained(p, m, base_sig):
    res = []
    retained = set(p.all_output_names)
    for o in sorted(m.must):
        if m.M[o] not in retained:
            res.append(({"kind": "output-lost", **base_sig}, f"output {o} (now {m.M[o]}) is not in the rewritten pipeline {sorted(retained)}"))
    known = {m.M[o] for o in m.outputs()}
    if retained - known:
        res.append(({"kind": "unknown-output", **base_sig}, f"rewritten pipeline has outputs {sorted(retained - known)} that the name map does not predict"))
    st = structure(p)
    if sorted(map(sorted, st)) != sorted(map(sorted, m.groups)):
        res.append(({"kind": "structure", **base_sig}, f"top-level nodes {sorted(map(sorted, st))}, expected {sorted(map(sorted, m.groups))}"))
    return res


def impl_nest_leaf_tuple(p):
    """case-class predicate (signatures only): some nested node's leaf is a node with several outputs"""
    for f in p.functions:
        if isinstance(f, NestedPipeFunc):
            with contextlib.suppress(Exception):
                if isinstance(f.pipeline.unique_leaf_node.output_name, tuple) or impl_nest_leaf_tuple(f.pipeline):
                    return True
    return False


def check_state(p, m, last):
    """the complete oracle on one state; -> ([(sig, text)], number of executions of the real pipeline)"""
    feats = m.feats()
    feats["nest_leaf_tuple"] = impl_nest_leaf_tuple(p)
    base_sig = {"op": last, **{k: feats[k] for k in ("nested", "tuple", "nest_leaf_tuple", "nest_bound", "nest_out_renamed", "nest_in_renamed", "mapped", "scoped")}}
    res = check_retained(p, m, base_sig)
    n = 0
    if any(s["kind"] in ("unknown-output", "structure") for s, _ in res):
        return res, n
    if m.fam == "dag" and not m.axes:
        r, k = check_calls(p, m, base_sig)
        res += r
        n += k
    res += check_map(p, m, base_sig)
    n += 1
    if any("." in m.M[r] for r in m.roots()):
        res += check_map(p, m, base_sig, nested=True)
        n += 1
    omit = [r for r in m.defaults() if not m.root_axes(r)]
    if omit:
        res += check_map(p, m, base_sig, omit=omit, label="defaults-omitted")
        n += 1
    return res, n


# ------------------------------------------------------------------------------------------------
# observable behaviour of an object (for the unchanged / aliasing checks)
# ------------------------------------------------------------------------------------------------
def behaviour(p, m):
    out = []
    if m.fam == "dag" and not m.axes:
        for o in m.outputs():
            kw = {m.M[r]: f"<{r}>" for r in sorted(m.needed(o))}
            try:
                out.append((o, repr(_quiet(p, m.M[o], **kw))))
            except Exception as e:  # noqa: BLE001
                out.append((o, "EXC " + type(e).__name__))
        return out
    try:
        got, _want, bad = run_map(p, m)
        if bad:
            return [("map", "BAD " + bad[1])]
        return [(o, terms.T(v), tuple(np.shape(v))) for o, (v, _a) in sorted(got.items())]
    except Exception as e:  # noqa: BLE001
        return [("map", "EXC " + type(e).__name__)]


def mutate(p):
    """later mutations of one object: on EVERY function a new value for an already bound parameter and a bound value on
    one more parameter, then a new default and a new name for EVERY root argument (best effort; their own effect is other
    properties' business); -> number applied"""
    n = 0

    def attempt(fn, arg):
        nonlocal n
        try:
            _quiet(fn, arg)
            n += 1
        except Exception:  # noqa: BLE001, S110
            pass

    for f in sorted(p.functions, key=lambda f: str(f.output_name)):
        if f._bound:  # a function that was CONSTRUCTED with bound values (its dict may be shared between copies)
            attempt(f.update_bound, {sorted(f._bound)[0]: "BM2"})
        ms_in = set(f.mapspec.input_names) if f.mapspec is not None else set()
        cand = [a for a in f.parameters if a not in f._bound and a not in ms_in and a not in f._defaults]
        if cand:
            attempt(f.update_bound, {cand[-1]: "BM"})
    roots = sorted(_quiet(lambda: p.topological_generations.root_args))
    if roots:
        attempt(p.update_defaults, {r: "DM" for r in roots})
        attempt(p.update_renames, {r: "mut_" + r.replace(".", "_") for r in roots})
    return n


def all_pipefuncs(p):
    out = []
    for f in p.functions:
        out.append(f)
        if isinstance(f, NestedPipeFunc):
            out.extend(all_pipefuncs(f.pipeline))
    return out


# ------------------------------------------------------------------------------------------------
# one case = one history; the LAST rewrite is the transition under test, the state reached is checked completely
# ------------------------------------------------------------------------------------------------
def run_history(base, hist, state_oracle=True, info=None):  # noqa: C901, PLR0912, PLR0915
    """-> [(sig, text)]; info (dict) receives: canon, rejected, traces, mutations"""
    info = info if info is not None else {}
    terms.LOG.clear()
    res = []
    traces = 0
    if not hist:
        p, m = build(base, [])
        info["canon"] = canon(p) + " | " + m.key()
        if state_oracle:
            r, n = check_state(p, m, "base")
            res += r
            traces += n
        info["traces"] = traces
        return res
    op = hist[-1]
    kind = op[0]
    p, m = build(base, hist[:-1])  # prefixes of explored histories always replay
    feats = m.feats()
    where = f"{base['id']} after {hist[:-1]}: {op}"
    nonmut = kind in NONMUTATING or (kind == "nest" and not op[2])
    if nonmut:
        c0, b0 = canon(p), behaviour(p, m)
        traces += 1
    m0 = copy.deepcopy(m)
    try:
        q = _quiet(apply_impl, p, op, m)
    except Rejected as e:
        info["rejected"] = str(e)[:60]
        info["traces"] = traces
        return res
    except Exception as e:  # noqa: BLE001
        sig = findings.exc_sig(e, phase="apply", op=kind, **{k: feats[k] for k in ("nested", "tuple", "mapped", "scoped")})
        info["traces"] = traces
        return [(sig, f"{where} raised {type(e).__name__}: {str(e)[:140]}")]
    apply_model(m, op, q)
    # merged only when the real state AND the model's prediction coincide — and the object has the same provenance: a
    # pickled / copied pipeline equals the original in every visible field but differs in hidden state (weak back-references
    # of its functions, cached properties), so it must be explored in its own right
    info["canon"] = canon(q) + " | " + m.key() + _provenance(hist)
    info["model"] = m
    if callable(state_oracle):
        # a state that was reached before is not examined again - except when the last step made a NEW object (copy,
        # pickle, join, ...): what that object computes depends on how the operation carried hidden state over, which two
        # histories ending in the same visible state need not share
        state_oracle = state_oracle(info["canon"]) or nonmut
    if kind == "split":
        parts = p._c10_parts  # noqa: SLF001
        names = [n for part in parts for g in structure(part) for n in g]
        if sorted(names) != sorted(m0.alive()):
            res.append(({"kind": "split-not-a-partition", "op": kind}, f"{where}: components hold {sorted(names)}, pipeline has {sorted(m0.alive())}"))
        # "disconnected" = no name in common: two components may not share a parameter (a shared root carries ONE value and possibly
        # a default that only one of its users declares) or an output
        part_names = []
        for part in parts:
            ns = set()
            for g in structure(part):
                for n in g:
                    fn = m0.func(n)
                    ns |= set(m0.unbound(fn)) | set(fn["outs"])
            part_names.append(ns)
        for a_, b_ in itertools.combinations(range(len(parts)), 2):
            common = part_names[a_] & part_names[b_]
            if common:
                res.append(({"kind": "split-separates-connected", "op": kind},
                            f"{where}: two components share the name(s) {sorted(common)}: {[sorted(sorted(g) for g in structure(q_)) for q_ in parts]}"))
                break
    if state_oracle:
        r, n = check_state(q, m, kind)
        res += [(s, f"{where}: {t}") for s, t in r]
        traces += n
    if nonmut:
        if q is p:
            res.append(({"kind": "returned-self", "op": kind}, f"{where} returned the receiver itself"))
        elif {id(f) for f in all_pipefuncs(q)} & {id(f) for f in all_pipefuncs(p)}:
            res.append(({"kind": "shared-pipefunc", "op": kind}, f"{where}: result and original share PipeFunc objects"))
        if canon(p) != c0:
            res.append(({"kind": "original-changed", "what": "canon", "op": kind}, f"{where} changed the original: {canon(p)} was {c0}"))
        elif behaviour(p, m0) != b0:
            res.append(({"kind": "original-changed", "what": "results", "op": kind}, f"{where} changed the results of the original"))
        bq = behaviour(q, m)
        cq = canon(q)
        traces += 2
        # a later mutation of the result must not reach the original …
        info["mutations"] = mutate(q)
        # … nor what the SAME rewrite of the (unchanged) original returns the next time
        try:
            q_again = _quiet(apply_impl, p, op, m0)
        except Exception as e:  # noqa: BLE001
            res.append((findings.exc_sig(e, phase="apply-again", op=kind), f"{where}: applying the same rewrite a second time raised {type(e).__name__}: {str(e)[:100]}"))
        else:
            if q_again is q:
                res.append(({"kind": "same-object-twice", "op": kind}, f"{where}: applied twice, the rewrite returned the SAME object (mutated in between)"))
            elif canon(q_again) != cq:
                res.append(({"kind": "aliasing", "dir": "result->next-result", "what": "canon", "op": kind},
                            f"{where}; the result was mutated, and the same rewrite applied again now gives {canon(q_again)[:200]} (was {cq[:200]})"))
            traces += 1
        if canon(p) != c0:
            res.append(({"kind": "aliasing", "dir": "result->original", "what": "canon", "op": kind},
                        f"{where}; then mutating the RESULT changed the original: {canon(p)} was {c0}"))
        elif behaviour(p, m0) != b0:
            res.append(({"kind": "aliasing", "dir": "result->original", "what": "results", "op": kind},
                        f"{where}; then mutating the RESULT changed the results of the original: {behaviour(p, m0)} was {b0}"))
        # … nor the other way round (the result is rebuilt: its own mutation above changed it)
        p2, m2 = build(base, hist[:-1])
        q2 = _quiet(apply_impl, p2, op, m2)
        c1 = canon(q2)
        info["mutations"] += mutate(p2)
        if canon(q2) != c1:
            res.append(({"kind": "aliasing", "dir": "original->result", "what": "canon", "op": kind},
                        f"{where}; then mutating the ORIGINAL changed the result: {canon(q2)} was {c1}"))
        elif behaviour(q2, m) != bq:
            res.append(({"kind": "aliasing", "dir": "original->result", "what": "results", "op": kind},
                        f"{where}; then mutating the ORIGINAL changed the results of the result: {behaviour(q2, m)} was {bq}"))
        traces += 3
    info["traces"] = traces
    return res


def _provenance(hist) -> str:
    kinds = sorted({op[0] for op in hist if op[0] in ("pickle", "copy", "rename-f", "scope-f", "default-f")})  # rename-f: the pipeline's own caches were reset indirectly
    return " | via:" + ",".join(kinds) if kinds else ""


def run_case(case):
    return run_history(case["base"], case["hist"], state_oracle=True)


# ------------------------------------------------------------------------------------------------
# BFS
# ------------------------------------------------------------------------------------------------
def bfs(base, depth, tier, chunk, nchunks, acc):  # noqa: C901
    p0, m0 = build(base, [])
    root = canon(p0) + " | " + m0.key()
    seen = {root}
    if chunk == 0:
        acc.states += 1
        acc.case(None)
        for s, t in run_history(base, [], True):
            acc.violation(s, {"base": base, "hist": []}, t)
    frontier = collections.deque([[]])
    first = True
    while frontier:
        hist = frontier.popleft()
        if len(hist) >= depth:
            continue
        p, m = (p0, m0) if not hist else build(base, hist)
        ops = ops_of(p, m, hist, tier)
        if first:
            ops = [o for i, o in enumerate(ops) if i % nchunks == chunk]
            first = False
        for op in ops:
            h = hist + [op]
            info = {}
            res = run_history(base, h, state_oracle=lambda key: key not in seen, info=info)
            if "rejected" in info:
                acc.stratum("refused:" + op[0])
                acc.case(None)
                continue
            key = info.get("canon")
            new = key is not None and key not in seen
            _mq = info.get("model")
            acc.transitions += 1
            acc.traces += info.get("traces", 0) + 1
            acc.stratum("op:" + op[0] + (":" + str(op[1]) if op[0] in ("join",) else ""))
            acc.max_depth = max(acc.max_depth, len(h))
            if info.get("mutations"):
                acc.stratum("aliasing-probes")
            acc.case((base["id"], key) if new else None)
            for s, t in res:
                acc.violation(s, {"base": base, "hist": h}, t)
                acc.outcome("violation:" + s.get("kind", "?"))
            if new:
                seen.add(key)
                acc.states += 1
                acc.outcome("state-ok" if not res else "state-with-violation")
                feats = _mq.feats()
                for k, v in feats.items():
                    if v:
                        acc.stratum("state:" + k)
                if any("." in v for v in _mq.M.values()):
                    acc.stratum("state:scoped")
                if len(acc.samples) < 2 and len(h) == depth:
                    acc.sample({"base": base["id"], "hist": h})
                frontier.append(h)


# ------------------------------------------------------------------------------------------------
# runner interface
# ------------------------------------------------------------------------------------------------
def plan(tier, seed):
    stages = []
    if tier == "quick":
        for b in bases(tier):
            n = 12 if b["fam"] == "dag" else 6
            stages.append(("hand-picked-bases-depth2", [(b, 2, c, n) for c in range(n)]))
        # one tiny pipeline to depth 3 (e.g. nest; update_defaults; copy)
        tiny = {"id": "dag:chain2", "fam": "dag", "spec": {"funcs": [_F("f0", ["x"], ["o0"]), _F("f1", ["o0", "y"], ["o1"])]}}
        stages.append(("tiny-chain-depth3", [(tiny, 3, c, 16) for c in range(16)]))
    else:
        for b in bases(tier):
            n = 16
            stages.append(("hand-picked-bases-depth3", [(b, 3, c, n) for c in range(n)]))
        for n, b in gdag_bases(3):
            if n <= 2:
                stages.append(("gdag-n<=2-depth3", [(b, 3, c, 4) for c in range(4)]))
        for n, b in decorated_bases(2):
            if not b["spec"]["deco"].startswith("rename"):  # renames are an operation of the alphabet already
                stages.append(("decorated-n<=2-depth2", [(b, 2, 0, 1)]))
        for n, b in gdag_bases(3):
            if n == 3:
                stages.append(("gdag-n3-depth1", [(b, 1, 0, 1)]))
        for n, b in gdag_bases(3):
            if n == 3 and all(len(f["outs"]) == 1 for f in b["spec"]["funcs"]):
                stages.append(("gdag-n3-single-output-depth2", [(b, 2, 0, 1)]))
    by = collections.OrderedDict()
    for st, us in stages:
        by.setdefault(st, []).extend((st, (tier, *u)) for u in us)
    out = []
    for st, us in by.items():
        r = seed % len(us)
        out.extend(us[r:] + us[:r])
    return out


def run_unit(unit):
    tier, base, depth, chunk, nchunks = unit
    acc = Acc()
    bfs(base, depth, tier, chunk, nchunks, acc)
    acc.stratum("base:" + base["id"].split(":")[0])
    return acc


def replay(art):
    return [s for s, _ in run_case(art)]


def finalize(total, tier):
    # chunks of one base share no 'seen' set: the number of DISTINCT canonical states is the non-trivial key count (+ bases)
    return {"states_distinct": len(total.nontrivial), "states_note": "states = sum over work units (a state reached in two units is counted twice); "
            "states_distinct = distinct (base, canonical form) pairs"}
