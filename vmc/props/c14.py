"""C14 — cache containers conform to their replacement-policy model (DESIGN.md §5 C14).

Part A: explicit-state BFS over the REAL cache objects (state = the implementation's own internals), every transition
        checked against a transition relation derived from the documented policy.
Part B: exhaustive thread interleavings (preemption-bounded) of small programs on shared caches whose manager proxies
        are scheduling points; oracle = linearizability w.r.t. the same implementation run sequentially.
Part C: sequential alternation of one history between two REAL forked processes on a real multiprocessing.Manager.
"""
from __future__ import annotations

import itertools
import os
import pathlib
import shutil

import pipefunc.cache as pc

from .. import boot, explore, findings, threads
from ..acc import Acc

ID = "C14"
LEVEL = "model_checking"
TECHNIQUE = "explicit-state BFS over the real cache objects against a policy transition relation + exhaustive preemption-bounded interleavings (baton scheduler) with a linearizability oracle"
RULE = ("A: LRUCache/HybridCache/SimpleCache/DiskCache(+/- in-memory LRU), max_size 1..3 (HybridCache max_size 2 also with weights (1,0) and (0.2,0.8)), keys a,b,c, values 1,None, durations 0,2,3: BFS over "
        "put/get/clear(/reopen) to depth D (quick: lru 5, hybrid 4, simple 3, disk 3; thorough: 7/5/4/4) from the implementation's own state; contains/len read at every state. B: every 2-thread program "
        "with 1..2 operations per thread on colliding keys, all interleavings with <= 2 preemptions. C: every history over put/get/clear of length <= 3 (thorough 4), plus put;clear;put;x, x every "
        "assignment of its steps to two forked processes")
ASSUMPTIONS = ["shared mode is explored at the granularity of manager-proxy calls (each is one serialized RPC in reality)",
               "DiskCache file age = logical time of the last write (Path.stat is wrapped for files under the cache directory, because kernel ctime ties are real)",
               "an exact score tie in HybridCache leaves the victim unconstrained",
               "re-putting a resident key into a full HybridCache may or may not evict (unconstrained), but if it evicts, the victim must be the lowest score"]
BUDGET = {"quick": 75.0, "thorough": 900.0}

KEYS = ("a", "b", "c")
VALUES = (1, None)  # None is a value like any other (a stored None must not read as "missing")
DURS = (0.0, 2.0, 3.0)  # (2, 3) with unequal access counts separates duration/total_duration from duration/anything-else at depth 4


# ------------------------------------------------------------------------------------------------
# logical ctime for DiskCache files
# ------------------------------------------------------------------------------------------------
_CTIME: dict[str, int] = {}
_CLOCK = [0]
_WATCH: list[str] = []
_real_stat = pathlib.Path.stat
_real_open = pathlib.Path.open


class _Stat:
    def __init__(self, st, ctime):
        self._st, self.st_ctime_ns = st, ctime

    def __getattr__(self, k):
        return getattr(self._st, k)


_real_exists = pathlib.Path.exists
_real_glob = pathlib.Path.glob
_real_unlink = pathlib.Path.unlink


def _watched(path) -> bool:
    return bool(_WATCH) and str(path).startswith(_WATCH[0])


def _exists(self, *a, **k):
    if _watched(self):
        threads.point(("fs.exists", self.name))
    return _real_exists(self, *a, **k)


def _glob(self, pattern, *a, **k):
    if _watched(self):
        threads.point(("fs.glob",))
        return iter(sorted(_real_glob(self, pattern, *a, **k)))  # listing is one atomic step, in a fixed order
    return _real_glob(self, pattern, *a, **k)


_real_replace = pathlib.Path.replace


def _replace(self, target):
    if _watched(self):
        threads.point(("fs.replace", self.name))
        _CLOCK[0] += 1
        _CTIME.pop(str(self), None)
        _CTIME[str(target)] = _CLOCK[0]  # a rename updates the ctime of the file
    return _real_replace(self, target)


class _OsShim:
    """pipefunc.cache.os stand-in: logical processes are threads of one OS process, so give each its own pid"""

    def getpid(self):
        s = threads.current()
        return 100000 + (s.cur if s is not None and s.cur is not None else 0)

    def __getattr__(self, k):
        return getattr(os, k)


def _unlink(self, *a, **k):
    if _watched(self):
        threads.point(("fs.unlink", self.name))
    return _real_unlink(self, *a, **k)


def _stat(self, *a, **k):
    if _watched(self):
        threads.point(("fs.stat", self.name))
    st = _real_stat(self, *a, **k)
    s = str(self)
    if _WATCH and s.startswith(_WATCH[0]) and s in _CTIME:
        return _Stat(st, _CTIME[s])
    return st


def _open(self, mode="r", *a, **k):
    if _watched(self):
        threads.point(("fs.open", self.name, mode))
    s = str(self)
    if _WATCH and s.startswith(_WATCH[0]) and any(c in mode for c in "wax+"):
        _CLOCK[0] += 1
        _CTIME[s] = _CLOCK[0]
        return _WFile(_real_open(self, mode, *a, **k))
    return _real_open(self, mode, *a, **k)


class _WFile:
    """write handle under the cache directory: the first write is a scheduling point (the file exists but is still empty)"""

    def __init__(self, f):
        self._f = f
        self._first = True

    def write(self, data):
        if self._first:
            self._first = False
            threads.point(("fs.write",))
        return self._f.write(data)

    def __enter__(self):
        return self

    def __exit__(self, *a):
        self._f.close()

    def __getattr__(self, k):
        return getattr(self._f, k)


def _install_fs_clock():
    pathlib.Path.stat = _stat
    pathlib.Path.open = _open
    pathlib.Path.exists = _exists
    pathlib.Path.glob = _glob
    pathlib.Path.unlink = _unlink
    pathlib.Path.replace = _replace
    if hasattr(pc, "os") and not isinstance(pc.os, _OsShim):
        pc.os = _OsShim()


# ------------------------------------------------------------------------------------------------
# building / observing
# ------------------------------------------------------------------------------------------------
def make(cfg, folder=None):
    kind = cfg["kind"]
    if kind == "lru":
        return pc.LRUCache(max_size=cfg["max_size"], shared=cfg.get("shared", False), allow_cloudpickle=cfg.get("cp", False))
    if kind == "hybrid":
        w = {"access_weight": cfg["weights"][0], "duration_weight": cfg["weights"][1]} if cfg.get("weights") else {}
        return pc.HybridCache(max_size=cfg["max_size"], shared=cfg.get("shared", False), allow_cloudpickle=cfg.get("cp", False), **w)
    if kind == "simple":
        return pc.SimpleCache()
    if kind == "disk":
        return pc.DiskCache(folder, max_size=cfg["max_size"], with_lru_cache=cfg.get("lru", True), lru_cache_size=cfg.get("lru_size", 2),
                            lru_shared=cfg.get("shared", False), use_cloudpickle=False)
    raise ValueError(kind)


def apply(c, op, cfg, folder=None):
    """returns (cache_object, ('ret', value) | ('exc', type, site))"""
    try:
        if op[0] == "put":
            if cfg["kind"] == "hybrid":
                c.put(op[1], op[2], op[3])
            else:
                c.put(op[1], op[2])
            return c, ("ret", None)
        if op[0] == "get":
            return c, ("ret", c.get(op[1]))
        if op[0] == "clear":
            c.clear()
            return c, ("ret", None)
        if op[0] == "reopen":
            c2 = make({**cfg, "max_size": op[1]}, folder)
            return c2, ("ret", None)
    except Exception as e:  # noqa: BLE001
        return c, ("exc", type(e).__name__, findings.exc_site(e))
    raise ValueError(op)


def _key_of_file(c, path):
    for k in KEYS:
        if c._get_file_path(k) == path:
            return k
    return "?" + path.name


def observe(c, cfg):
    """the implementation's own state, as plain data"""
    kind = cfg["kind"]
    if kind == "lru":
        return {"d": dict(c._cache_dict), "q": list(c._cache_queue)}
    if kind == "hybrid":
        return {"d": dict(c._cache_dict), "n": dict(c._access_counts), "t": dict(c._computation_durations)}
    if kind == "simple":
        return {"d": dict(c._cache_dict)}
    if kind == "disk":
        files = {}
        for f in c._all_files():
            k = _key_of_file(c, f)
            with _real_open(f, "rb") as fh:
                import pickle
                try:
                    v = pickle.load(fh)  # noqa: S301
                except Exception:  # noqa: BLE001
                    v = "<corrupt>"
            files[k] = (v, _CTIME.get(str(f), 0))
        o = {"files": files, "max_size": c.max_size}
        if c.with_lru_cache:
            o["lru"] = {"d": dict(c.lru_cache._cache_dict), "q": list(c.lru_cache._cache_queue)}
        return o
    raise ValueError(kind)


def canon(o):
    """canonical, hashable; DiskCache ctimes are reduced to their rank (only the order matters)"""
    def c(x):
        if isinstance(x, dict):
            return tuple(sorted((k, c(v)) for k, v in x.items()))
        if isinstance(x, (list, tuple)):
            return tuple(c(v) for v in x)
        return x
    if "files" in o:
        order = sorted(o["files"], key=lambda k: o["files"][k][1])
        o = {**o, "files": {k: (o["files"][k][0], order.index(k)) for k in o["files"]}}
    return c(o)


def reads(c):
    """read-only table: contains + len (must not change state, must not raise)"""
    try:
        return {"in": {k: (k in c) for k in KEYS}, "len": len(c)}
    except Exception as e:  # noqa: BLE001
        return {"exc": type(e).__name__, "site": findings.exc_site(e)}


# ------------------------------------------------------------------------------------------------
# the transition relation (what the documented policy allows)
# ------------------------------------------------------------------------------------------------
def _lru_invariants(d, q, max_size):
    if sorted(q) != sorted(d) or len(set(q)) != len(q):
        return "queue and dict are not a bijection"
    if len(d) > max_size:
        return "len exceeds max_size"
    return None


def check_step(cfg, before, op, ret, after, rd_after, reopened_smaller=False):  # noqa: C901, PLR0911, PLR0912, PLR0915
    """returns None or (kind, text, extra-signature)"""
    kind, ms = cfg["kind"], cfg["max_size"]
    if ret[0] == "exc":
        resident = op[0] == "put" and op[1] in (before.get("d") or before.get("files") or {})
        return ("raised", f"{op} raised {ret[1]} at {ret[2]}", {"exc": ret[1], "site": ret[2], "op": op[0], "reput_resident": bool(resident)})
    if "exc" in rd_after:
        return ("raised", f"contains/len raised {rd_after['exc']} after {op}", {"exc": rd_after["exc"], "site": rd_after["site"], "op": "read"})
    val = ret[1]
    if kind == "simple":
        d0, d1 = before["d"], after["d"]
        exp = dict(d0)
        if op[0] == "put":
            exp[op[1]] = op[2]
        elif op[0] == "clear":
            exp = {}
        elif op[0] == "get" and val != d0.get(op[1]):
            return ("wrong-value", f"get({op[1]}) = {val}, stored {d0.get(op[1])}", {})
        if d1 != exp:
            return ("wrong-state", f"{op}: {d0} -> {d1}, expected {exp}", {})
    elif kind == "lru":
        d0, q0, d1, q1 = before["d"], before["q"], after["d"], after["q"]
        inv = _lru_invariants(d1, q1, ms)
        if inv:
            return ("invariant", f"after {op}: {inv}: dict={d1} queue={q1}", {"op": op[0], "reput_resident": op[0] == "put" and op[1] in d0})
        if op[0] == "get":
            if val != d0.get(op[1]):
                return ("wrong-value", f"get({op[1]}) = {val}, stored {d0.get(op[1])}", {})
            expq = [k for k in q0 if k != op[1]] + ([op[1]] if op[1] in d0 else [])
            if d1 != d0 or q1 != expq:
                return ("recency", f"get({op[1]}): queue {q0} -> {q1}, expected {expq}", {"op": "get"})
        elif op[0] == "put":
            k, v = op[1], op[2]
            expd, expq = dict(d0), list(q0)
            if k in expd:
                expq.remove(k)
            elif len(expd) >= ms:
                victim = expq.pop(0)
                del expd[victim]
            expd[k] = v
            expq.append(k)
            if d1 != expd:
                return ("eviction", f"put({k},{v}) on dict={d0} queue={q0} (max {ms}) -> dict={d1}, LRU policy gives {expd}", {"op": "put", "reput_resident": k in d0})
            if q1 != expq:
                return ("recency", f"put({k},{v}): queue {q0} -> {q1}, expected {expq}", {"op": "put", "reput_resident": k in d0})
        elif op[0] == "clear" and (d1 or q1):
            return ("wrong-state", f"clear left dict={d1} queue={q1}", {})
    elif kind == "hybrid":
        d0, n0, t0, d1, n1, t1 = before["d"], before["n"], before["t"], after["d"], after["n"], after["t"]
        if not (set(d1) == set(n1) == set(t1)):
            return ("invariant", f"after {op}: dict/counts/durations keys differ: {d1} {n1} {t1}", {})
        if len(d1) > ms:
            return ("invariant", f"after {op}: len {len(d1)} exceeds max_size {ms}", {})
        if op[0] == "get":
            k = op[1]
            if val != d0.get(k):
                return ("wrong-value", f"get({k}) = {val}, stored {d0.get(k)}", {})
            expn = dict(n0)
            if k in n0:
                expn[k] += 1
            if d1 != d0 or n1 != expn or t1 != t0:
                return ("wrong-state", f"get({k}): counts {n0} -> {n1}, expected {expn}", {})
        elif op[0] == "put":
            k, v, dur = op[1], op[2], op[3]
            evicted = set(d0) - set(d1)
            if d1.get(k) != v or n1.get(k) != 1 or t1.get(k) != dur:
                return ("wrong-state", f"put({k},{v},{dur}) -> dict={d1} counts={n1} durations={t1}", {})
            for o in d1:
                if o != k and (d1[o] != d0.get(o) or n1[o] != n0.get(o) or t1[o] != t0.get(o)):
                    return ("wrong-state", f"put({k}) changed entry {o}", {})
            full = len(d0) >= ms
            if not full and evicted:
                return ("eviction", f"put({k}) evicted {evicted} although not full ({d0}, max {ms})", {"op": "put"})
            if full and k not in d0 and len(evicted) != 1:
                return ("eviction", f"put({k}) into full {d0} (max {ms}) evicted {sorted(evicted)}", {"op": "put"})
            if full and k in d0 and len(evicted) > 1:
                return ("eviction", f"re-put({k}) into full {d0} (max {ms}) evicted {sorted(evicted)}", {"op": "put"})
            # a victim must have the lowest score (exact ties leave the choice open)
            tn, tt = sum(n0.values()) or 1, sum(t0.values()) or 1
            aw, dw = cfg.get("weights") or (0.5, 0.5)
            score = {o: aw * n0[o] / tn + dw * t0[o] / tt for o in d0}
            for o in evicted:
                if any(score[x] < score[o] - 1e-12 for x in d0 if x != o):
                    return ("eviction", f"put({k}) into {d0} counts={n0} durations={t0}: evicted {o} (score {score[o]:.3f}) but a lower score exists {score}", {"op": "put"})
        elif op[0] == "clear" and (d1 or n1 or t1):
            return ("wrong-state", f"clear left {d1} {n1} {t1}", {})
    elif kind == "disk":
        f0, f1 = before["files"], after["files"]
        l0, l1 = before.get("lru"), after.get("lru")
        ms1 = after["max_size"]
        if l1 is not None:
            inv = _lru_invariants(l1["d"], l1["q"], cfg.get("lru_size", 2))
            if inv:
                return ("invariant", f"after {op}: in-memory LRU: {inv}", {"op": op[0]})
        if op[0] == "put":
            k, v = op[1], op[2]
            if ms1 is not None and len(f1) > ms1:
                return ("invariant", f"after {op}: {len(f1)} files exceed max_size {ms1}", {})
            exp = dict(f0)
            exp[k] = (v, max([c for _, c in f0.values()] + [0]) + 1)
            while ms1 is not None and len(exp) > ms1:
                oldest = min(exp, key=lambda x: exp[x][1])
                del exp[oldest]
            if {x: y[0] for x, y in f1.items()} != {x: y[0] for x, y in exp.items()}:
                return ("eviction", f"put({k},{v}) on files {f0} (max {ms1}) -> {f1}; oldest-file policy gives {sorted(exp)}", {"op": "put"})
        elif op[0] == "get":
            k = op[1]
            if l0 is not None and k in l0["d"]:
                expv = l0["d"][k]
            elif k in f0:
                expv = f0[k][0]
            else:
                expv = None
            if val != expv:
                return ("wrong-value", f"get({k}) = {val}, expected {expv} (files {f0}, lru {l0})", {})
            if {x: y[0] for x, y in f1.items()} != {x: y[0] for x, y in f0.items()}:
                return ("wrong-state", f"get({k}) changed the files: {f0} -> {f1}", {})
        elif op[0] == "clear":
            if f1 or (l1 and (l1["d"] or l1["q"])):
                return ("wrong-state", f"clear left files={f1} lru={l1}", {})
        elif op[0] == "reopen":
            if {x: y[0] for x, y in f1.items()} != {x: y[0] for x, y in f0.items()}:
                return ("wrong-state", f"reopen changed the files: {f0} -> {f1}", {})
    # present <=> get returns the value most recently put (checked through the read table + internals)
    if kind in ("lru", "hybrid", "simple"):
        d1 = after["d"]
        for k in KEYS:
            if rd_after["in"][k] != (k in d1):
                return ("contains", f"after {op}: ({k} in cache) = {rd_after['in'][k]} but dict = {d1}", {})
        if rd_after["len"] != len(d1):
            return ("len", f"after {op}: len = {rd_after['len']} but dict = {d1}", {})
        if kind != "simple" and rd_after["len"] > ms:
            return ("invariant", f"after {op}: len {rd_after['len']} > max_size {ms}", {})
    else:
        f1, l1 = after["files"], after.get("lru")
        for k in KEYS:
            present = k in f1 or (l1 is not None and k in l1["d"])
            if rd_after["in"][k] != present:
                return ("contains", f"after {op}: ({k} in cache) = {rd_after['in'][k]}, files={sorted(f1)} lru={l1}", {})
        if rd_after["len"] != len(f1):
            return ("len", f"after {op}: len = {rd_after['len']}, files = {sorted(f1)}", {})
    return None


def latest_value_check(cfg, hist, c):
    """a key is present exactly when get returns the value most recently put for it (history-based, no internals)"""
    last = {}
    for op in [*cfg.get("init", []), *hist]:
        if op[0] == "put":
            last[op[1]] = op[2]
        elif op[0] == "clear":
            last = {}
    for k in KEYS:
        present = k in c
        v = c.get(k)
        if present and v != last.get(k, object()):
            return ("stale-or-wrong", f"after {hist}: {k} is present but get = {v!r}, most recent put = {last.get(k)!r}", {})
        if not present and v is not None:
            return ("absent-but-readable", f"after {hist}: {k} not in cache but get = {v!r}", {})
    return None


# ------------------------------------------------------------------------------------------------
# Part A: BFS
# ------------------------------------------------------------------------------------------------
def ops_for(cfg):
    kind = cfg["kind"]
    ops = []
    for k in KEYS:
        for v in VALUES:
            if kind == "hybrid":
                ops.extend(("put", k, v, d) for d in DURS)
            else:
                ops.append(("put", k, v))
    ops.extend(("get", k) for k in KEYS)
    ops.append(("clear",))
    if kind == "disk":
        ops.extend(("reopen", m) for m in sorted({cfg["max_size"], 1, 2} if cfg.get("init") else {cfg["max_size"], 1}))
    return ops


def replay_history(cfg, hist):
    """fresh real object, history replayed; returns (cache, folder, cfg_now)"""
    folder = None
    if cfg["kind"] == "disk":
        folder = boot.mkscratch("c14-")
        _WATCH[:] = [folder]
        _CTIME.clear()
        _CLOCK[0] = 0
    c = make(cfg, folder)
    cfg_now = dict(cfg)
    for op in [*cfg.get("init", []), *hist]:
        c, _ = apply(c, op, cfg_now, folder)
        if op[0] == "reopen":
            cfg_now["max_size"] = op[1]
    return c, folder, cfg_now


def run_transition(cfg, hist, op):
    """executes hist then op on a fresh real object; returns (violation | None, canon_after, outcome)"""
    c, folder, cfg_now = replay_history(cfg, hist)
    try:
        before = observe(c, cfg_now)
        c2, ret = apply(c, op, cfg_now, folder)
        if op[0] == "reopen":
            cfg_now = {**cfg_now, "max_size": op[1]}
        after = observe(c2, cfg_now)
        rd = reads(c2)
        rd2 = reads(c2)
        after2 = observe(c2, cfg_now)
        v = check_step(cfg_now, before, op, ret, after, rd)
        if v is None and (rd != rd2 or canon(after) != canon(after2)):
            v = ("read-mutates", f"contains/len changed the state after {hist + [op]}", {})
        if v is None and ret[0] != "exc":
            v = latest_value_check(cfg_now, [*hist, op], c2)
            after = observe(c2, cfg_now)
        return v, canon(after), (ret[0], str(ret[1]) if ret[0] == "ret" else ret[1])
    finally:
        if folder:
            shutil.rmtree(folder, ignore_errors=True)
            _WATCH[:] = []


def bfs(cfg, depth, acc):
    import collections
    ops = ops_for(cfg)
    c, folder, _ = replay_history(cfg, [])
    seen = {canon(observe(c, cfg))}
    if folder:
        shutil.rmtree(folder, ignore_errors=True)
    frontier = collections.deque([[]])
    acc.states += 1
    while frontier:
        hist = frontier.popleft()
        if len(hist) >= depth:
            continue
        for op in ops:
            v, k, outcome = run_transition(cfg, hist, list(op))
            acc.transitions += 1
            acc.traces += 1
            acc.case(None)
            acc.outcome((cfg["kind"], op[0], outcome))
            if v is not None:
                kind, text, extra = v
                acc.violation({"kind": kind, "cache": cfg["kind"], "shared": cfg.get("shared", False), **extra},
                              {"part": "A", "cfg": cfg, "hist": hist, "op": list(op)}, f"{cfg}: after {hist}: {text}")
                continue  # do not expand beyond a violating state
            if k not in seen:
                seen.add(k)
                acc.states += 1
                acc.nontrivial.add(hash((str(cfg), k)))
                acc.max_depth = max(acc.max_depth, len(hist) + 1)
                frontier.append([*hist, list(op)])
    acc.sample({"cfg": cfg, "depth": depth, "example_history": [list(o) for o in ops[:3]]})


# ------------------------------------------------------------------------------------------------
# Part B: interleavings
# ------------------------------------------------------------------------------------------------
def _exec_program(cfg, init, prog, chooser):
    """prog: list of per-thread op lists. Returns (status, returns, final_state)"""
    pc.Manager = threads.FakeManager
    c = make({**cfg, "shared": True})
    for op in init:
        apply(c, op, cfg)
    results: dict = {}
    s = threads.Sched(chooser)

    def body(tid, ops):
        def run():
            for i, op in enumerate(ops):
                _, ret = apply(c, op, cfg)
                results[(tid, i)] = (ret[0], ret[1]) if ret[0] == "ret" else ("exc", ret[1], ret[2])
        return run

    for tid, ops in enumerate(prog):
        s.spawn(tid, body(tid, ops))
    status = s.run()
    return status, results, _state_sets(cfg, observe(c, cfg))


def _sequential_outcomes(cfg, init, prog):
    """all outcomes of running the operations atomically in every order that respects program order"""
    outs = set()
    idx = [(t, i) for t, ops in enumerate(prog) for i in range(len(ops))]
    for perm in itertools.permutations(idx):
        if any(perm.index((t, i)) > perm.index((t, i + 1)) for t, ops in enumerate(prog) for i in range(len(ops) - 1)):
            continue
        c = make({**cfg, "shared": False})
        for op in init:
            apply(c, op, cfg)
        res = {}
        for (t, i) in perm:
            _, ret = apply(c, prog[t][i], cfg)
            res[(t, i)] = (ret[0], ret[1]) if ret[0] == "ret" else ("exc", ret[1], ret[2])
        d = observe(c, cfg)
        outs.add((tuple(sorted(res.items())), _state_sets(cfg, d)))
    return outs


def _state_sets(cfg, o):
    """what a linearizability comparison can observe: contents (and recency order for LRU)"""
    if cfg["kind"] == "lru":
        return (tuple(sorted(o["d"].items())), tuple(o["q"]))
    return (tuple(sorted(o["d"].items())), tuple(sorted(o["n"].items())), tuple(sorted(o["t"].items())))


def run_program(cfg, init, prog, bound, acc=None):
    """returns list of (sig, text, choices)"""
    seq = _sequential_outcomes(cfg, init, prog)
    seq_raises = any(any(r[0] == "exc" for _, r in res) for res, _ in seq)
    out = []
    n = 0
    outcomes = set()

    def run(ch):
        return _exec_program(cfg, init, prog, ch)

    for ch, (status, results, _final) in explore.choice_dfs(run, bound):
        n += 1
        pc.Manager = threads.FakeManager
        c_state = _final
        if status != "ok":
            out.append(({"kind": status, "cache": cfg["kind"], "part": "B"}, f"{status} in {prog} after {init}", ch.choices))
            continue
        # rebuild observable state from the canon form is awkward; recompute from results instead
        key = tuple(sorted(results.items()))
        outcomes.add((key, c_state))
        if any(r[0] == "exc" for r in results.values()) and not seq_raises:
            r = next(r for r in results.values() if r[0] == "exc")
            out.append(({"kind": "raised", "cache": cfg["kind"], "part": "B", "exc": r[1], "site": r[2]},
                        f"{cfg['kind']} max_size={cfg['max_size']} init={init} prog={prog}: {r[1]} at {r[2]} under schedule {ch.choices}", ch.choices))
            continue
        if (key, c_state) not in seq:
            what = "returns" if not any(key == res for res, _ in seq) else "final-state"
            out.append(({"kind": "not-linearizable-" + what, "cache": cfg["kind"], "part": "B"},
                        f"{cfg['kind']} max_size={cfg['max_size']} init={init} prog={prog}: returns {dict(results)} final {c_state} match no sequential order; schedule {ch.choices}", ch.choices))
    if acc is not None:
        acc.transitions += n
        acc.traces += n
        for o in outcomes:
            acc.outcome(("B", str(prog), str(o)))
    return out, n, len(outcomes)


def _final_state_check(cfg, init, prog, choices):
    """final state of one interleaving must equal the final state of a sequential order with the same returns"""
    ch = explore.Chooser(choices)
    status, results, _ = _exec_program(cfg, init, prog, ch)
    return status, results


def programs(cfg):
    """2 threads, 1..2 ops each, on colliding keys"""
    kind = cfg["kind"]

    def put(k, v):
        return ["put", k, v, 1.0] if kind == "hybrid" else ["put", k, v]

    single = [["get", "a"], put("a", 2), put("b", 1), ["get", "b"], ["clear"]]
    progs = []
    for x, y in itertools.combinations_with_replacement(range(len(single)), 2):
        progs.append([[single[x]], [single[y]]])
    for x in range(len(single)):
        progs.append([[put("b", 1), ["get", "a"]], [single[x]]])
        progs.append([[["get", "a"], put("c", 1)], [single[x]]])
    return progs


def programs3(cfg):
    """3 threads, one operation each (thorough)"""
    kind = cfg["kind"]

    def put(k, v):
        return ["put", k, v, 1.0] if kind == "hybrid" else ["put", k, v]

    single = [["get", "a"], put("a", 2), put("b", 1), ["clear"]]
    return [[[single[x]], [single[y]], [single[z]]] for x, y, z in itertools.combinations_with_replacement(range(len(single)), 3)]


def inits(cfg):
    kind = cfg["kind"]
    a = ["put", "a", 1, 1.0] if kind == "hybrid" else ["put", "a", 1]
    b = ["put", "b", 1, 3.0] if kind == "hybrid" else ["put", "b", 1]
    return [[a], [a, b]]


# ------------------------------------------------------------------------------------------------
# Part D: two processes sharing one DiskCache directory (each with its own DiskCache object); every file-system call
# under the cache directory is a scheduling point
# ------------------------------------------------------------------------------------------------
def _disk_objects(cfg, folder, n):
    return [make({**cfg, "shared": False}, folder) for _ in range(n)]


def _disk_final(folder, c):
    files = {}
    for f in sorted(_real_glob(pathlib.Path(folder), "*.pkl")):
        import pickle
        with _real_open(f, "rb") as fh:
            try:
                files[_key_of_file(c, f)] = pickle.load(fh)  # noqa: S301
            except Exception:  # noqa: BLE001
                files[_key_of_file(c, f)] = "<corrupt>"
    return tuple(sorted(files.items()))


def _exec_disk(cfg, init, prog, chooser=None, order=None):
    """interleaved (chooser) or sequential-atomic (order = list of (thread, op index)) execution"""
    folder = boot.mkscratch("c14d-")
    _WATCH[:] = [folder]
    _CTIME.clear()
    _CLOCK[0] = 0
    try:
        objs = _disk_objects(cfg, folder, len(prog))
        for op in init:
            apply(objs[0], op, cfg, folder)
        results = {}

        def do(tid, i):
            _, ret = apply(objs[tid], prog[tid][i], cfg, folder)
            results[(tid, i)] = (ret[0], ret[1]) if ret[0] == "ret" else ("exc", ret[1], ret[2])

        if order is not None:
            for tid, i in order:
                do(tid, i)
            status = "ok"
        else:
            s = threads.Sched(chooser)
            for tid, ops in enumerate(prog):
                s.spawn(tid, (lambda tid=tid, ops=ops: [do(tid, i) for i in range(len(ops))]))
            status = s.run()
        return status, results, _disk_final(folder, objs[0])
    finally:
        _WATCH[:] = []
        shutil.rmtree(folder, ignore_errors=True)


def run_disk_program(cfg, init, prog, bound, acc=None):
    idx = [(t, i) for t, ops in enumerate(prog) for i in range(len(ops))]
    seq = set()
    for perm in itertools.permutations(idx):
        if any(perm.index((t, i)) > perm.index((t, i + 1)) for t, ops in enumerate(prog) for i in range(len(ops) - 1)):
            continue
        _, res, final = _exec_disk(cfg, init, prog, order=list(perm))
        seq.add((tuple(sorted(res.items())), final))
    seq_raises = any(any(r[0] == "exc" for _, r in res) for res, _ in seq)
    out, n, outcomes = [], 0, set()
    for ch, (status, results, final) in explore.choice_dfs(lambda c: _exec_disk(cfg, init, prog, chooser=c), bound):
        n += 1
        key = tuple(sorted(results.items()))
        outcomes.add((key, final))
        base = {"cache": "disk", "part": "D", "lru": bool(cfg.get("lru"))}
        if status != "ok":
            out.append(({"kind": status, **base}, f"{status} in disk program {prog} after {init}", ch.choices))
        elif any(r[0] == "exc" for r in results.values()) and not seq_raises:
            r = next(r for r in results.values() if r[0] == "exc")
            out.append(({"kind": "raised", "exc": r[1], "site": r[2], **base},
                        f"DiskCache max_size={cfg['max_size']} lru={cfg.get('lru')} init={init} two processes {prog}: {r[1]} at {r[2]} under schedule {ch.choices}", ch.choices))
        elif (key, final) not in seq:
            what = "returns" if not any(key == res for res, _ in seq) else "final-state"
            over = what == "final-state" and len(final) < min(len(f) for _, f in seq)
            corrupt = any(v == "<corrupt>" for _, v in final)
            out.append(({"kind": "not-linearizable-" + what, "over_eviction": over, "corrupt_file": corrupt, **base},
                        f"DiskCache max_size={cfg['max_size']} lru={cfg.get('lru')} init={init} two processes {prog}: returns {dict(results)} files {final} match no sequential order; schedule {ch.choices}", ch.choices))
    if acc is not None:
        acc.transitions += n
        acc.traces += n
        for o in outcomes:
            acc.outcome(("D", str(prog), str(o)))
    return out, n, len(outcomes)


def disk_programs():
    single = [["put", "a", 2], ["put", "b", 1], ["get", "a"], ["clear"], ["put", "c", 1]]
    progs = []
    for x, y in itertools.combinations_with_replacement(range(len(single)), 2):
        progs.append([[single[x]], [single[y]]])
    return progs


# ------------------------------------------------------------------------------------------------
# Part C: two real processes, sequential alternation, real Manager
# ------------------------------------------------------------------------------------------------
def run_two_process(cfg, hist, assign):
    """execute hist on ONE shared cache (real Manager); step i runs in a forked child if assign[i] == 1.
    Compared with the same history on a non-shared cache in one process."""
    import multiprocessing as mp

    pc.Manager = mp.Manager
    ref = make({**cfg, "shared": False})
    ref_rets = []
    for op in hist:
        _, r = apply(ref, op, cfg)
        ref_rets.append(list(r))
    c = make({**cfg, "shared": True, "cp": True})
    rets = []
    try:
        for op, who in zip(hist, assign):
            if who == 0:
                _, r = apply(c, op, cfg)
                rets.append(list(r))
            else:
                rd, wr = os.pipe()
                pid = os.fork()
                if pid == 0:
                    import pickle
                    try:
                        _, r = apply(c, op, cfg)
                        os.write(wr, pickle.dumps(list(r)))
                    finally:
                        os._exit(0)
                os.close(wr)
                import pickle
                data = b""
                while True:
                    chunk = os.read(rd, 65536)
                    if not chunk:
                        break
                    data += chunk
                os.close(rd)
                os.waitpid(pid, 0)
                rets.append(pickle.loads(data) if data else ["exc", "ChildDied", "?"])  # noqa: S301
        final = {k: (k in c, c.get(k)) for k in KEYS}
        final_ref = {k: (k in ref, ref.get(k)) for k in KEYS}
    finally:
        pc.Manager = threads.FakeManager
    out = []
    if rets != ref_rets or final != final_ref:
        exc = next((r for r in rets if r[0] == "exc"), None)
        sig = {"kind": "two-process-mismatch", "cache": cfg["kind"], "part": "C"}
        if exc:
            sig.update(exc=exc[1], site=exc[2])
        out.append((sig, f"{cfg['kind']} max_size={cfg['max_size']} shared: history {hist} split {assign} over two processes gives {rets} / {final}; "
                         f"single-process non-shared gives {ref_rets} / {final_ref}"))
    return out


# ------------------------------------------------------------------------------------------------
# plan / units
# ------------------------------------------------------------------------------------------------
def configs(tier):
    cf = []
    for ms in (1, 2, 3):
        cf.append({"kind": "lru", "max_size": ms})
        cf.append({"kind": "hybrid", "max_size": ms})
    cf.append({"kind": "simple", "max_size": 99})
    for ms in (1, 2, 3):
        cf.append({"kind": "disk", "max_size": ms, "lru": True, "lru_size": 2})
        cf.append({"kind": "disk", "max_size": ms, "lru": False})
    # start from a non-initial state: a directory that already holds three files (then reopen with a smaller max_size …)
    full = [["put", "a", 1], ["put", "b", 1], ["put", "c", 1]]
    cf.append({"kind": "disk", "max_size": 3, "lru": False, "init": full})
    cf.append({"kind": "disk", "max_size": 3, "lru": True, "lru_size": 2, "init": full})
    cf.append({"kind": "lru", "max_size": 3, "init": full})
    # HybridCache with non-default weights (frequency only / mostly duration)
    cf.append({"kind": "hybrid", "max_size": 2, "weights": [1.0, 0.0]})
    cf.append({"kind": "hybrid", "max_size": 2, "weights": [0.2, 0.8]})
    cf.append({"kind": "hybrid", "max_size": 3, "init": [["put", "a", 1, 0.0], ["put", "b", 1, 2.0], ["put", "c", 1, 3.0]]})
    return cf


DEPTH = {"quick": {"lru": 5, "hybrid": 4, "simple": 3, "disk": 3}, "thorough": {"lru": 7, "hybrid": 5, "simple": 4, "disk": 4}}


def plan(tier, seed):
    units = []
    for cfg in configs(tier):
        units.append(("A-bfs", ("A", cfg, DEPTH[tier][cfg["kind"]], False)))
    for cfg in ({"kind": "lru", "max_size": 1}, {"kind": "lru", "max_size": 2}, {"kind": "hybrid", "max_size": 2}):
        units.append(("A-bfs-shared-proxies", ("A", {**cfg, "shared": True}, 3 if tier == "quick" else 4, True)))
    bound = 2 if tier == "quick" else 3
    for kind in ("lru", "hybrid"):
        for ms in (1, 2):
            cfg = {"kind": kind, "max_size": ms}
            for ii, init in enumerate(inits(cfg)):
                progs = programs(cfg)
                for pi in range(len(progs)):
                    units.append((f"B-interleavings-preemptions<={bound}", ("B", cfg, ii, pi, bound)))
                if tier == "thorough":
                    for pi in range(len(programs3(cfg))):
                        units.append(("B-three-threads-preemptions<=2", ("B3", cfg, ii, pi, 2)))
    dbound = 1 if tier == "quick" else 2
    for lru in (False, True):
        for ms in (1, 2):
            cfg = {"kind": "disk", "max_size": ms, "lru": lru, "lru_size": 2}
            for ii, init in enumerate(([["put", "a", 1]], [["put", "a", 1], ["put", "b", 1]])):
                for pi in range(len(disk_programs())):
                    units.append((f"D-disk-two-processes-preemptions<={dbound}", ("D", cfg, init, pi, dbound)))
    nchunk = 16
    for c in range(nchunk):
        units.append(("C-two-real-processes", ("C", c, nchunk, tier)))
    out = []
    by = {}
    for st, u in units:
        by.setdefault(st, []).append((st, u))
    for st, us in by.items():
        r = seed % len(us)
        out.extend(us[r:] + us[:r])
    return out


def _c_histories(tier):
    hists = []
    for kind in ("lru", "hybrid"):
        cfg = {"kind": kind, "max_size": 1}
        put = (lambda k, v: ["put", k, v, 1.0]) if kind == "hybrid" else (lambda k, v: ["put", k, v])
        alpha = [put("a", 1), put("b", 2), ["get", "a"], ["get", "b"], ["clear"]]
        L = 3 if tier == "quick" else 4
        for n in range(1, L + 1):
            for h in itertools.product(alpha, repeat=n):
                for assign in itertools.product((0, 1), repeat=n):
                    if any(assign):
                        hists.append((cfg, [list(x) for x in h], list(assign)))
        # one step deeper for the histories "put; clear; put; anything" (what a clear in ONE process leaves for the other)
        puts = [put("a", 1), put("b", 2)]
        for x in puts:
            for y in puts:
                for z in [*alpha, put("c", 1)]:
                    h = [x, ["clear"], y, z]
                    for assign in itertools.product((0, 1), repeat=4):
                        if any(assign) and len(h) > L:
                            hists.append((cfg, [list(q) for q in h], list(assign)))
    return hists


def run_unit(unit):
    acc = Acc()
    _install_fs_clock()
    pc.Manager = threads.FakeManager
    part = unit[0]
    if part == "A":
        _, cfg, depth, _shared = unit
        bfs(cfg, depth, acc)
        acc.stratum(f"A-{cfg['kind']}-max{cfg['max_size']}" + ("-shared" if cfg.get("shared") else ""))
    elif part == "B":
        _, cfg, ii, pi, bound = unit
        init, prog = inits(cfg)[ii], programs(cfg)[pi]
        vs, n, nout = run_program(cfg, init, prog, bound, acc)
        acc.states += 1
        acc.case(hash(("B", str(cfg), ii, pi)), n=n)
        acc.stratum("B-programs")
        acc.stratum("B-executions", n)
        if nout > 1:
            acc.stratum("B-programs-with->1-outcome")
        for sig, text, choices in vs:
            acc.violation(sig, {"part": "B", "cfg": cfg, "init": init, "prog": prog, "choices": choices}, text)
        if pi == 0:
            acc.sample({"part": "B", "cfg": cfg, "init": init, "prog": prog, "executions": n, "distinct_outcomes": nout})
    elif part == "B3":
        _, cfg, ii, pi, bound = unit
        init, prog = inits(cfg)[ii], programs3(cfg)[pi]
        vs, n, nout = run_program(cfg, init, prog, bound, acc)
        acc.states += 1
        acc.case(hash(("B3", str(cfg), ii, pi)), n=n)
        acc.stratum("B-3-thread-programs")
        acc.stratum("B-executions", n)
        for sig, text, choices in vs:
            acc.violation(sig, {"part": "B", "cfg": cfg, "init": init, "prog": prog, "choices": choices}, text)
    elif part == "D":
        _, cfg, init, pi, bound = unit
        prog = disk_programs()[pi]
        vs, n, nout = run_disk_program(cfg, init, prog, bound, acc)
        acc.states += 1
        acc.case(hash(("D", str(cfg), str(init), pi)), n=n)
        acc.stratum("D-programs")
        acc.stratum("D-executions", n)
        if nout > 1:
            acc.stratum("D-programs-with->1-outcome")
        for sig, text, choices in vs:
            acc.violation(sig, {"part": "D", "cfg": cfg, "init": init, "prog": prog, "choices": choices}, text)
    elif part == "C":
        _, c, n, tier = unit
        for k, (cfg, hist, assign) in enumerate(_c_histories(tier)):
            if k % n != c:
                continue
            acc.case(hash(("C", str(cfg), str(hist), str(assign))))
            acc.transitions += len(hist)
            acc.traces += 1
            acc.stratum("C-histories")
            for sig, text in run_two_process(cfg, hist, assign):
                acc.violation(sig, {"part": "C", "cfg": cfg, "hist": hist, "assign": assign}, text)
    return acc


def replay(art):
    _install_fs_clock()
    pc.Manager = threads.FakeManager
    if art["part"] == "A":
        cfg = art["cfg"]
        v, _, _ = run_transition(cfg, [list(o) for o in art["hist"]], list(art["op"]))
        if v is None:
            return []
        return [{"kind": v[0], "cache": cfg["kind"], "shared": cfg.get("shared", False), **v[2]}]
    if art["part"] == "B":
        cfg = art["cfg"]
        ch = explore.Chooser(art["choices"])
        status, results, _st = _exec_program(cfg, art["init"], art["prog"], ch)
        if status != "ok":
            return [{"kind": status, "cache": cfg["kind"], "part": "B"}]
        seq = _sequential_outcomes(cfg, art["init"], art["prog"])
        seq_raises = any(any(r[0] == "exc" for _, r in res) for res, _ in seq)
        exc = next((r for r in results.values() if r[0] == "exc"), None)
        if exc and not seq_raises:
            return [{"kind": "raised", "cache": cfg["kind"], "part": "B", "exc": exc[1], "site": exc[2]}]
        key = tuple(sorted(results.items()))
        if (key, _st) not in seq:
            what = "returns" if not any(key == res for res, _ in seq) else "final-state"
            return [{"kind": "not-linearizable-" + what, "cache": cfg["kind"], "part": "B"}]
        return []
    if art["part"] == "C":
        return [s for s, _ in run_two_process(art["cfg"], art["hist"], art["assign"])]
    if art["part"] == "D":
        cfg, init, prog = art["cfg"], art["init"], art["prog"]
        status, results, final = _exec_disk(cfg, init, prog, chooser=explore.Chooser(art["choices"]))
        base = {"cache": "disk", "part": "D", "lru": bool(cfg.get("lru"))}
        if status != "ok":
            return [{"kind": status, **base}]
        idx = [(t, i) for t, ops in enumerate(prog) for i in range(len(ops))]
        seq = set()
        for perm in itertools.permutations(idx):
            if any(perm.index((t, i)) > perm.index((t, i + 1)) for t, ops in enumerate(prog) for i in range(len(ops) - 1)):
                continue
            _, res, fin = _exec_disk(cfg, init, prog, order=list(perm))
            seq.add((tuple(sorted(res.items())), fin))
        exc = next((r for r in results.values() if r[0] == "exc"), None)
        if exc and not any(any(r[0] == "exc" for _, r in res) for res, _ in seq):
            return [{"kind": "raised", "exc": exc[1], "site": exc[2], **base}]
        key = tuple(sorted(results.items()))
        if (key, final) not in seq:
            what = "returns" if not any(key == res for res, _ in seq) else "final-state"
            return [{"kind": "not-linearizable-" + what, "over_eviction": what == "final-state" and len(final) < min(len(f) for _, f in seq),
                     "corrupt_file": any(v == "<corrupt>" for _, v in final), **base}]
        return []
    return []
