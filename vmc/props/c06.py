"""C06 — running a map in pieces (fixed_indices, learners) equals running it whole (DESIGN.md §5 C06).

Part A: explicit-state BFS over "which elements are present in the run folder": a transition runs the REAL
        map(fixed_indices=selector, cleanup=False) with one selector of the complete selector alphabet, from every
        reachable folder state — so every partition and every order of its parts is covered, and every intermediate
        state is checked.
Part B: the learners of create_learners (fixed_indices / split_independent_axes / return_output), their
        (learner, point) units executed in every order that respects generations.
Part C: requests that must be rejected (fixing a reduced axis, an unknown axis, an index out of range)."""
from __future__ import annotations

import collections
import contextlib
import io
import itertools
import os
import shutil
import warnings

import numpy as np
from pipefunc.map import load_outputs
from pipefunc.map._storage_array._base import StorageBase

from .. import boot, findings, gen_map, terms
from ..acc import Acc
from . import c03

ID = "C06"
LEVEL = "model_checking"
TECHNIQUE = "explicit-state BFS over run-folder states (transition = real map(fixed_indices=selector, cleanup=False) for every selector) + all generation-respecting execution orders of the learner units"
RULE = ("pipelines {elementwise chain, 2-D outer product chain, tuple-output zip, internal axis + partial reduction, partial reduction over the other axis, two zipped roots then an outer product with another axis of another size (quick: learners and rejections only), independent "
        "non-mapped function} x storage {file_array, dict+persist} x selectors = every int in [-n,n) and every slice over start/stop in {None,-n..n} x step in {None,+-1,+-2} "
        "with a non-empty selection (deduplicated to distinct index sequences, two spellings each); BFS states = sets of present elements; for two independent axes the "
        "product of their selectors. Learners: fixed_indices None/each selector class (for two pipelines also with resources_scope=element: one learner per element), split_independent_axes F/T, return_output F/T, all unit orders within a generation; with split_independent_axes the learners of EACH key run alone in a fresh folder (precisely that key's elements) "
        "(<= 4 units: all permutations; more: identity, reversal and all rotations). Rejections: reduced axis, unknown axis, out-of-range int, each through map AND through create_learners (accepted = learners created and all of them ran); and with output_names = the outputs of one function: an axis the selected sub-pipeline does not have (reject) / an axis that only a function outside it reduces (accept, exactly the selected calls). Part E: one piece (an int / a slice on the first axis) of five pipelines through map_async (virtual loop, deferred executor, default schedule) against the same piece through map. Part D: for three pipelines x {shared_memory_dict, file_array} the two pieces of the first axis, in both orders, on a REAL process pool (one free-running schedule each)")
ASSUMPTIONS = ["reference = MapSpec denotation (vmc/gen_map.py) restricted to the selected external indices",
               "learners are executed through learner.ask/tell with the learner's own function, as adaptive's simple runner does, but in every order",
               "learner runs use file_array storage (memory storages are only persisted by run_map itself)"]
BUDGET = {"quick": 85.0, "thorough": 900.0}

_f = c03._f
S3 = {"i": 3, "j": 2, "u": 2, "k": 2, "w": 2, "m": 2}
PIPES = {
    "chain": {"roots": {"x": ["i"]}, "sizes": S3, "axes": ["i"], "funcs": [
        _f("f", ["x"], {"x": ["i"]}, ["i"], [], ["y"]), _f("g", ["y"], {"y": ["i"]}, ["i"], [], ["z"])]},
    "outer2d": {"roots": {"x": ["i"], "q": ["j"]}, "sizes": S3, "axes": ["i", "j"], "funcs": [
        _f("f", ["x", "q"], {"x": ["i"], "q": ["j"]}, ["i", "j"], [], ["a"]), _f("g", ["a"], {"a": ["i", "j"]}, ["j", "i"], [], ["b"])]},
    "tuple-zip": {"roots": {"x": ["i"]}, "sizes": S3, "axes": ["i"], "funcs": [
        _f("f", ["x"], {"x": ["i"]}, ["i"], [], ["a", "b"]), _f("g", ["a", "b"], {"a": ["i"], "b": ["i"]}, ["i"], [], ["c"])]},
    "internal-partial": {"roots": {"x": ["i"]}, "sizes": S3, "axes": ["i"], "funcs": [
        _f("f", ["x"], {"x": ["i"]}, ["i", "u"], ["u"], ["a"]), _f("g", ["a"], {"a": ["i", None]}, ["i"], [], ["c"])]},
    "reduce-other-axis": {"roots": {"x": ["i"], "q": ["j"]}, "sizes": S3, "axes": ["i"], "reduced": ["j"], "funcs": [
        _f("f", ["x", "q"], {"x": ["i"], "q": ["j"]}, ["i", "j"], [], ["a"]), _f("g", ["a"], {"a": ["i", None]}, ["i"], [], ["b"])]},
    # an array consumed by a partial reducer AND (listed later / earlier) by a full reducer: every axis is reduced, so no axis
    # may be fixed; rejections only (no part can be run)
    "partial-then-full-reducer": {"roots": {"x": ["i"], "q": ["j"]}, "sizes": S3, "axes": [], "reduced": ["i", "j"], "funcs": [
        _f("f", ["x", "q"], {"x": ["i"], "q": ["j"]}, ["i", "j"], [], ["a"]), _f("g", ["a"], {"a": ["i", None]}, ["i"], [], ["b"]),
        _f("h", ["a"], None, [], [], ["t"])]},
    "full-then-partial-reducer": {"roots": {"x": ["i"], "q": ["j"]}, "sizes": S3, "axes": [], "reduced": ["i", "j"], "funcs": [
        _f("f", ["x", "q"], {"x": ["i"], "q": ["j"]}, ["i", "j"], [], ["a"]), _f("h", ["a"], None, [], [], ["t"]),
        _f("g", ["a"], {"a": [None, "j"]}, ["j"], [], ["b"])]},
    "two-partial-reducers": {"roots": {"x": ["i"], "q": ["j"]}, "sizes": S3, "axes": [], "reduced": ["i", "j"], "funcs": [
        _f("f", ["x", "q"], {"x": ["i"], "q": ["j"]}, ["i", "j"], [], ["a"]), _f("g", ["a"], {"a": ["i", None]}, ["i"], [], ["b"]),
        _f("h", ["a"], {"a": [None, "j"]}, ["j"], [], ["c"])]},
    # a function WITH a MapSpec that also takes a mapped array whole (y is not in g's MapSpec): g reduces axis i of y
    "mapped-function-takes-sibling-whole": {"roots": {"x": ["i"]}, "sizes": S3, "axes": [], "reduced": ["i"], "funcs": [
        _f("f", ["x"], {"x": ["i"]}, ["i"], [], ["y"]), _f("g", ["x", "y"], {"x": ["i"]}, ["i"], [], ["z"])]},
    # an axis shared by two zipped ROOT inputs that sorts before another independent axis of another size
    "zip-then-outer": {"roots": {"x": ["i"], "y": ["i"], "q": ["j"]}, "sizes": {**S3, "i": 2, "j": 3}, "axes": ["i", "j"], "funcs": [
        _f("f", ["x", "y"], {"x": ["i"], "y": ["i"]}, ["i"], [], ["a"]), _f("g", ["a", "q"], {"a": ["i"], "q": ["j"]}, ["i", "j"], [], ["b"])]},
    # a function WITHOUT MapSpec whose output a mapped function takes whole (it does not exist yet when learners are created)
    "unmapped-feeds-mapped": {"roots": {"x": ["i"], "n": []}, "sizes": S3, "axes": ["i"], "funcs": [
        _f("h", ["n"], None, [], [], ["c"]), _f("g", ["x", "c"], {"x": ["i"]}, ["i"], [], ["y"])]},
    # one input reduces axis j with ':' while ANOTHER input of the same function maps over j (j is in the output, and still reduced)
    "reduce-while-sibling-maps-axis": {"roots": {"x": ["i"], "q": ["j"]}, "sizes": S3, "axes": ["i"], "reduced": ["j"], "funcs": [
        _f("f", ["x", "q"], {"x": ["i"], "q": ["j"]}, ["i", "j"], [], ["e"]),
        _f("g", ["e", "q"], {"e": ["i", None], "q": ["j"]}, ["i", "j"], [], ["p"])]},
    # a 2-D ROOT input whose axes differ in size (the second one longer): fixing the second axis alone is a valid part
    "root-2d-unequal-axes": {"roots": {"m": ["i", "j"]}, "sizes": {**S3, "i": 2, "j": 3}, "axes": ["i", "j"], "funcs": [
        _f("f", ["m"], {"m": ["i", "j"]}, ["i", "j"], [], ["y"]), _f("g", ["y"], {"y": ["i", "j"]}, ["i", "j"], [], ["z"])]},
    "independent-single": {"roots": {"x": ["i"], "n": []}, "sizes": S3, "axes": ["i"], "funcs": [
        _f("f", ["x"], {"x": ["i"]}, ["i"], [], ["y"]), _f("h", ["n"], None, [], [], ["m"])]},
}


# ------------------------------------------------------------------------------------------------
# selectors
# ------------------------------------------------------------------------------------------------
def sel_json(s):
    return ["s", s.start, s.stop, s.step] if isinstance(s, slice) else s


def sel_from(j):
    return slice(j[1], j[2], j[3]) if isinstance(j, list) else j


def selectors(n, rich=False):
    """every int and a complete set of slices, deduplicated to distinct index sequences with two spellings each"""
    out = [sel_json(k) for k in range(-n, n)]
    bounds = [None, *range(-n, n + 1)]
    seen: dict[tuple, int] = {}
    for step in (None, 1, 2, -1, -2):
        for a in bounds:
            for b in bounds:
                s = slice(a, b, step)
                idx = tuple(range(*s.indices(n)))
                if not idx:
                    continue
                if seen.get(idx, 0) < (2 if rich else 1):
                    seen[idx] = seen.get(idx, 0) + 1
                    out.append(sel_json(s))
    return out


def indices_of(sel, n):
    s = sel_from(sel)
    if isinstance(s, slice):
        return set(range(*s.indices(n)))
    return {s % n}


# ------------------------------------------------------------------------------------------------
# reference: which elements a part selects, what the folder must hold
# ------------------------------------------------------------------------------------------------
def ext_axes(fn):
    return [a for a in fn["out_axes"] if a not in fn["internal"]]


def selected(spec, fn, fixed):
    """set of external index tuples of fn's outputs selected by fixed = {axis: selector}"""
    ax = ext_axes(fn)
    sizes = spec["sizes"]
    ranges = [sorted(indices_of(fixed[a], sizes[a])) if a in fixed else list(range(sizes[a])) for a in ax]
    return set(itertools.product(*ranges))


def linear(spec, fn, idx):
    ax = ext_axes(fn)
    shape = [spec["sizes"][a] for a in ax]
    return int(np.ravel_multi_index(idx, shape)) if ax else 0


def run_map(spec, folder, storage, fixed=None, cleanup=False, output_names=None, sub=None):
    p = gen_map.build(spec)
    inputs = gen_map.make_inputs(spec, "list")
    if sub is not None:  # only the root inputs of the selected sub-pipeline (a surplus input is rejected)
        inputs = {r: v for r, v in inputs.items() if any(r in fn["params"] for fn in sub)}
    terms.LOG.clear()
    with contextlib.redirect_stdout(io.StringIO()), warnings.catch_warnings():
        warnings.simplefilter("ignore")
        r = p.map(dict(inputs), run_folder=folder, internal_shapes=gen_map.internal_shapes_arg(spec), parallel=False, storage=storage,
                  cleanup=cleanup, fixed_indices={a: sel_from(s) for a, s in fixed.items()} if fixed else None,
                  **({"output_names": set(output_names)} if output_names else {}))
    return r, list(terms.LOG)


def present_state(spec, folder, storage):
    """{output name: frozenset of present external index tuples} read back from the folder (public API)"""
    state = {}
    from pipefunc.map import RunInfo
    with contextlib.redirect_stdout(io.StringIO()):
        ri = RunInfo.load(folder)
        store = ri.init_store()
    for fn in spec["funcs"]:
        for o in fn["outs"]:
            st = store[o]
            if isinstance(st, StorageBase):
                ml = list(st.mask_linear())
                ax = ext_axes(fn)
                shape = [spec["sizes"][a] for a in ax]
                state[o] = frozenset(tuple(int(v) for v in np.unravel_index(i, shape)) if ax else () for i, m in enumerate(ml) if not m)
            else:
                state[o] = frozenset([()]) if os.path.isfile(str(st)) else frozenset()
    return state


def canon_state(state):
    return tuple(sorted((o, tuple(sorted(v))) for o, v in state.items()))


def expected_after(spec, prev, fixed):
    """present sets after running a part on a folder whose present sets are prev"""
    new = {}
    for fn in spec["funcs"]:
        sel = selected(spec, fn, fixed) if fn["ms"] else {()}
        for o in fn["outs"]:
            new[o] = frozenset(prev.get(o, frozenset()) | sel)
    return new


def check_pool_pieces(cfg):
    """Part D: the pieces of one axis run one after the other on a REAL process pool (fork) into one folder; after every
    piece the folder must hold exactly the selected elements, and at the end the values of the full run"""
    import concurrent.futures as cf
    import multiprocessing
    from pipefunc.map import load_outputs
    from . import c03
    c03._install_one_manager()
    spec = PIPES[cfg["pipe"]]
    storage = cfg["storage"]
    base = boot.mkscratch("c06d-")
    folder = os.path.join(base, "run")
    out = []
    sigbase = {"pipe": cfg["pipe"], "storage": storage, "part": "D"}
    pool = cf.ProcessPoolExecutor(2, mp_context=multiprocessing.get_context("fork"))
    try:
        inputs = gen_map.make_inputs(spec, "list")
        exp, _ = gen_map.ref_map(spec, inputs)
        ax = spec["axes"][0]
        n = spec["sizes"][ax]
        pieces = [{ax: sel_json(slice(0, n - 1))}, {ax: n - 1}] if not cfg.get("reverse") else [{ax: n - 1}, {ax: sel_json(slice(0, n - 1))}]
        prev = {}
        p = gen_map.build(spec)
        for k, fixed in enumerate(pieces):
            try:
                with contextlib.redirect_stdout(io.StringIO()), warnings.catch_warnings():
                    warnings.simplefilter("ignore")
                    p.map(dict(inputs), run_folder=folder, internal_shapes=gen_map.internal_shapes_arg(spec), parallel=True, executor=pool,
                          storage=storage, cleanup=(k == 0), fixed_indices={a: sel_from(s_) for a, s_ in fixed.items()})
            except Exception as e:  # noqa: BLE001
                return [(findings.exc_sig(e, **sigbase, piece=k), f"{cfg}: piece {k} {fixed} on a process pool raised {type(e).__name__}: {str(e)[:120]}")]
            want = expected_after(spec, prev, fixed)
            got = present_state(spec, folder, storage)
            mapped = [o for fn in spec["funcs"] if fn["ms"] for o in fn["outs"]]
            bad = [o for o in mapped if got.get(o) != want.get(o)]
            if bad:
                out.append(({"kind": "present-set", **sigbase, "piece": k},
                            f"{cfg}: after piece {k} {fixed} on a process pool the folder holds {[(o, sorted(got[o])) for o in bad]}, expected {[(o, sorted(want[o])) for o in bad]}"))
                return out
            prev = want
        for fn in spec["funcs"]:
            if not fn["ms"]:
                continue
            for o in fn["outs"]:
                with contextlib.redirect_stdout(io.StringIO()):
                    lo = load_outputs(o, run_folder=folder)
                if terms.T(lo) != terms.T(exp[o]):
                    out.append(({"kind": "stored-mismatch", **sigbase}, f"{cfg}: after all pieces load_outputs({o}) = {terms.T(lo)[:100]}, full run {terms.T(exp[o])[:100]}"))
        return out
    finally:
        pool.shutdown(wait=True)
        shutil.rmtree(base, ignore_errors=True)


def check_async_piece(cfg):
    """Part E: one piece (first axis fixed to an int / a slice) through map_async (virtual event loop, deferred executor,
    default schedule) must call and store exactly what the same piece through map does"""
    from .. import explore, sched
    spec = PIPES[cfg["pipe"]]
    base = boot.mkscratch("c06e-")
    sigbase = {"pipe": cfg["pipe"], "part": "E"}
    out = []
    try:
        inputs = gen_map.make_inputs(spec, "list")
        ax = spec["axes"][0]
        fixed_j = {ax: cfg["sel"]}
        fixed = {a: sel_from(s_) for a, s_ in fixed_j.items()}
        obs = {}
        for entry in ("sync", "async"):
            folder = os.path.join(base, entry)
            p = gen_map.build(spec)
            terms.LOG.clear()
            kw = dict(run_folder=folder, internal_shapes=gen_map.internal_shapes_arg(spec), storage="file_array", fixed_indices=fixed)
            try:
                with contextlib.redirect_stdout(io.StringIO()), warnings.catch_warnings():
                    warnings.simplefilter("ignore")
                    if entry == "sync":
                        p.map(dict(inputs), parallel=False, **kw)
                    else:
                        s_ = sched.Sched(explore.Chooser(), eager_points=False)
                        ex = sched.DeferredExecutor(s_, "E")

                        async def main(p=p, ex=ex, kw=kw):
                            am = p.map_async(dict(inputs), executor=ex, **kw)
                            return await am.task
                        sched.run_async(main, s_)
            except Exception as e:  # noqa: BLE001
                return [(findings.exc_sig(e, **sigbase, entry=entry), f"{cfg}: {entry} piece {fixed_j} raised {type(e).__name__}: {str(e)[:120]}")]
            obs[entry] = (sorted(terms.LOG), canon_state(present_state(spec, folder, "file_array")))
        want_state = canon_state(expected_after(spec, {}, fixed_j))
        for entry in ("sync", "async"):
            if obs[entry][1] != want_state:
                out.append(({"kind": "present-set", **sigbase, "entry": entry}, f"{cfg}: the {entry} piece {fixed_j} stored {obs[entry][1]}, expected {want_state}"))
        if obs["sync"][0] != obs["async"][0]:
            out.append(({"kind": "async-differs-from-sync", **sigbase},
                        f"{cfg}: piece {fixed_j}: map_async called {len(obs['async'][0])} functions, map called {len(obs['sync'][0])}"))
        return out
    finally:
        shutil.rmtree(base, ignore_errors=True)


def build_template(cfg, hist, folder):
    """run the parts of hist into `folder`; returns an exception or None"""
    spec = PIPES[cfg["pipe"]]
    first = True
    for h in hist:
        try:
            run_map(spec, folder, cfg["storage"], h, cleanup=first)
        except Exception as e:  # noqa: BLE001
            return e
        first = False
    return None


def check_part(cfg, hist, fixed, template=None):
    """folder state = parts of hist applied (replayed, or copied from a template folder holding exactly that state), then
    run `fixed`; returns (violations, canon state after)"""
    spec = PIPES[cfg["pipe"]]
    storage = cfg["storage"]
    base = boot.mkscratch("c06-")
    folder = os.path.join(base, "run")
    out = []
    sigbase = {"pipe": cfg["pipe"], "storage": storage, "part": "A"}
    try:
        inputs = gen_map.make_inputs(spec, "list")
        exp, calls = gen_map.ref_map(spec, inputs)
        prev = {}
        for h in hist:
            prev = expected_after(spec, prev, h)
        first = not hist
        if hist:
            if template is not None:
                shutil.copytree(template, folder)
            else:
                e = build_template(cfg, hist, folder)
                if e is not None:
                    return [(findings.exc_sig(e, **sigbase, phase="replay"), f"{cfg}: a part of {hist} raised {type(e).__name__}: {str(e)[:120]}")], None
        try:
            r, log = run_map(spec, folder, storage, fixed, cleanup=first)
        except Exception as e:  # noqa: BLE001
            return [(findings.exc_sig(e, **sigbase, phase="part", sel_kind=_sel_kind(fixed)), f"{cfg}: map(fixed_indices={fixed}) after parts {hist} raised {type(e).__name__}: {str(e)[:140]}")], None
        want = expected_after(spec, prev, fixed)
        got = present_state(spec, folder, storage)
        if got != want:
            out.append(({"kind": "present-set", **sigbase, "sel_kind": _sel_kind(fixed)},
                        f"{cfg}: after parts {hist} + {fixed}: present {canon_state(got)}, expected {canon_state(want)}"))
        # the call log of this part = exactly the newly selected elements
        want_calls = []
        for fn in spec["funcs"]:
            if fn["ms"]:
                done_before = set.intersection(*(set(prev.get(o, frozenset())) for o in fn["outs"]))
                for idx in sorted(selected(spec, fn, fixed) - done_before):
                    want_calls.append((fn["name"], calls[fn["name"]][linear(spec, fn, idx)]))
            elif not all(prev.get(o) for o in fn["outs"]):
                want_calls.append((fn["name"], calls[fn["name"]][0]))
        if sorted(log) != sorted(want_calls):
            out.append(({"kind": "call-log", **sigbase, "sel_kind": _sel_kind(fixed)},
                        f"{cfg}: part {fixed} after {hist} called {sorted(log)}, expected exactly {sorted(want_calls)}"))
        # values of the selected elements in the returned results
        # after the part: if everything is present, the stored data equals a full run and a final full run computes nothing
        if all(len(v) == (len(selected(spec, fn, {})) if fn["ms"] else 1) for fn in spec["funcs"] for o, v in want.items() if o in fn["outs"]):
            for fn in spec["funcs"]:
                for o in fn["outs"]:
                    with contextlib.redirect_stdout(io.StringIO()):
                        lo = load_outputs(o, run_folder=folder)
                    if terms.T(lo) != terms.T(exp[o]):
                        out.append(({"kind": "stored-differs-from-full-run", **sigbase}, f"{cfg}: after parts {hist} + {fixed}: {o} = {terms.T(lo)[:120]}, full run {terms.T(exp[o])[:120]}"))
            r2, log2 = run_map(spec, folder, storage, None, cleanup=False)
            if log2:
                out.append(({"kind": "final-run-recomputes", **sigbase}, f"{cfg}: full run after parts {hist} + {fixed} recomputed {log2}"))
            for fn in spec["funcs"]:
                for o in fn["outs"]:
                    if terms.T(r2[o].output) != terms.T(exp[o]):
                        out.append(({"kind": "final-run-wrong", **sigbase}, f"{cfg}: final full run gives {o} = {terms.T(r2[o].output)[:100]}"))
        return out, canon_state(got)
    finally:
        shutil.rmtree(base, ignore_errors=True)


def _sel_kind(fixed):
    kinds = []
    for s in fixed.values():
        if isinstance(s, list):
            kinds.append("slice-neg-step" if (s[3] or 1) < 0 else "slice")
        else:
            kinds.append("neg-int" if s < 0 else "int")
    return "+".join(sorted(set(kinds)))


CORE = [0, -1, ["s", 1, None, None], ["s", None, None, 2], ["s", None, None, -1]]


def selector_alphabet(spec, rich):
    """one axis: the complete selector list; two independent axes: every selector of one axis with the other axis free, plus
    the product of the axes' selectors (quick: product of a 5-selector core per axis; thorough: the full product)"""
    axes = spec["axes"]
    full = {a: selectors(spec["sizes"][a], rich) for a in axes}
    alphabet = [{a: s} for a in axes for s in full[a]]
    if len(axes) == 2:
        a, b = axes
        la = full[a] if rich else [s for s in CORE if indices_of(s, spec["sizes"][a])]
        lb = full[b] if rich else [s for s in CORE if indices_of(s, spec["sizes"][b])]
        alphabet += [{a: x, b: y} for x in la for y in lb]
    return alphabet


def model_states(spec, alphabet):
    """reachable folder states according to the reference model, each with a shortest history (pure Python)"""
    seen = {(): []}
    frontier = collections.deque([({}, [])])
    while frontier:
        st, hist = frontier.popleft()
        for fixed in alphabet:
            nxt = expected_after(spec, st, fixed)
            k = canon_state(nxt)
            if k not in seen:
                seen[k] = [*hist, fixed]
                frontier.append((nxt, [*hist, fixed]))
    return list(seen.values())


def expand_state(cfg, hist, acc, rich):
    """all outgoing transitions of the folder state reached by `hist`, on the real code"""
    spec = PIPES[cfg["pipe"]]
    alphabet = selector_alphabet(spec, rich)
    tbase = boot.mkscratch("c06t-")
    template = os.path.join(tbase, "run")
    try:
        if hist:
            e = build_template(cfg, hist, template)
            if e is not None:
                acc.violation(findings.exc_sig(e, pipe=cfg["pipe"], storage=cfg["storage"], part="A", phase="replay"),
                              {"part": "A", "cfg": cfg, "hist": hist[:-1], "fixed": hist[-1]}, f"{cfg}: parts {hist} raised {type(e).__name__}: {str(e)[:120]}")
                return
        acc.states += 1
        prev = {}
        for h in hist:
            prev = expected_after(spec, prev, h)
        acc.nontrivial.add(hash((str(cfg), canon_state(prev))))
        acc.max_depth = max(acc.max_depth, len(hist))
        for fixed in alphabet:
            vs, _st = check_part(cfg, hist, fixed, template if hist else None)
            acc.transitions += 1
            acc.traces += 1
            acc.case(None)
            acc.stratum("A-sel-" + _sel_kind(fixed))
            for sig, text in vs:
                acc.violation(sig, {"part": "A", "cfg": cfg, "hist": hist, "fixed": fixed}, text)
        if not hist:
            acc.sample({"cfg": cfg, "selector_alphabet": len(alphabet), "example": alphabet[:3]})
    finally:
        shutil.rmtree(tbase, ignore_errors=True)


# ------------------------------------------------------------------------------------------------
# Part B: learners
# ------------------------------------------------------------------------------------------------
# resources declared per ELEMENT: create_learners then makes one learner per element (_split_sequence_learner)
_ELEMENT_SCOPE = {"resources": {"cpus": 1}, "resources_scope": "element"}


def orders(n, full):
    ident = tuple(range(n))
    if n <= (4 if not full else 5):
        return list(itertools.permutations(ident))
    outs = {ident, tuple(reversed(ident))}
    for r in range(1, n):
        outs.add(ident[r:] + ident[:r])
    return sorted(outs)


def run_learners(cfg, order_choice):
    """create learners and execute their units generation by generation in the chosen order; returns violations"""
    from pipefunc.map.adaptive import create_learners
    spec = PIPES[cfg["pipe"]]
    base = boot.mkscratch("c06l-")
    folder = os.path.join(base, "run")
    sigbase = {"pipe": cfg["pipe"], "part": "B", "split": cfg["split"], "return_output": cfg["ret"], "fixed": bool(cfg.get("fixed"))}
    out = []
    try:
        inputs = gen_map.make_inputs(spec, "list")
        exp, calls = gen_map.ref_map(spec, inputs)
        p = gen_map.build(spec, pf_kwargs=_ELEMENT_SCOPE if cfg.get("element_scope") else None)
        fixed = {a: sel_from(s) for a, s in (cfg.get("fixed") or {}).items()} or None
        terms.LOG.clear()
        try:
            with contextlib.redirect_stdout(io.StringIO()), warnings.catch_warnings():
                warnings.simplefilter("ignore")
                ld = create_learners(p, dict(inputs), folder, internal_shapes=gen_map.internal_shapes_arg(spec), storage="file_array",
                                     return_output=cfg["ret"], cleanup=True, fixed_indices=fixed, split_independent_axes=cfg["split"])
        except Exception as e:  # noqa: BLE001
            return [(findings.exc_sig(e, **sigbase, phase="create"), f"{cfg}: create_learners raised {type(e).__name__}: {str(e)[:140]}")], 0
        ngen = max(len(v) for v in ld.values())
        nunits = 0
        returned = []
        for g in range(ngen):
            units = []
            for key, gens in ld.items():
                if g < len(gens):
                    for lp in gens[g]:
                        pts, _ = lp.learner.ask(len(lp.learner.sequence))
                        for pt in pts:
                            units.append((lp, pt))
            ords = orders(len(units), False)
            o = ords[order_choice[g] % len(ords)] if g < len(order_choice) else ords[0]
            nunits += len(units)
            for k in o:
                lp, pt = units[k]
                try:
                    with contextlib.redirect_stdout(io.StringIO()):
                        y = lp.learner.function(pt)
                        lp.learner.tell(pt, y)
                except Exception as e:  # noqa: BLE001
                    return [(findings.exc_sig(e, **sigbase, phase="unit"), f"{cfg}: learner unit {pt} of {lp.pipefunc.output_name} raised {type(e).__name__}: {str(e)[:120]}")], nunits
                returned.append((lp.pipefunc.__name__, pt, y))
        log = list(terms.LOG)
        # expected calls: every selected element exactly once
        want = []
        fx = cfg.get("fixed") or {}
        for fn in spec["funcs"]:
            if fn["ms"]:
                for idx in sorted(selected(spec, fn, fx)):
                    want.append((fn["name"], calls[fn["name"]][linear(spec, fn, idx)]))
            else:
                want.append((fn["name"], calls[fn["name"]][0]))
        if sorted(log) != sorted(want):
            dup = len(log) != len(set(log))
            out.append(({"kind": "learner-call-log", "duplicates": dup, "has_internal": any(f["internal"] for f in spec["funcs"]), **sigbase},
                        f"{cfg} order {order_choice}: learners called {len(log)} elements ({'with duplicates' if dup else 'wrong set'}), expected {len(want)}: {sorted(log)[:6]}"))
        if not fx:
            for fn in spec["funcs"]:
                for o_ in fn["outs"]:
                    with contextlib.redirect_stdout(io.StringIO()):
                        lo = load_outputs(o_, run_folder=folder)
                    if terms.T(lo) != terms.T(exp[o_]):
                        out.append(({"kind": "learner-stored", **sigbase}, f"{cfg} order {order_choice}: stored {o_} = {terms.T(lo)[:100]}, full run {terms.T(exp[o_])[:100]}"))
            _, log2 = run_map(spec, folder, "file_array", None, cleanup=False)
            if log2:
                out.append(({"kind": "final-run-recomputes", **sigbase}, f"{cfg}: full run after the learners recomputed {log2}"))
        if cfg["ret"]:
            for fname, pt, y in returned:
                if y is None:
                    out.append(({"kind": "learner-return-none", **sigbase}, f"{cfg}: learner of {fname} returned None for point {pt} with return_output=True"))
                    break
        return out, nunits
    finally:
        shutil.rmtree(base, ignore_errors=True)


def check_single_keys(cfg):
    """split_independent_axes=True: the learners filed under ONE key, run alone in a fresh folder, compute precisely the
    elements that key selects (running all keys together cannot show a key whose learners cover more than their share:
    elements that are already stored are skipped)"""
    from pipefunc.map.adaptive import create_learners
    spec = PIPES[cfg["pipe"]]
    out = []
    inputs = gen_map.make_inputs(spec, "list")
    _, calls = gen_map.ref_map(spec, inputs)
    nkeys = None
    k = 0
    while nkeys is None or k < nkeys:
        base = boot.mkscratch("c06k-")
        try:
            p = gen_map.build(spec)
            terms.LOG.clear()
            with contextlib.redirect_stdout(io.StringIO()), warnings.catch_warnings():
                warnings.simplefilter("ignore")
                ld = create_learners(p, dict(inputs), os.path.join(base, "run"), internal_shapes=gen_map.internal_shapes_arg(spec),
                                     storage="file_array", return_output=cfg["ret"], cleanup=True, split_independent_axes=True)
            keys = list(ld)
            nkeys = len(keys)
            key = keys[k]
            fx = {ai.axis: int(ai.idx) for ai in (key or ())}
            for gen in ld[key]:
                for lp in gen:
                    pts, _ = lp.learner.ask(len(lp.learner.sequence))
                    for pt in pts:
                        with contextlib.redirect_stdout(io.StringIO()):
                            lp.learner.tell(pt, lp.learner.function(pt))
            log = list(terms.LOG)
            want = []
            for fn in spec["funcs"]:
                if fn["ms"]:
                    for idx in sorted(selected(spec, fn, fx)):
                        want.append((fn["name"], calls[fn["name"]][linear(spec, fn, idx)]))
                else:
                    want.append((fn["name"], calls[fn["name"]][0]))
            if sorted(log) != sorted(want):
                out.append(({"kind": "single-key-call-log", "pipe": cfg["pipe"], "part": "B", "more": len(log) > len(want)},
                            f"{cfg}: the learners of key {fx} alone called {len(log)} elements, the key selects {len(want)}: {sorted(log)[:6]}"))
                break
        except Exception as e:  # noqa: BLE001
            out.append((findings.exc_sig(e, pipe=cfg["pipe"], part="B", phase="single-key"), f"{cfg}: learners of key #{k} alone raised {type(e).__name__}: {str(e)[:120]}"))
            break
        finally:
            shutil.rmtree(base, ignore_errors=True)
        k += 1
    return out, (nkeys or 0)


def learner_orders(cfg):
    """all per-generation order choices (product over generations)"""
    from pipefunc.map.adaptive import create_learners
    spec = PIPES[cfg["pipe"]]
    base = boot.mkscratch("c06o-")
    try:
        p = gen_map.build(spec, pf_kwargs=_ELEMENT_SCOPE if cfg.get("element_scope") else None)
        fixed = {a: sel_from(s) for a, s in (cfg.get("fixed") or {}).items()} or None
        with contextlib.redirect_stdout(io.StringIO()), warnings.catch_warnings():
            warnings.simplefilter("ignore")
            ld = create_learners(p, gen_map.make_inputs(spec, "list"), os.path.join(base, "run"), internal_shapes=gen_map.internal_shapes_arg(spec),
                                 storage="file_array", fixed_indices=fixed, split_independent_axes=cfg["split"])
        ngen = max(len(v) for v in ld.values())
        counts = []
        for g in range(ngen):
            n = sum(len(lp.learner.sequence) for gens in ld.values() if g < len(gens) for lp in gens[g])
            counts.append(len(orders(n, False)))
        return counts
    except Exception:  # noqa: BLE001
        return [1]
    finally:
        shutil.rmtree(base, ignore_errors=True)


# ------------------------------------------------------------------------------------------------
# Part C: rejections
# ------------------------------------------------------------------------------------------------
def rejection_cases(pipe):
    spec = PIPES[pipe]
    n = {a: spec["sizes"][a] for a in spec["axes"]}
    cases = []
    for a in spec.get("reduced", []):
        cases.append(({a: 0}, "reduced-axis"))
        cases.append(({a: sel_json(slice(None))}, "reduced-axis"))
    cases.append(({"zz": 0}, "unknown-axis"))
    if spec["axes"]:
        cases.append(({spec["axes"][0]: 0, "zz": 0}, "unknown-axis"))
    for a, k in n.items():
        cases.append(({a: k}, "out-of-range"))
        cases.append(({a: -k - 1}, "out-of-range"))
    return cases


def output_name_cases(pipe):
    """fixed_indices together with output_names=S (S = the outputs of ONE function): the request is judged against the
    sub-pipeline that is actually run -> [(S, fixed, 'reject'|'accept', why, sub-functions)]"""
    spec = PIPES[pipe]
    prod = {o: fn for fn in spec["funcs"] for o in fn["outs"]}
    cases = []
    all_axes = sorted({a for fn in spec["funcs"] if fn["ms"] for a in ext_axes(fn)})
    for target in spec["funcs"]:
        need, stack = [], [target]
        while stack:
            fn = stack.pop()
            if fn in need:
                continue
            need.append(fn)
            stack.extend(prod[p_] for p_ in fn["params"] if p_ in prod)
        if len(need) == len(spec["funcs"]):
            continue  # the whole pipeline: parts A and C
        sub = [fn for fn in spec["funcs"] if fn in need]
        named = {a for fn in sub if fn["ms"] for axes in fn["ms"].values() for a in axes if a} | {a for fn in sub if fn["ms"] for a in ext_axes(fn)}
        reduced_in_sub = {a for fn in sub if fn["ms"] for p_, axes in fn["ms"].items() if p_ in prod for a in ext_axes(prod[p_]) if a not in axes}
        reduced_in_sub |= {a for fn in sub if not fn["ms"] for p_ in fn["params"] if p_ in prod for a in ext_axes(prod[p_])}
        for a in all_axes:
            if a not in named:
                cases.append((target["outs"], {a: 0}, "reject", "axis-not-in-selected-subpipeline", sub))
            elif a not in reduced_in_sub and all(a in ext_axes(fn) for fn in sub if fn["ms"] and a in ext_axes(target)):
                if a in spec.get("reduced", []) or a in spec["axes"]:
                    cases.append((target["outs"], {a: 0}, "accept", "axis-free-in-selected-subpipeline", sub))
    return cases


def check_output_names(cfg, outs, fixed, expect, why, sub):
    spec = PIPES[cfg["pipe"]]
    base = boot.mkscratch("c06r-")
    sig = {"why": why, "pipe": cfg["pipe"], "part": "C", "with_output_names": True}
    try:
        try:
            _, log = run_map(spec, os.path.join(base, "run"), cfg["storage"], fixed, cleanup=True, output_names=outs, sub=sub)
        except Exception as e:  # noqa: BLE001
            if expect == "reject":
                return []
            return [(findings.exc_sig(e, **sig), f"{cfg}: map(output_names={outs}, fixed_indices={fixed}) is valid for the selected sub-pipeline but raised {type(e).__name__}: {str(e)[:120]}")]
        if expect == "reject":
            return [({"kind": "accepted-invalid-fixed-indices", **sig}, f"{cfg}: map(output_names={outs}, fixed_indices={fixed}) ({why}) was accepted; calls {log[:3]}")]
        want = sorted(fn["name"] for fn in sub for _ in (selected(spec, fn, fixed) if fn["ms"] else [()]))
        got = sorted(n for n, _ in log)
        if got != want:
            return [({"kind": "selected-calls", **sig}, f"{cfg}: map(output_names={outs}, fixed_indices={fixed}) called {got}, the selection needs {want}")]
        return []
    finally:
        shutil.rmtree(base, ignore_errors=True)


def check_rejection(cfg, fixed, why):
    spec = PIPES[cfg["pipe"]]
    base = boot.mkscratch("c06r-")
    try:
        try:
            _, log = run_map(spec, os.path.join(base, "run"), cfg["storage"], fixed, cleanup=True)
        except Exception:  # noqa: BLE001
            return []
        return [({"kind": "accepted-invalid-fixed-indices", "why": why, "pipe": cfg["pipe"], "part": "C"}, f"{cfg}: map(fixed_indices={fixed}) ({why}) was accepted; calls {log[:3]}")]
    finally:
        shutil.rmtree(base, ignore_errors=True)


def check_rejection_learners(cfg, fixed, why):
    """the same invalid requests through create_learners: accepted = the learners are created AND all of them run through"""
    from pipefunc.map.adaptive import create_learners
    spec = PIPES[cfg["pipe"]]
    base = boot.mkscratch("c06q-")
    try:
        terms.LOG.clear()
        try:
            p = gen_map.build(spec)
            with contextlib.redirect_stdout(io.StringIO()), warnings.catch_warnings():
                warnings.simplefilter("ignore")
                ld = create_learners(p, gen_map.make_inputs(spec, "list"), os.path.join(base, "run"), internal_shapes=gen_map.internal_shapes_arg(spec),
                                     storage="file_array", fixed_indices={a: sel_from(s_) for a, s_ in fixed.items()})
                for gens in ld.values():
                    for gen in gens:
                        for lp in gen:
                            pts, _ = lp.learner.ask(len(lp.learner.sequence))
                            for pt in pts:
                                lp.learner.tell(pt, lp.learner.function(pt))
        except Exception:  # noqa: BLE001
            return []
        return [({"kind": "accepted-invalid-fixed-indices", "why": why, "pipe": cfg["pipe"], "part": "C", "via": "create_learners"},
                 f"{cfg}: create_learners(fixed_indices={fixed}) ({why}) was accepted and its learners ran; calls {list(terms.LOG)[:3]}")]
    finally:
        shutil.rmtree(base, ignore_errors=True)


# ------------------------------------------------------------------------------------------------
def plan(tier, seed):
    units = []
    rich = tier == "thorough"
    for pipe in PIPES:
        if not PIPES[pipe]["axes"]:
            units.append(("C-rejections", ("C", {"pipe": pipe, "storage": "file_array"})))
            continue
        if pipe == "zip-then-outer" and not rich:
            units.append(("C-rejections", ("C", {"pipe": pipe, "storage": "file_array"})))
            continue  # quick: learners and rejections only (part A's two-axis exploration is done on outer2d)
        for storage in ("file_array", "dict") if (rich or pipe in ("chain", "tuple-zip", "outer2d")) else ("file_array",):
            for hist in model_states(PIPES[pipe], selector_alphabet(PIPES[pipe], rich)):
                units.append(("A-bfs-fixed-indices", ("A", {"pipe": pipe, "storage": storage}, rich, hist)))
        for why_unit in (0,):
            units.append(("C-rejections", ("C", {"pipe": pipe, "storage": "file_array"})))
    for pipe in PIPES:
        spec = PIPES[pipe]
        if not spec["axes"]:
            continue
        fixes = [None, {spec["axes"][0]: 1}, {spec["axes"][0]: sel_json(slice(None, None, 2))}]
        if rich:
            fixes += [{spec["axes"][0]: -1}, {spec["axes"][0]: sel_json(slice(None, None, -1))}]
        for split in (False, True):
            for ret in (False, True):
                for fx in fixes:
                    if split and fx:
                        continue
                    cfg = {"pipe": pipe, "split": split, "ret": ret, "fixed": fx}
                    units.append(("B-learners-all-unit-orders", ("B", cfg)))
                    if not ret and pipe in ("chain", "outer2d"):
                        units.append(("B-learners-all-unit-orders", ("B", {**cfg, "element_scope": True})))
        units.append(("B-learners-one-key-alone", ("B1", {"pipe": pipe, "ret": False})))
    for pipe in ("chain", "outer2d", "tuple-zip", "internal-partial", "reduce-other-axis"):
        for sel in (1, sel_json(slice(None, None, 2))):
            units.append(("E-one-piece-through-map_async", ("E", {"pipe": pipe, "sel": sel})))
    for pipe in ("chain", "outer2d", "tuple-zip"):
        for storage in ("shared_memory_dict", "file_array"):
            for rev in (False, True):
                units.append(("D-pieces-on-a-real-process-pool", ("D", {"pipe": pipe, "storage": storage, "reverse": rev})))
    by = {}
    for st, u in units:
        by.setdefault(st, []).append((st, u))
    out = []
    for st, us in by.items():
        r = seed % len(us)
        out.extend(us[r:] + us[:r])
    return out


def run_unit(unit):
    acc = Acc()
    kind = unit[0]
    if kind == "A":
        _, cfg, rich, hist = unit
        expand_state(cfg, hist, acc, rich)
    elif kind == "B":
        _, cfg = unit
        counts = learner_orders(cfg)
        n = 0
        total = 1
        for c in counts:
            total *= c
        if total <= 600:
            choices = list(itertools.product(*(range(c) for c in counts)))
        else:
            # more learner units than any configuration of this check has on the unchanged tree: the same order index in
            # every generation only (keeps a unit bounded; reported in the evidence notes)
            choices = [tuple(min(k, c - 1) for c in counts) for k in range(max(counts))]
            acc.notes[f"B: order product {total} > 600 reduced to {len(choices)} diagonal choices: {cfg['pipe']}"] += 1
        for choice in choices:
            vs, nunits = run_learners(cfg, list(choice))
            n += 1
            acc.transitions += nunits
            acc.traces += 1
            acc.case(hash((str(cfg), choice)))
            for sig, text in vs:
                acc.violation(sig, {"part": "B", "cfg": cfg, "order": list(choice)}, text)
        acc.states += n
        acc.stratum("B-learner-configs")
        acc.stratum("B-executions", n)
        if cfg["split"] and not cfg["ret"]:
            acc.sample({"part": "B", "cfg": cfg, "orders_per_generation": counts})
    elif kind == "B1":
        _, cfg = unit
        vs, nkeys = check_single_keys(cfg)
        acc.case(hash(("B1", str(cfg))), n=max(1, nkeys))
        acc.states += nkeys
        acc.transitions += nkeys
        acc.traces += nkeys
        acc.stratum("B-single-key-runs", nkeys)
        for sig, text in vs:
            acc.violation(sig, {"part": "B1", "cfg": cfg}, text)
    elif kind == "E":
        _, cfg = unit
        acc.case(hash(str(cfg)))
        acc.states += 1
        acc.transitions += 2
        acc.traces += 2
        acc.stratum("E-async-piece")
        for sig, text in check_async_piece(cfg):
            acc.violation(sig, {"part": "E", "cfg": cfg}, text)
    elif kind == "D":
        _, cfg = unit
        acc.case(hash(str(cfg)))
        acc.states += 2
        acc.transitions += 2
        acc.traces += 1
        acc.stratum("D-process-pool-pieces")
        for sig, text in check_pool_pieces(cfg):
            acc.violation(sig, {"part": "D", "cfg": cfg}, text)
    elif kind == "C":
        _, cfg = unit
        for fixed, why in rejection_cases(cfg["pipe"]):
            acc.case(hash((cfg["pipe"], str(fixed))))
            acc.states += 1
            acc.transitions += 1
            acc.traces += 1
            acc.stratum("C-" + why)
            for sig, text in check_rejection(cfg, fixed, why):
                acc.violation(sig, {"part": "C", "cfg": cfg, "fixed": fixed, "why": why}, text)
            acc.case(hash((cfg["pipe"], str(fixed), "learners")))
            acc.traces += 1
            for sig, text in check_rejection_learners(cfg, fixed, why):
                acc.violation(sig, {"part": "C", "cfg": cfg, "fixed": fixed, "why": why, "via": "create_learners"}, text)
        for k, (outs, fixed, expect, why, sub) in enumerate(output_name_cases(cfg["pipe"])):
            acc.case(hash((cfg["pipe"], str(outs), str(fixed), "output_names")))
            acc.states += 1
            acc.transitions += 1
            acc.traces += 1
            acc.stratum(f"C-output_names-{expect}")
            for sig, text in check_output_names(cfg, outs, fixed, expect, why, sub):
                acc.violation(sig, {"part": "C", "cfg": cfg, "output_names_case": k}, text)
    return acc


def replay(art):
    if art["part"] == "A":
        vs, _ = check_part(art["cfg"], art["hist"], art["fixed"])
        return [s for s, _ in vs]
    if art["part"] == "C" and "output_names_case" in art:
        outs, fixed, expect, why, sub = output_name_cases(art["cfg"]["pipe"])[art["output_names_case"]]
        return [s for s, _ in check_output_names(art["cfg"], outs, fixed, expect, why, sub)]
    if art["part"] == "B1":
        return [s for s, _ in check_single_keys(art["cfg"])[0]]
    if art["part"] == "E":
        return [s for s, _ in check_async_piece(art["cfg"])]
    if art["part"] == "D":
        return [s for s, _ in check_pool_pieces(art["cfg"])]
    if art["part"] == "B":
        vs, _ = run_learners(art["cfg"], art["order"])
        return [s for s, _ in vs]
    if art.get("via") == "create_learners":
        return [s for s, _ in check_rejection_learners(art["cfg"], art["fixed"], art["why"])]
    return [s for s, _ in check_rejection(art["cfg"], art["fixed"], art["why"])]
