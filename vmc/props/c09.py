"""C09 — caching never changes what a pipeline returns (DESIGN.md §5 C09).

Explicit-state BFS over call histories of a cached pipeline and an identical uncached twin (both rebuilt and the history
replayed for every path). A state is the content of the implementation's cache plus the mutable configuration."""
from __future__ import annotations

import collections
import copy
import contextlib
import io
import itertools
import shutil
import warnings
import numpy as np

from pipefunc import PipeFunc

from .. import boot, findings, gen_dag, gen_map, terms
from ..acc import Acc
from . import c03

ID = "C09"
LEVEL = "model_checking"
TECHNIQUE = "explicit-state BFS over call/mutation histories of a cached pipeline vs an uncached twin; states = real cache contents; plus cached vs uncached map runs"
RULE = ("G-DAG pipelines (N<=2 all, N=3 chain/diamond/fan family; decorated with a default or a bound value for the mutation steps) x cached-function subsets {all, each single} "
        "x cache type {simple, lru, hybrid, disk} x histories up to length L over the alphabet {call(output, cut in arg_combinations, values in {1,2} per name, and the same with each defaulted root argument omitted, full_output F/T), "
        "update_defaults, update_bound, replace(function with another body)}; every step is checked against the uncached twin and against the documented root-argument-key "
        "cache model. quick: L=2 without mutations, and L=3 for the default/bound-decorated N=2 pipelines where the third step directly follows a mutation "
        "(call; mutation; call); thorough: L=3 everywhere. Map part: cached vs uncached map with repeated input values (also with DIFFERENT values of EQUAL Python hash: -1/-2, 0/2**61-1; and with every user function carrying the same __name__), sequential and deferred executor; three maps of a cached function with map-scope resources delivered through resources_variable; two pipelines with the same names but other function bodies built one after the other with default cache settings (or one shared cache_kwargs dict), all four cache types; a used pipeline copied, the copy given another function body by replace(), both called with equal arguments; the same list / dict / ndarray object passed twice with an in-place change in between (pipeline(), run, map)")
ASSUMPTIONS = ["a cached pipeline and its uncached twin are rebuilt from the same spec for every path (no shared state)",
               "the documented key model (key = output name + values of the ROOT arguments) is used only to CLASSIFY a mismatch as the known cache-key design finding; the verdict comes from the uncached twin",
               "HybridCache durations are virtual (time.perf_counter/monotonic patched to +1.0 per read inside pipefunc modules)",
               "disk caches get a private directory (the default, the system temp dir, is shared between unrelated pipelines)"]
BUDGET = {"quick": 240.0, "thorough": 1800.0}


# ------------------------------------------------------------------------------------------------
def _vclock():
    import pipefunc._pipeline._base as b
    import pipefunc._pipeline._cache as c
    import pipefunc.map._run as r

    class Clock:
        t = 0.0

        @classmethod
        def tick(cls):
            cls.t += 1.0
            return cls.t

    class _T:
        perf_counter = staticmethod(Clock.tick)
        monotonic = staticmethod(Clock.tick)
        time = staticmethod(Clock.tick)

        def __getattr__(self, k):
            import time
            return getattr(time, k)
    for m in (b, c, r):
        if not isinstance(getattr(m, "time", None), _T):
            m.time = _T()


def build_pair(spec, cached, cache_type, cache_dir):
    kw = {}
    if cache_type == "disk":
        kw = {"cache_dir": cache_dir, "lru_shared": False}
    elif cache_type in ("lru", "hybrid"):
        kw = {"shared": False}
    with warnings.catch_warnings():
        warnings.simplefilter("ignore")
        pc = gen_dag.build(spec, cache=cached, cache_type=cache_type, cache_kwargs=kw)
    pu = gen_dag.build(spec)
    return pc, pu


def apply_step(p, spec_state, step, is_cached):
    """returns ('ret', value) | ('exc', type name, site); spec_state is the (mutable) spec of THIS pipeline"""
    kind = step[0]
    try:
        with contextlib.redirect_stdout(io.StringIO()):
            if kind == "call":
                _, out, kw, full = step
                r = p.run(out, full_output=bool(full), kwargs=dict(kw))
                if full:
                    r = {(",".join(k) if isinstance(k, tuple) else k): v for k, v in r.items()}
                return ("ret", r)
            if kind == "defaults":
                p.update_defaults(dict(step[1]), overwrite=False)
                return ("ret", None)
            if kind == "bound":
                _, out, b = step
                p[out].update_bound(dict(b), overwrite=False)
                return ("ret", None)
            if kind == "fdefaults":  # a default changed through ONE function (not through the pipeline)
                _, out, d = step
                p[out].update_defaults(dict(d), overwrite=False)
                return ("ret", None)
            if kind == "replace":
                _, idx = step
                f = spec_state["funcs"][idx]
                f2 = dict(f, tag=f["name"] + "v2")
                new = gen_dag.build_funcs({"funcs": [f2]}, cache=(bool(p.functions and is_cached[idx]) if is_cached else None))[0]
                p.replace(new)
                return ("ret", None)
    except Exception as e:  # noqa: BLE001
        return ("exc", type(e).__name__, findings.exc_site(e))
    raise ValueError(step)


def mutate_spec(spec, step):
    """the reference follows the mutation"""
    import copy
    s = copy.deepcopy(spec)
    if step[0] == "defaults":
        for f in s["funcs"]:
            for p_, v in step[1].items():
                if p_ in f["params"] and p_ not in f.get("bound", {}):
                    if "sigdef" in f and p_ in f["sigdef"]:
                        f["sigdef"][p_] = v
                    else:
                        f.setdefault("pfdef", {})[p_] = v
    elif step[0] == "bound":
        for f in s["funcs"]:
            if step[1] in f["outs"]:
                f.setdefault("bound", {}).update(step[2])
    elif step[0] == "fdefaults":
        for f in s["funcs"]:
            if (step[1] in f["outs"]) or (isinstance(step[1], (list, tuple)) and list(step[1]) == f["outs"]):
                for p_, v in step[2].items():
                    if "sigdef" in f and p_ in f["sigdef"]:
                        f["sigdef"][p_] = v
                    else:
                        f.setdefault("pfdef", {})[p_] = v
    elif step[0] == "replace":
        s["funcs"][step[1]]["tag"] = s["funcs"][step[1]]["name"] + "v2"
    return s


# ------------------------------------------------------------------------------------------------
# the documented key model (root-argument keys) — classification only
# ------------------------------------------------------------------------------------------------
def root_args_of(spec, out):
    prod = gen_dag.producers(spec)
    roots, seen = set(), set()

    def rec(name):
        if name not in prod:
            roots.add(name)
            return
        i, _ = prod[name]
        if i in seen:
            return
        seen.add(i)
        f = spec["funcs"][i]
        for p in f["params"]:
            if p not in f.get("bound", {}):
                rec(p)
    rec(out)
    return tuple(sorted(roots))


class KeyModel:
    """simulates Pipeline._run with a cache keyed by (function output name, root-argument values)"""

    def __init__(self, cached):
        self.cache = {}
        self.cached = cached

    def run(self, spec, out, kw, full):
        prod = gen_dag.producers(spec)
        defaults = gen_dag.pipeline_defaults(spec)
        results = dict(kw)

        def fname(i):
            outs = spec["funcs"][i]["outs"]
            return outs[0] if len(outs) == 1 else tuple(outs)

        def run(name):
            if name in results:
                return results[name]
            i, j = prod[name]
            f = spec["funcs"][i]
            key = None
            if self.cached[i]:
                ra = root_args_of(spec, name)
                fd = {p: defaults[p] for p in f["params"] if p in defaults}
                avail = {**fd, **kw}  # (the function's own bound values are not part of the key: fix 'bound shadows default')
                if all(a in avail for a in ra):
                    key = (fname(i), tuple((a, avail[a]) for a in ra))
            hit = key is not None and key in self.cache
            if hit and not full:
                r = self.cache[key]
            else:
                args = []
                for p in f["params"]:
                    if p in f.get("bound", {}):
                        args.append(f["bound"][p])
                    elif p in kw:
                        args.append(kw[p])
                    elif p in prod:
                        args.append(run(p))
                    elif p in defaults:
                        args.append(defaults[p])
                    else:
                        raise gen_dag.NotComputable(p)
                if hit:
                    r = self.cache[key]
                else:
                    a = ",".join(terms.T(v) for v in args)
                    tag = f.get("tag", f["name"])
                    r = f"{tag}({a})" if len(f["outs"]) == 1 else tuple(f"{tag}.{k}({a})" for k in range(len(f["outs"])))
                    if key is not None:
                        self.cache[key] = r
            for jj, o in enumerate(f["outs"]):
                results[o] = r if len(f["outs"]) == 1 else r[jj]
            return results[name]
        v = run(out)
        return results if full else v


# ------------------------------------------------------------------------------------------------
def call_steps(spec, p, max_vary=3):
    steps = []
    defaults = gen_dag.pipeline_defaults(spec)
    singles = [o for f in spec["funcs"] for o in f["outs"]]
    for out in singles:
        with contextlib.redirect_stdout(io.StringIO()):
            combos = sorted(p.arg_combinations(out))
        for cut in combos:
            probe = {a: 1 for a in cut}
            try:
                ref = gen_dag.ref_eval(spec, out, probe)
            except gen_dag.NotComputable:
                continue
            if set(probe) - ref.used_kw:
                continue  # lists an unused sibling (C02's known finding): not a successful uncached call
            names = list(cut)
            for vals in itertools.product((1, 2), repeat=min(len(names), max_vary)):
                kw = {a: 1 for a in names}
                kw.update(dict(zip(names, vals)))
                for full in (0, 1):
                    steps.append(["call", out, kw, full])
                # the same call with a defaulted root argument omitted (each one, and all of them)
                dn = [a for a in names if a in defaults]
                for om in ([[a] for a in dn] + ([dn] if len(dn) > 1 else [])):
                    kw2 = {a: v for a, v in kw.items() if a not in om}
                    for full in (0, 1):
                        st = ["call", out, kw2, full]
                        if st not in steps:
                            steps.append(st)
    return steps


def mutation_steps(spec):
    steps = []
    prodn = gen_dag.producers(spec)
    for i, f in enumerate(spec["funcs"]):
        steps.append(["replace", i])
        for p_ in {**f.get("sigdef", {}), **f.get("pfdef", {})}:
            if p_ not in prodn:
                steps.append(["defaults", {p_: "d2"}])
                # through the function that owns the default - only where that keeps the pipeline's defaults consistent (no
                # other function with a default of its own for the same root)
                if not any(g is not f and p_ in {**g.get("sigdef", {}), **g.get("pfdef", {})} for g in spec["funcs"]):
                    steps.append(["fdefaults", f["outs"][0] if len(f["outs"]) == 1 else tuple(f["outs"]), {p_: "d3"}])
        for p_ in f.get("bound", {}):
            steps.append(["bound", f["outs"][0] if len(f["outs"]) == 1 else tuple(f["outs"]), {p_: "b2"}])
    # de-duplicate
    out, seen = [], set()
    for s in steps:
        k = str(s)
        if k not in seen:
            seen.add(k)
            out.append(s)
    return out


def cache_content(p):
    c = p.cache
    if c is None:
        return ()
    try:
        d = c.cache
        return tuple(sorted((str(k), str(v)) for k, v in d.items()))
    except Exception:  # noqa: BLE001
        return ("?",)


class Ctx:
    """cached + uncached pipeline with a history applied"""

    def __init__(self, cfg, hist):
        _vclock()
        self.cfg = cfg
        spec, cached, ctype = cfg["spec"], cfg["cached"], cfg["cache"]
        self.folder = boot.mkscratch("c09-") if ctype == "disk" else None
        self.pc, self.pu = build_pair(spec, cached, ctype, self.folder)
        self.model = KeyModel(cached)
        self.cur = spec
        self.prev_call = None
        self.last_mut = None
        self.hist = []
        for step in hist:
            self.step(step, judge=False)

    def close(self):
        if self.folder:
            shutil.rmtree(self.folder, ignore_errors=True)

    # in-memory caches can be snapshotted, so that one replayed history serves every outgoing call step
    def snapshot(self):
        import copy
        c = self.pc.cache
        if self.cfg["cache"] == "disk" or c is None:
            return None
        return (copy.deepcopy({k: v for k, v in c.__dict__.items()}), copy.deepcopy(self.model.cache), self.prev_call, list(self.hist))

    def restore(self, snap):
        import copy
        cd, mc, prev, hist = snap
        self.pc.cache.__dict__.update(copy.deepcopy(cd))
        self.model.cache = copy.deepcopy(mc)
        self.prev_call = prev
        self.hist = list(hist)

    def step(self, step, judge=True):
        cfg = self.cfg
        spec, cached, ctype = cfg["spec"], cfg["cached"], cfg["cache"]
        cur = self.cur
        out = []
        self.hist.append(step)
        hist = self.hist
        terms.LOG.clear()
        ru = apply_step(self.pu, cur, step, None)
        terms.LOG.clear()
        rc = apply_step(self.pc, cur, step, cached)
        log_c = [n for n, _ in terms.LOG]
        if step[0] != "call":
            self.cur = mutate_spec(cur, step)
            self.last_mut = step[0]
            if judge and ru[0] == "ret" and rc[0] == "exc":
                out.append(({"kind": "mutation-raises-with-cache", "exc": rc[1], "site": rc[2], "mutation": step[0], "cache": ctype}, f"{step} raised {rc[1]} on the cached pipeline only"))
            self.prev_call = None
            return out
        _, o, kw, full = step
        try:
            mv = self.model.run(cur, o, kw, bool(full))
        except gen_dag.NotComputable:
            mv = None
        if judge and ru[0] == "ret":
            base = {"cache": ctype, "full_output": bool(full), "mutation_in_history": self.last_mut,
                    "supplies_intermediate": any(x not in gen_dag.ROOTS for h in hist if h[0] == "call" for x in h[2])}
            if rc[0] == "exc":
                out.append(({"kind": "exception", "exc": rc[1], "site": rc[2], **base}, f"{spec['funcs']} cached={cached}: after {hist[:-1]}: {step} raised {rc[1]} with caching, succeeds without"))
            else:
                if not _equal(rc[1], ru[1], full):
                    explained = mv is not None and _equal(rc[1], mv, full)
                    out.append(({"kind": "value-mismatch", "explained_by_root_key_model": bool(explained), **base},
                                f"{[(f['name'], f['params'], f['outs'], f.get('bound'), f.get('sigdef'), f.get('pfdef')) for f in spec['funcs']]} cached={cached} {ctype}: "
                                f"history {hist}: cached pipeline returned {_short(rc[1])}, uncached twin {_short(ru[1])}"))
            # a repeated call with equal arguments does not re-execute a cached function whose entry is resident
            if self.prev_call == step and rc[0] == "ret" and not any(x not in gen_dag.ROOTS for x in kw):
                fd = gen_dag.pipeline_defaults(cur)
                for i, f in enumerate(cur["funcs"]):
                    if cached[i] and f.get("tag", f["name"]) in log_c:
                        ra = root_args_of(cur, f["outs"][0])
                        if all(a in kw or a in fd or a in f.get("bound", {}) for a in ra):
                            out.append(({"kind": "re-executed-resident", "cache": ctype, "full_output": bool(full)},
                                        f"{spec['funcs']} cached={cached}: repeating {step} re-executed cached function {f['name']}"))
        self.prev_call = step
        return out

    def state(self):
        return (cache_content(self.pc), gen_dag._key(self.cur))


def run_history(cfg, hist):
    """replay a history on fresh cached + uncached pipelines; returns (violations of the LAST step, canonical state)"""
    ctx = Ctx(cfg, hist[:-1])
    try:
        vs = ctx.step(hist[-1]) if hist else []
        return vs, ctx.state()
    finally:
        ctx.close()


def _short(v):
    return str(v)[:160]


def _equal(a, b, full):
    if full and isinstance(a, dict) and isinstance(b, dict):
        return all(a.get(k) == v for k, v in b.items())
    return a == b


def bfs(cfg, depth, acc, with_mutations, last_after_mutation_only=False):
    spec = cfg["spec"]
    p0 = gen_dag.build(spec)
    steps = call_steps(spec, p0)
    if with_mutations:
        steps = steps + mutation_steps(spec)
    seen = set()
    frontier = collections.deque([[]])
    _, st = run_history(cfg, [])
    seen.add(st)
    acc.states += 1
    n_steps = len(steps)
    while frontier:
        hist = frontier.popleft()
        if len(hist) >= depth:
            continue
        if last_after_mutation_only and len(hist) == depth - 1 and hist and hist[-1][0] == "call":
            continue  # quick bound: the deepest step is explored only right after a mutation (call; mutation; call)
        ctx = Ctx(cfg, hist)
        snap = ctx.snapshot()
        try:
            for step in steps:
                if hist and step[0] != "call" and any(str(h) == str(step) for h in hist):
                    continue  # the same mutation twice adds nothing
                h2 = [*hist, step]
                if snap is not None and step[0] == "call":
                    ctx.restore(snap)
                    vs = ctx.step(step)
                    st = ctx.state()
                else:
                    vs, st = run_history(cfg, h2)
                acc.transitions += 1
                acc.traces += 1
                acc.case(None)
                for sig, text in vs:
                    acc.violation(sig, {"cfg": cfg, "hist": h2}, text)
                acc.outcome((cfg["cache"], "hit" if st[0] else "empty", len(st[0])))
                if st not in seen:
                    seen.add(st)
                    acc.states += 1
                    acc.nontrivial.add(hash((gen_dag._key(spec), str(cfg["cached"]), cfg["cache"], st)))
                    acc.max_depth = max(acc.max_depth, len(h2))
                    frontier.append(h2)
        finally:
            ctx.close()
    return n_steps


# ------------------------------------------------------------------------------------------------
# map part
# ------------------------------------------------------------------------------------------------
def map_case(cfg):
    """cached vs uncached map on inputs with repeated values"""
    _vclock()
    c03._install_one_manager()
    spec = c03.PIPES[cfg["pipe"]]
    inputs = gen_map.make_inputs(spec, "list")
    for k, v in inputs.items():
        if isinstance(v, list) and len(v) >= 2:
            inputs[k] = [v[0]] * len(v)  # repeated values: x = [x0, x0]
    if cfg.get("values") == "equal-hash":
        # DIFFERENT values with EQUAL Python hashes (hash(-1) == hash(-2), hash(0) == hash(2**61 - 1)): a key may use hashes only
        # to find candidates, never to decide that two argument sets are the same
        alt = [-1, -2, 0, 2 ** 61 - 1]
        for k, v in inputs.items():
            if isinstance(v, list):
                inputs[k] = [alt[i % 4] for i in range(len(v))]
            elif isinstance(v, np.ndarray):
                a = np.empty(v.shape, dtype=object)
                for j, idx in enumerate(np.ndindex(*v.shape)):
                    a[idx] = alt[j % 4]
                inputs[k] = a
    exp, calls = gen_map.ref_map(spec, inputs)
    out = []
    folder = boot.mkscratch("c09m-") if cfg["cache"] == "disk" else None
    try:
        kw = {"cache_dir": folder, "lru_shared": False} if cfg["cache"] == "disk" else ({"shared": False} if cfg["cache"] in ("lru", "hybrid") else {})
        with warnings.catch_warnings():
            warnings.simplefilter("ignore")
            if cfg.get("same_name"):
                # every user function has the SAME __name__ (closures of one factory, lambdas): entries are told apart by
                # the output name, not by what the wrapped callable happens to be called
                from pipefunc import Pipeline
                fs = gen_map.build_funcs(spec, cache=True)
                for pf in fs:
                    pf.func.__name__ = pf.func.__qualname__ = "fn"
                    pf.__name__ = "fn"
                p = Pipeline(fs, cache_type=cfg["cache"], cache_kwargs=kw)
            else:
                p = gen_map.build(spec, cache=True, cache_type=cfg["cache"], cache_kwargs=kw)
        for rep in (1, 2):
            terms.LOG.clear()
            try:
                with contextlib.redirect_stdout(io.StringIO()), warnings.catch_warnings():
                    warnings.simplefilter("ignore")
                    r = p.map(dict(inputs), internal_shapes=gen_map.internal_shapes_arg(spec), parallel=False, storage="dict")
            except Exception as e:  # noqa: BLE001
                return [(findings.exc_sig(e, part="map", cache=cfg["cache"]), f"cached map of {cfg['pipe']} raised {type(e).__name__}: {str(e)[:120]}")]
            for f in spec["funcs"]:
                for o in f["outs"]:
                    if terms.T(r[o].output) != terms.T(exp[o]):
                        out.append(({"kind": "map-value-mismatch", "cache": cfg["cache"]}, f"cached map {cfg['pipe']} run {rep}: {o} = {terms.T(r[o].output)[:100]}, uncached {terms.T(exp[o])[:100]}"))
            log = list(terms.LOG)
            for f in spec["funcs"]:
                n = sum(1 for name, _ in log if name == f["name"])
                distinct = len(set(calls[f["name"]]))
                if rep == 1 and n > len(calls[f["name"]]):
                    out.append(({"kind": "map-extra-calls", "cache": cfg["cache"]}, f"{cfg['pipe']}: {f['name']} called {n} times, uncached needs {len(calls[f['name']])}"))
                if rep == 1 and n > distinct and all(_hashable_args(spec, f)):
                    out.append(({"kind": "map-re-executed-resident", "cache": cfg["cache"]}, f"{cfg['pipe']}: {f['name']} called {n} times for {distinct} distinct argument sets"))
                if rep == 2 and n > 0 and all(_hashable_args(spec, f)):
                    out.append(({"kind": "map-re-executed-resident", "cache": cfg["cache"], "second_run": True}, f"{cfg['pipe']}: second identical map re-executed {f['name']} {n} times"))
        return out
    finally:
        if folder:
            shutil.rmtree(folder, ignore_errors=True)


def _hashable_args(spec, f):
    yield True


def map_case_deferred(cfg, chooser):
    """cached map through the deferred executor under one schedule (parallel code path, cache used inside the tasks)"""
    from .. import explore, sched
    _vclock()
    spec = c03.PIPES[cfg["pipe"]]
    inputs = gen_map.make_inputs(spec, "list")
    for k, v in inputs.items():
        if isinstance(v, list) and len(v) >= 2:
            inputs[k] = [v[0]] * len(v)
    exp, calls = gen_map.ref_map(spec, inputs)
    kw = {"shared": False} if cfg["cache"] in ("lru", "hybrid") else {}
    with warnings.catch_warnings():
        warnings.simplefilter("ignore")
        p = gen_map.build(spec, cache=True, cache_type=cfg["cache"], cache_kwargs=kw)
    s = sched.Sched(chooser or explore.Chooser())
    terms.LOG.clear()
    try:
        with contextlib.redirect_stdout(io.StringIO()), warnings.catch_warnings():
            warnings.simplefilter("ignore")
            r = p.map(dict(inputs), internal_shapes=gen_map.internal_shapes_arg(spec), parallel=True, executor=sched.DeferredExecutor(s), storage="dict")
    except sched.Hang as e:
        return [({"kind": "hang", "part": "map-deferred", "cache": cfg["cache"]}, f"cached parallel map of {cfg['pipe']}: {e}")]
    except Exception as e:  # noqa: BLE001
        return [(findings.exc_sig(e, part="map-deferred", cache=cfg["cache"]), f"cached parallel map of {cfg['pipe']} raised {type(e).__name__}: {str(e)[:120]}")]
    out = []
    for f in spec["funcs"]:
        for o in f["outs"]:
            if terms.T(r[o].output) != terms.T(exp[o]):
                out.append(({"kind": "map-value-mismatch", "part": "map-deferred", "cache": cfg["cache"]}, f"cached parallel map {cfg['pipe']}: {o} = {terms.T(r[o].output)[:100]}, uncached {terms.T(exp[o])[:100]}"))
    log = list(terms.LOG)
    for f in spec["funcs"]:
        got = [a for n, a in log if n == f["name"]]
        if not set(got) <= set(calls[f["name"]]) or set(got) != set(calls[f["name"]]):
            out.append(({"kind": "map-call-set", "part": "map-deferred", "cache": cfg["cache"]}, f"{cfg['pipe']}: {f['name']} called with {sorted(set(got))}, reference {sorted(set(calls[f['name']]))}"))
        if len(got) > len(calls[f["name"]]):
            out.append(({"kind": "map-extra-calls", "part": "map-deferred", "cache": cfg["cache"]}, f"{cfg['pipe']}: {f['name']} called {len(got)} times, uncached needs {len(calls[f['name']])}"))
    return out


def map_case_shared_interleaved(cfg, chooser):
    """cached parallel map with a SHARED cache: the element tasks of a generation run as logical threads that interleave
    at every manager-proxy operation of the cache (fake Manager); repeated input values make them hit the same entry"""
    import pipefunc.cache as pcache

    from .. import explore, threads
    _vclock()
    pcache.Manager = threads.FakeManager
    spec = c03.PIPES[cfg["pipe"]]
    inputs = gen_map.make_inputs(spec, "list")
    for k, v in inputs.items():
        if isinstance(v, list) and len(v) >= 2:
            inputs[k] = [v[0]] * len(v)
    exp, calls = gen_map.ref_map(spec, inputs)
    kw = {"shared": True, "allow_cloudpickle": False}
    if cfg.get("max_size"):
        kw["max_size"] = cfg["max_size"]
    with warnings.catch_warnings():
        warnings.simplefilter("ignore")
        p = gen_map.build(spec, cache=True, cache_type=cfg["cache"], cache_kwargs=kw)
    out = []
    rounds = 2 if cfg.get("warm") else 1
    for rnd in range(rounds):
        ex = threads.BatonExecutor(chooser or explore.Chooser())
        terms.LOG.clear()
        try:
            with contextlib.redirect_stdout(io.StringIO()), warnings.catch_warnings():
                warnings.simplefilter("ignore")
                if rnd == 0 and rounds == 2:
                    r = p.map(dict(inputs), internal_shapes=gen_map.internal_shapes_arg(spec), parallel=False, storage="dict")  # warm the cache
                else:
                    r = p.map(dict(inputs), internal_shapes=gen_map.internal_shapes_arg(spec), parallel=True, executor=ex, storage="dict")
        except Exception as e:  # noqa: BLE001
            return [(findings.exc_sig(e, part="map-shared-interleaved", cache=cfg["cache"], max_size_1=cfg.get("max_size") == 1),
                     f"cached parallel map ({cfg}) raised {type(e).__name__}: {str(e)[:120]} (the uncached map succeeds)")]
        if any(st != "ok" for st in ex.status):
            out.append(({"kind": [st for st in ex.status if st != "ok"][0], "part": "map-shared-interleaved", "cache": cfg["cache"]}, f"cached parallel map ({cfg}): scheduler status {ex.status}"))
        for f in spec["funcs"]:
            for o in f["outs"]:
                if terms.T(r[o].output) != terms.T(exp[o]):
                    none_result = "None" in terms.T(r[o].output)
                    out.append(({"kind": "map-value-mismatch", "part": "map-shared-interleaved", "cache": cfg["cache"], "none_instead_of_value": none_result,
                                 "max_size_1": cfg.get("max_size") == 1},
                                f"cached parallel map ({cfg}): {o} = {terms.T(r[o].output)[:100]}, uncached {terms.T(exp[o])[:100]}"))
    return out


# ------------------------------------------------------------------------------------------------
N3_FAMILY = [
    {"funcs": [{"name": "f0", "params": ["x"], "outs": ["o0"]}, {"name": "f1", "params": ["o0"], "outs": ["o1"]}, {"name": "f2", "params": ["o1", "x"], "outs": ["o2"]}]},
    {"funcs": [{"name": "f0", "params": ["x"], "outs": ["o0"]}, {"name": "f1", "params": ["o0"], "outs": ["o1"]}, {"name": "f2", "params": ["o0", "o1"], "outs": ["o2"]}]},
    {"funcs": [{"name": "f0", "params": ["x"], "outs": ["o0"]}, {"name": "f1", "params": ["y"], "outs": ["o1"]}, {"name": "f2", "params": ["o0", "o1"], "outs": ["o2"]}]},
    {"funcs": [{"name": "f0", "params": [], "outs": ["o0"]}, {"name": "f1", "params": ["o0", "x"], "outs": ["o1"]}, {"name": "f2", "params": ["o1"], "outs": ["o2"]}]},
    {"funcs": [{"name": "f0", "params": ["x"], "outs": ["o0", "p0"]}, {"name": "f1", "params": ["o0"], "outs": ["o1"]}, {"name": "f2", "params": ["p0", "o1"], "outs": ["o2"]}]},
]


def spec_family(stage):
    if stage == "N1-N2":
        yield from gen_dag.base_specs(1)
        yield from gen_dag.base_specs(2)
        for n in (1, 2):  # a cached None is a result like any other
            for s in gen_dag.base_specs(n):
                for d in gen_dag.decorations(s):
                    if d["deco"] == "returns-none":
                        yield d
    elif stage in ("N2-decorated-mutations", "N2-decorated-mutations-quick"):
        # quick leaves out the PipeFunc-level default (same code path as the signature default after construction)
        kinds = ("sigdef", "pfdef", "bound-root", "bound-upstream") if stage == "N2-decorated-mutations" else ("sigdef", "bound-root", "bound-upstream")
        for s in gen_dag.base_specs(2):
            for d in gen_dag.decorations(s):
                if d["deco"] in kinds:
                    yield d
    elif stage == "N2-bound-equals-a-call-value":
        # a root shared by two functions: a DEFAULT in the upstream one, BOUND in the (cached) downstream one to a value that a
        # caller may also pass for the root (the call alphabet uses 1 and 2): what identifies the call is the value the root
        # argument takes, not the bound value of the function whose result is stored
        for kind in ("sigdef", "pfdef"):
            yield {"funcs": [{"name": "f0", "params": ["x"], "outs": ["o0"], kind: {"x": 1}},
                             {"name": "f1", "params": ["o0", "x"], "outs": ["o1"], "bound": {"x": 2}}], "deco": "bound-root+" + kind}
    elif stage == "N3-family":
        yield from N3_FAMILY
    elif stage == "N3-all":
        yield from gen_dag.base_specs(3)


def cached_subsets(spec, tier):
    n = len(spec["funcs"])
    subs = [[True] * n]
    if n > 1:
        for i in range(n):
            subs.append([j == i for j in range(n)])
    return subs


def plan(tier, seed):
    units = []
    thorough = tier == "thorough"
    # (stage, cache types, history depth, mutation steps in the alphabet, cached subsets: "all" | "each")
    table = [
        ("N1-N2", ["simple"], 2 if not thorough else 3, False, "each"),
        ("N1-N2", ["lru", "hybrid", "disk"], 2 if not thorough else 3, False, "all" if not thorough else "each"),
        # depth 3 = call; mutation; call  (the shortest history on which a mutation can make a stored entry stale)
        ("N2-decorated-mutations" if thorough else "N2-decorated-mutations-quick", ["simple"] if not thorough else ["simple", "lru", "disk"], 3, True, "all"),
        ("N3-family", ["simple"] if not thorough else ["simple", "lru", "hybrid", "disk"], 3, True, "all" if not thorough else "each"),
        ("N2-bound-equals-a-call-value", ["simple", "lru"], 2 if not thorough else 3, False, "each"),
    ]
    for stage, caches, depth, muts, subsets in table:
        for spec in spec_family(stage):
            subs = cached_subsets(spec, tier) if subsets == "each" else [[True] * len(spec["funcs"])]
            for cached in subs:
                for ct in caches:
                    units.append((f"{stage}-depth{depth}-{'+'.join(caches)}", ("bfs", {"spec": spec, "cached": cached, "cache": ct}, depth, muts,
                                                                                stage.endswith("-quick"))))
    if thorough:
        for spec in spec_family("N3-all"):
            units.append(("N3-all-depth2-simple", ("bfs", {"spec": spec, "cached": [True] * 3, "cache": "simple"}, 2, False)))
    for ct in ("simple", "lru", "hybrid", "disk"):
        units.append(("two-pipelines-same-names", ("copydiv", {"cache": ct})))
    for ct in ("simple", "lru", "hybrid", "disk"):
        for kwm in ("default", "one-dict"):
            units.append(("two-pipelines-same-names", ("twopipes", {"cache": ct, "kwargs": kwm})))
    for ct in ("simple", "lru", "hybrid", "disk"):
        for kind in ("list", "dict", "ndarray"):
            for entry in ("call", "run", "map"):
                units.append(("mutable-argument-changed-in-place", ("mutarg", {"cache": ct, "kind": kind, "entry": entry})))
    for ct in ("simple", "lru", "hybrid", "disk"):
        units.append(("map-cached-vs-uncached", ("mapres", {"cache": ct})))
    for pipe in c03.PIPES:
        for ct in ("simple", "lru", "hybrid", "disk"):
            units.append(("map-cached-vs-uncached", ("map", {"pipe": pipe, "cache": ct})))
            units.append(("map-cached-vs-uncached", ("map", {"pipe": pipe, "cache": ct, "values": "equal-hash"})))
            units.append(("map-cached-vs-uncached", ("map", {"pipe": pipe, "cache": ct, "same_name": True})))
        for ct in ("simple", "lru", "hybrid"):
            units.append(("map-cached-deferred-executor-deviations<=1", ("mapdfs", {"pipe": pipe, "cache": ct}, 1 if not thorough else 2)))
        if thorough or pipe in ("two-maps-reduce", "tuple-zip"):
            for ct in ("lru", "hybrid"):
                for warm in (False, True):
                    for ms in (None, 1):
                        for k in range(4):  # one configuration's search tree dealt to 4 units (explore.choice_dfs shard=)
                            units.append(("map-shared-cache-task-interleavings", ("mapthr", {"pipe": pipe, "cache": ct, "warm": warm, "max_size": ms}, 1 if not thorough else 2, (k, 4))))
    by = {}
    for st, u in units:
        by.setdefault(st, []).append((st, u))
    out = []
    for st, us in by.items():
        r = seed % len(us)
        out.extend(us[r:] + us[:r])
    return out


def two_pipelines_case(cfg):
    """two pipelines with the SAME output and parameter names but different function bodies, built one after the other with
    the cache configuration left at its defaults (or sharing one user-supplied kwargs dict): the cache is per pipeline, so
    the second pipeline must return its own values"""
    _vclock()
    c03._install_one_manager()
    spec_a = {"funcs": [{"name": "f0", "params": ["x"], "outs": ["o0"]}, {"name": "f1", "params": ["o0", "y"], "outs": ["o1"]}]}
    spec_b = copy.deepcopy(spec_a)
    for f in spec_b["funcs"]:
        f["tag"] = "h" + f["name"][1:]
    out = []
    shared_kwargs = {} if cfg["kwargs"] == "one-dict" else None
    try:
        with warnings.catch_warnings(), contextlib.redirect_stdout(io.StringIO()):
            warnings.simplefilter("ignore")
            for which, spec in (("first", spec_a), ("second", spec_b)):
                p = gen_dag.build(spec, cache=True, cache_type=cfg["cache"], **({"cache_kwargs": shared_kwargs} if shared_kwargs is not None else {}))
                for o in ("o0", "o1"):
                    kw = {"x": "1", "y": "2"} if o == "o1" else {"x": "1"}
                    got = p(o, **kw)
                    want = gen_dag.ref_eval(spec, o, kw).value
                    if terms.T(got) != terms.T(want):
                        out.append(({"kind": "value-mismatch", "stage": "two-pipelines", "cache": cfg["cache"], "kwargs": cfg["kwargs"]},
                                    f"{which} pipeline (cache_type={cfg['cache']}, cache_kwargs {cfg['kwargs']}): {o} = {terms.T(got)}, uncached {terms.T(want)}"))
                if getattr(p, "cache", None) is not None and which == "second":
                    p.cache.clear()
    except Exception as e:  # noqa: BLE001
        out.append((findings.exc_sig(e, stage="two-pipelines", cache=cfg["cache"]), f"two pipelines with default cache settings raised {type(e).__name__}: {str(e)[:120]}"))
    return out


def copy_diverges_case(cfg):
    """p is used; q = p.copy() gets another function body (replace); both are then called with equal arguments: a copy has a
    cache of its own (the key - output name and root-argument values - does not identify the function bodies)"""
    _vclock()
    c03._install_one_manager()
    spec_a = {"funcs": [{"name": "f0", "params": ["x"], "outs": ["o0"]}, {"name": "f1", "params": ["o0", "y"], "outs": ["o1"]}]}
    spec_b = copy.deepcopy(spec_a)
    spec_b["funcs"][1]["tag"] = "h1"
    folder = None
    out = []
    try:
        # (no cache_dir for the disk cache: a directory that the caller names explicitly is shared by every pipeline given it)
        kw = {"lru_shared": False} if cfg["cache"] == "disk" else ({"shared": False} if cfg["cache"] in ("lru", "hybrid") else {})
        with warnings.catch_warnings(), contextlib.redirect_stdout(io.StringIO()):
            warnings.simplefilter("ignore")
            p = gen_dag.build(spec_a, cache=True, cache_type=cfg["cache"], cache_kwargs=kw)
            args = {"x": "1", "y": "2"}
            seq = [("original", p, spec_a)]
            p("o1", **args)
            q = p.copy()
            q.replace(gen_dag.build_funcs(spec_b, cache=True)[1])
            seq += [("copy after replace", q, spec_b), ("original again", p, spec_a)]
            for label, pl, sp in seq:
                got = pl("o1", **args)
                want = gen_dag.ref_eval(sp, "o1", args).value
                if terms.T(got) != terms.T(want):
                    out.append(({"kind": "value-mismatch", "stage": "copy-diverges", "cache": cfg["cache"]},
                                f"{label} (cache_type={cfg['cache']}): o1 = {terms.T(got)}, uncached {terms.T(want)}"))
                    break
    except Exception as e:  # noqa: BLE001
        out.append((findings.exc_sig(e, stage="copy-diverges", cache=cfg["cache"]), f"copy-then-replace raised {type(e).__name__}: {str(e)[:120]}"))
    finally:
        if folder:
            shutil.rmtree(folder, ignore_errors=True)
    return out


def mutated_arg_case(cfg):
    """the SAME mutable object passed twice with an in-place change in between (list / dict / ndarray; through pipeline(),
    run and map): the key must follow the value of the argument at call time, not its identity"""
    from pipefunc import Pipeline
    _vclock()
    c03._install_one_manager()
    folder = boot.mkscratch("c09a-") if cfg["cache"] == "disk" else None
    out = []
    try:
        kw = {"cache_dir": folder, "lru_shared": False} if cfg["cache"] == "disk" else ({"shared": False} if cfg["cache"] in ("lru", "hybrid") else {})

        def f(x):
            return "f(" + repr(x.tolist() if isinstance(x, np.ndarray) else x) + ")"

        def g(e):
            return f"g({e})"
        kind = cfg["kind"]
        obj = {"list": lambda: [1, 2], "dict": lambda: {"a": 1}, "ndarray": lambda: np.array([1, 2])}[kind]()

        def mutate():
            if kind == "list":
                obj[0] = 9
            elif kind == "dict":
                obj["a"] = 9
            else:
                obj[0] = 9
        with warnings.catch_warnings(), contextlib.redirect_stdout(io.StringIO()):
            warnings.simplefilter("ignore")
            if cfg["entry"] == "map":
                p = Pipeline([PipeFunc(g, "y", mapspec="e[i] -> y[i]", cache=True)], cache_type=cfg["cache"], cache_kwargs=kw)
                call = lambda: [str(v) for v in p.map({"e": obj if kind != "dict" else list(obj.values())}, parallel=False, storage="dict")["y"].output]  # noqa: E731
                want = lambda: [g(e) for e in (obj if kind != "dict" else obj.values())]  # noqa: E731
            else:
                p = Pipeline([PipeFunc(f, "y", cache=True)], cache_type=cfg["cache"], cache_kwargs=kw)
                call = (lambda: p("y", x=obj)) if cfg["entry"] == "call" else (lambda: p.run("y", kwargs={"x": obj}))
                want = lambda: f(obj)  # noqa: E731
            for step in ("before", "after the in-place change"):
                got, exp = call(), want()
                if got != exp:
                    out.append(({"kind": "value-mismatch", "stage": "mutated-argument", "cache": cfg["cache"], "arg": kind, "entry": cfg["entry"]},
                                f"cached {cfg['entry']} with a {kind} argument {step}: {got}, uncached {exp}"))
                    break
                mutate()
    except Exception as e:  # noqa: BLE001
        out.append((findings.exc_sig(e, stage="mutated-argument", cache=cfg["cache"]), f"cached call with a mutable {cfg['kind']} argument raised {type(e).__name__}: {str(e)[:120]}"))
    finally:
        if folder:
            shutil.rmtree(folder, ignore_errors=True)
    return out


def map_resources_case(cfg):
    """a cached mapped function that receives map-scope resources (computed from the WHOLE input) through
    resources_variable: three maps on one pipeline whose inputs share element values but differ as a whole"""
    from pipefunc import PipeFunc, Pipeline
    from pipefunc.resources import Resources
    _vclock()
    folder = boot.mkscratch("c09r-") if cfg["cache"] == "disk" else None
    out = []
    try:
        def f(x, res):
            terms.log_call("f", f"{x},cpus={res.cpus}")
            return f"f({x},cpus={res.cpus})"

        kw = {"cache_dir": folder, "lru_shared": False} if cfg["cache"] == "disk" else ({"shared": False} if cfg["cache"] in ("lru", "hybrid") else {})
        with warnings.catch_warnings(), contextlib.redirect_stdout(io.StringIO()):
            warnings.simplefilter("ignore")
            pf = PipeFunc(f, "y", mapspec="x[i] -> y[i]", cache=True, resources=lambda kw_: Resources(cpus=len(kw_["x"])),
                          resources_variable="res", resources_scope="map")
            p = Pipeline([pf], cache_type=cfg["cache"], cache_kwargs=kw)
            for xs in (["a", "b"], ["a", "b", "c"], ["b", "b", "a", "d"]):
                r = p.map({"x": list(xs)}, parallel=False, storage="dict")
                got = [str(v) for v in r["y"].output]
                want = [f"f({x},cpus={len(xs)})" for x in xs]
                if got != want:
                    out.append(({"kind": "value-mismatch", "stage": "map-resources", "cache": cfg["cache"]},
                                f"cached map over {xs} with map-scope resources (cpus=len(x)) returned {got}, uncached gives {want}"))
                    break
    except Exception as e:  # noqa: BLE001
        out.append((findings.exc_sig(e, stage="map-resources", cache=cfg["cache"]), f"cached map with map-scope resources raised {type(e).__name__}: {str(e)[:120]}"))
    finally:
        if folder:
            shutil.rmtree(folder, ignore_errors=True)
    return out


def run_unit(unit):
    acc = Acc()
    if unit[0] == "bfs":
        _, cfg, depth, muts = unit[:4]
        n = bfs(cfg, depth, acc, muts, bool(unit[4]) if len(unit) > 4 else False)
        acc.stratum("bfs-" + cfg["cache"])
        if all(cfg["cached"]) and cfg["cache"] == "simple" and len(cfg["spec"]["funcs"]) == 3:
            acc.sample({"spec": cfg["spec"], "cached": cfg["cached"], "cache": cfg["cache"], "depth": depth, "step_alphabet": n})
    elif unit[0] == "twopipes":
        _, cfg = unit
        acc.case(hash(("twopipes", str(cfg))))
        acc.states += 2
        acc.transitions += 4
        acc.traces += 1
        acc.stratum("two-pipelines-same-names")
        for sig, text in two_pipelines_case(cfg):
            acc.violation(sig, {"cfg": cfg, "twopipes": True}, text)
    elif unit[0] == "copydiv":
        _, cfg = unit
        acc.case(hash(("copydiv", str(cfg))))
        acc.states += 3
        acc.transitions += 3
        acc.traces += 1
        acc.stratum("copy-then-replace")
        for sig, text in copy_diverges_case(cfg):
            acc.violation(sig, {"cfg": cfg, "copydiv": True}, text)
    elif unit[0] == "mutarg":
        _, cfg = unit
        acc.case(hash(("mutarg", str(cfg))))
        acc.states += 2
        acc.transitions += 2
        acc.traces += 1
        acc.stratum("mutable-argument-changed-in-place")
        for sig, text in mutated_arg_case(cfg):
            acc.violation(sig, {"cfg": cfg, "mutarg": True}, text)
    elif unit[0] == "mapres":
        _, cfg = unit
        acc.case(hash(("mapres", str(cfg))))
        acc.states += 3
        acc.transitions += 3
        acc.traces += 1
        acc.stratum("map-with-map-scope-resources")
        for sig, text in map_resources_case(cfg):
            acc.violation(sig, {"cfg": cfg, "mapres": True}, text)
    elif unit[0] == "mapthr":
        from .. import explore
        _, cfg, bound = unit[:3]
        n = 0
        for ch, vs in explore.choice_dfs(lambda c: map_case_shared_interleaved(cfg, c), bound, 3000, unit[3] if len(unit) > 3 else None):
            n += 1
            acc.transitions += len(ch.trace)
            acc.traces += 1
            for sig, text in vs:
                acc.violation(sig, {"cfg": cfg, "mapthr": True, "choices": ch.choices}, text + f" under schedule {ch.choices}")
        acc.case(hash(("mapthr", str(cfg))), n=n)
        acc.states += n
        acc.stratum("map-shared-interleavings", n)
        if n >= 3000:
            acc.notes["mapthr-execution-cap-hit"] += 1
    elif unit[0] == "mapdfs":
        from .. import explore
        _, cfg, bound = unit
        n = 0
        for ch, vs in explore.choice_dfs(lambda c: map_case_deferred(cfg, c), bound):
            n += 1
            acc.transitions += len(ch.trace)
            acc.traces += 1
            for sig, text in vs:
                acc.violation(sig, {"cfg": cfg, "mapdfs": True, "choices": ch.choices}, text + f" under schedule {ch.choices}")
        acc.case(hash(("mapdfs", str(cfg))), n=n)
        acc.states += n
        acc.stratum("map-deferred-" + cfg["cache"], n)
    else:
        _, cfg = unit
        acc.case(hash(str(cfg)))
        acc.states += 1
        acc.transitions += 2
        acc.traces += 2
        acc.stratum("map-" + cfg["cache"])
        for sig, text in map_case(cfg):
            acc.violation(sig, {"cfg": cfg, "map": True}, text)
    return acc


def replay(art):
    if art.get("mapthr"):
        from .. import explore
        return [s for s, _ in map_case_shared_interleaved(art["cfg"], explore.Chooser(art["choices"]))]
    if art.get("mapdfs"):
        from .. import explore
        return [s for s, _ in map_case_deferred(art["cfg"], explore.Chooser(art["choices"]))]
    if art.get("twopipes"):
        return [s for s, _ in two_pipelines_case(art["cfg"])]
    if art.get("copydiv"):
        return [s for s, _ in copy_diverges_case(art["cfg"])]
    if art.get("mutarg"):
        return [s for s, _ in mutated_arg_case(art["cfg"])]
    if art.get("mapres"):
        return [s for s, _ in map_resources_case(art["cfg"])]
    if art.get("map"):
        return [s for s, _ in map_case(art["cfg"])]
    hist = [[tuple(x) if isinstance(x, list) and s[0] in ("bound", "fdefaults") and i == 1 else x for i, x in enumerate(s)] for s in art["hist"]]
    vs, _ = run_history(art["cfg"], hist)
    return [s for s, _ in vs]


PipeFunc  # noqa: B018  (imported for type reference in build helpers)
