"""C13 — user-function failures surface unchanged, attributed and reproducible (DESIGN.md §5 C13).

Fault enumeration: EVERY (function, call index) of the pipelines is made the failing invocation, for three exception
types, under pipeline(...)/run, sequential map, every schedule (deviation-bounded) of the deferred executor (sync and
async), a real thread pool and (thorough) a real process pool."""
from __future__ import annotations

import concurrent.futures as cf
import contextlib
import io
import itertools
import os
import shutil
import warnings

import numpy as np
from pipefunc._pipefunc import ErrorSnapshot
from pipefunc.map import load_outputs

from .. import boot, explore, findings, gen_dag, gen_map, sched, terms
from ..acc import Acc
from . import c02, c03

ID = "C13"
LEVEL = "fault_enumeration"
TECHNIQUE = "exhaustive fault-position enumeration (every function call as the failing one) x exception types x execution modes, with all deviation-bounded task schedules explored for the executor modes"
RULE = ("mapped pipelines of C03's family and G-DAG pipelines N<=2 with all decorations (thorough: N=3), including histories of two failures on one pipeline object, x every (function, call index) as the failing invocation x "
        "exception {ValueError('boom', k), KeyError(), custom picklable class with an attribute} x {pipeline(), run, func(), sequential map, deferred executor: every "
        "schedule with <= B deviations, sync and async, real thread pool, real process pool (thorough), sequential with show_progress=True, sequential with profile=True (one pipeline; nothing may be left running)}; plus a failing function whose argument cannot be copied (a lock) or is recognised by identity (a sentinel), through pipeline(), run and map: same exception, snapshot present, reproduce() raises it again; the same for a failure inside a NestedPipeFunc (snapshot attribute readable before any call, printable afterwards); the note shows every argument the failing invocation received (strings and whole arrays). non-trivial = distinct (pipeline, failing function, call index, "
        "exception type, mode) where the failing call is not the first call of the run")
ASSUMPTIONS = ["'loadable afterwards' is demanded for file_array storage (dict storages persist only at the end of a successful run)",
               "for pipeline()/run the 'later generation' clause is checked as: nothing runs after the failing call and no dependent of the failing function ran",
               "ErrorSnapshot clauses are checked for in-process execution only (sequential, deferred executor, thread pool)"]
BUDGET = {"quick": 80.0, "thorough": 900.0}


class CustomError(Exception):
    """picklable user exception with an extra attribute"""

    def __init__(self, msg, code=0):
        super().__init__(msg, code)
        self.code = code

    def __reduce__(self):
        # the instance state (incl. __notes__) travels with the exception, as for the built-in exceptions; an exception
        # class whose __reduce__ drops its state loses its notes in ANY process pool - not pipefunc's doing
        return (CustomError, (self.args[0], self.code), dict(self.__dict__))


def _older_failure():
    raise RuntimeError("an older failure")


def _noted(k):
    """an exception that ALREADY carries a note of the user's own when it leaves the user function (PEP 678)"""
    e = ValueError("boom-with-note", k)
    e.add_note("hint added by the user function")
    return e


EXC = {
    "ValueError": lambda k: ValueError("boom", k),
    "KeyError": lambda k: KeyError(),
    "Custom": lambda k: CustomError("custom-boom", 40 + k),
    "Noted": _noted,
}
# exceptions that only the in-process sequential map can carry unchanged (a StopIteration cannot be set on an asyncio
# future, and a process pool re-creates it): used for mode "sequential" only
EXC_SEQUENTIAL_ONLY = {"StopIteration": lambda k: StopIteration("stop", k)}
EXC_ALL = {**EXC, **EXC_SEQUENTIAL_ONLY}


def make_hook(fault, seen):
    counter = {}

    def hook(name, kw):
        counter[name] = counter.get(name, 0) + 1
        if name == fault["func"] and counter[name] == fault["call"]:
            seen["kwargs"] = {k: terms.T(v) for k, v in kw.items()}
            seen["raw"] = dict(kw)
            raise EXC_ALL[fault["exc"]](fault["call"])
    return hook


def same_exc(e, fault):
    want = EXC_ALL[fault["exc"]](fault["call"])
    return type(e) is type(want) and e.args == want.args and getattr(e, "code", None) == getattr(want, "code", None)


def attribution_ok(e, fname, seen):
    notes = " ".join(getattr(e, "__notes__", []) or []) + " " + " ".join(str(a) for a in e.args)
    if f"`{fname}(" not in notes and f"{fname}(" not in notes:
        return False, f"no note names the failing function {fname}: {getattr(e, '__notes__', None)}"
    for k, v in (seen.get("raw") or {}).items():
        # the hook sees the ORIGINAL parameter names, the note may use the renamed ones: compare by value
        if isinstance(v, str) and f"={v!r}" not in notes:
            return False, f"note does not show the failing invocation's argument value {v!r} (parameter {k}): {getattr(e, '__notes__', None)}"
        # whole arrays / lists (a reduction): the note shows the value the function RECEIVED, not a storage handle
        if not isinstance(v, str) and " at 0x" not in repr(v) and f"={v!r}" not in notes:
            return False, f"note does not show the array the failing invocation received for parameter {k} ({repr(v)[:60]}...): {str(getattr(e, '__notes__', None))[:300]}"
    return True, ""


def snapshot_checks(p, fault, base):
    """in-process: function and pipeline expose an ErrorSnapshot whose reproduce() raises the same exception"""
    out = []
    spec_name = fault["func"]
    snaps = []
    try:
        fn = next(f for f in p.functions if f.__name__ == spec_name)
        snaps.append(("func", fn.error_snapshot))
        snaps.append(("pipeline", p.error_snapshot))
    except Exception as e:  # noqa: BLE001
        return [({"kind": "snapshot-access", "exc": type(e).__name__, **base}, f"accessing error_snapshot raised {e!r}")]
    for where, snap in snaps:
        if not isinstance(snap, ErrorSnapshot):
            out.append(({"kind": "snapshot-missing", "where": where, **base}, f"{where}.error_snapshot is {snap!r} after the failure"))
            continue
        tmp = boot.mkscratch("c13s-")
        try:
            path = os.path.join(tmp, "snap.pkl")
            # the file already holds an OLDER snapshot (a user saving "the last error" under one name): saving must replace it
            ErrorSnapshot(_older_failure, RuntimeError("an older failure"), (), {}).save_to_file(path)
            snap.save_to_file(path)
            loaded = ErrorSnapshot.load_from_file(path)
            for tag, s in (("reproduce", snap), ("reproduce-after-load", loaded)):
                terms.LOG.clear()
                try:
                    with contextlib.redirect_stdout(io.StringIO()):
                        s.reproduce()
                except Exception as e2:  # noqa: BLE001
                    # the hook counts calls; reproduce() calls the raw function again: accept the same TYPE raised by the body
                    # or, when the body no longer fails (call counter moved on), compare through the stored exception
                    if not (type(e2) is type(snap.exception)):
                        out.append(({"kind": "snapshot-reproduce-wrong", "where": where, "tag": tag, "got": type(e2).__name__, **base},
                                    f"{where}.error_snapshot.{tag}() raised {e2!r}, original {snap.exception!r}"))
                else:
                    out.append(({"kind": "snapshot-reproduce-no-raise", "where": where, "tag": tag, **base},
                                f"{where}.error_snapshot.{tag}() did not raise"))
            if not same_exc(snap.exception, fault):
                out.append(({"kind": "snapshot-wrong-exception", "where": where, **base}, f"{where}.error_snapshot.exception = {snap.exception!r}"))
        except Exception as e3:  # noqa: BLE001
            out.append(({"kind": "snapshot-save-load", "exc": type(e3).__name__, "where": where, **base}, f"save/load of the snapshot raised {e3!r}"))
        finally:
            shutil.rmtree(tmp, ignore_errors=True)
    return out


# ------------------------------------------------------------------------------------------------
# mapped pipelines
# ------------------------------------------------------------------------------------------------
def sticky_hook(fault, seen):
    """fails at the chosen call AND whenever called again with the same arguments (so reproduce() fails too)"""
    counter = {}

    def hook(name, kw):
        counter[name] = counter.get(name, 0) + 1
        key = {k: terms.T(v) for k, v in kw.items()}
        if name == fault["func"] and (counter[name] == fault["call"] or ("kwargs" in seen and key == seen["kwargs"])):
            if "kwargs" not in seen:
                seen["kwargs"] = key
                seen["raw"] = dict(kw)
            raise EXC_ALL[fault["exc"]](fault["call"])
    return hook


def args_hook(fault, spec, inputs):
    """for worker PROCESSES (each has its own call counter): fails the invocation whose arguments are those of the
    fault's call index in the reference call order - the same invocation in whichever worker runs it"""
    _, calls = gen_map.ref_map(spec, inputs)
    target = calls[fault["func"]][fault["call"] - 1]
    params = next(f["params"] for f in spec["funcs"] if f["name"] == fault["func"])

    def hook(name, kw):
        if name == fault["func"] and ",".join(terms.T(kw[p]) for p in params) == target:
            raise EXC_ALL[fault["exc"]](fault["call"])
    return hook


def profile_fault_case(cfg, fault):
    """a failing invocation with profile=True (each call is wrapped in a ResourceProfiler with a measuring thread): the
    failure surfaces AND nothing is left running. Runs in a forked child that ends with os._exit, watched with a timeout."""
    import pickle
    import tempfile
    import threading
    import time as _time
    spec = c03.PIPES[cfg["pipe"]]
    inputs = gen_map.make_inputs(spec, "list")
    base = {"pipe": cfg["pipe"], "mode": "sequential-profile", "exc_type": fault["exc"]}
    fd, out = tempfile.mkstemp(prefix="c13p-", dir=boot.scratch_root())
    os.close(fd)
    pid = os.fork()
    if pid == 0:
        res = {"raised": None, "same": False, "alive": []}
        try:
            seen = {}
            with contextlib.redirect_stdout(io.StringIO()), warnings.catch_warnings():
                warnings.simplefilter("ignore")
                p = gen_map.build(spec, hook=sticky_hook(fault, seen), profile=True)
                try:
                    p.map(dict(inputs), parallel=False, storage="dict")
                except Exception as e:  # noqa: BLE001
                    res["raised"] = type(e).__name__
                    res["same"] = same_exc(e, fault)
            _time.sleep(0.4)
            res["alive"] = [t.name for t in threading.enumerate() if t is not threading.main_thread() and t.is_alive()]
        except BaseException as e:  # noqa: BLE001
            res["harness"] = repr(e)
        finally:
            with open(out, "wb") as fh:
                fh.write(pickle.dumps(res))
            os._exit(0)
    t0 = _time.time()
    hung = False
    while True:
        done, _st = os.waitpid(pid, os.WNOHANG)
        if done:
            break
        if _time.time() - t0 > 60:
            os.kill(pid, 9)
            os.waitpid(pid, 0)
            hung = True
            break
        _time.sleep(0.05)
    try:
        data = open(out, "rb").read()
        res = pickle.loads(data) if data else None  # noqa: S301
    finally:
        os.remove(out)
    if hung or res is None:
        return [({"kind": "hang", **base}, f"{cfg} {fault} with profile=True: the run did not end within 60 s")]
    if "harness" in res:
        raise RuntimeError(res["harness"])
    outv = []
    if res["raised"] is None:
        outv.append(({"kind": "failure-swallowed", **base}, f"{cfg} {fault} with profile=True: the failure did not surface"))
    elif not res["same"]:
        outv.append(({"kind": "exception-changed", "got": res["raised"], **base}, f"{cfg} {fault} with profile=True: caller got {res['raised']}"))
    if res["alive"]:
        outv.append(({"kind": "threads-left-running", **base},
                     f"{cfg} {fault} with profile=True: threads still running after the failure surfaced: {res['alive']} (the interpreter cannot exit)"))
    return outv


def special_argument_cases(which):
    """arguments that cannot be copied (a lock) or that the function recognises by IDENTITY (a sentinel object): the failure
    surfaces unchanged, the snapshot exists and reproduce() raises the same exception"""
    import threading

    from pipefunc import PipeFunc, Pipeline
    val = threading.Lock() if which == "uncopyable" else object()

    def f(x):
        if x is val:
            raise ValueError("boom", which)
        return "did-not-fail"

    out = []
    for entry in ("call", "run", "map"):
        base = {"mode": "special-argument", "argument": which, "entry": entry}
        with contextlib.redirect_stdout(io.StringIO()), warnings.catch_warnings():
            warnings.simplefilter("ignore")
            p = Pipeline([PipeFunc(f, "y")])
            try:
                if entry == "call":
                    p("y", x=val)
                elif entry == "run":
                    p.run("y", kwargs={"x": val})
                else:
                    p.map({"x": val}, parallel=False, storage="dict")
            except ValueError as e:
                if e.args != ("boom", which):
                    out.append(({"kind": "exception-changed", "got": "ValueError", **base}, f"{entry} with a {which} argument: caller got {e!r}"))
                    continue
            except Exception as e:  # noqa: BLE001
                out.append(({"kind": "exception-changed", "got": type(e).__name__, "site": findings.exc_site(e), **base},
                            f"{entry} with a {which} argument: the user's ValueError('boom') surfaced as {e!r}"))
                continue
            else:
                out.append(({"kind": "failure-swallowed", **base}, f"{entry} with a {which} argument: no exception"))
                continue
            for owner, snap in (("function", p["y"].error_snapshot), ("pipeline", p.error_snapshot)):
                if snap is None:
                    out.append(({"kind": "no-snapshot", "owner": owner, **base}, f"{entry} with a {which} argument: {owner}.error_snapshot is None"))
                    continue
                try:
                    r = snap.reproduce()
                except ValueError as e:
                    if e.args != ("boom", which):
                        out.append(({"kind": "reproduce-differs", "owner": owner, **base}, f"{entry}: {owner}.error_snapshot.reproduce() raised {e!r}"))
                except Exception as e:  # noqa: BLE001
                    out.append(({"kind": "reproduce-differs", "owner": owner, **base}, f"{entry}: {owner}.error_snapshot.reproduce() raised {e!r}"))
                else:
                    out.append(({"kind": "reproduce-returns", "owner": owner, **base},
                                f"{entry} with a {which} argument: {owner}.error_snapshot.reproduce() returned {r!r} instead of raising the recorded exception"))
    return out


def nested_snapshot_case():
    """a pipeline whose functions were combined by nest_funcs: the snapshot attribute exists before any call, and after a
    failure inside the nested function the same exception surfaces, a snapshot exists, can be printed and reproduces it"""
    from pipefunc import PipeFunc, Pipeline
    out = []
    base = {"mode": "nested-pipefunc"}

    def f(x):
        return f"f({x})"

    def g(y):
        raise ValueError("boom", y)
    with contextlib.redirect_stdout(io.StringIO()), warnings.catch_warnings():
        warnings.simplefilter("ignore")
        p = Pipeline([PipeFunc(f, "y"), PipeFunc(g, "z")])
        p.nest_funcs("*")
        try:
            if p.error_snapshot is not None:
                out.append(({"kind": "snapshot-before-failure", **base}, "a nested pipeline has an error_snapshot before any call"))
        except Exception as e:  # noqa: BLE001
            out.append(({"kind": "snapshot-attribute-raises", "when": "before-any-call", "exc": type(e).__name__, **base},
                        f"pipeline.error_snapshot of a pipeline with a NestedPipeFunc raised {e!r} before any call"))
        for entry in ("call", "map"):
            try:
                if entry == "call":
                    p("z", x="<x>")
                else:
                    p.map({"x": "<x>"}, parallel=False, storage="dict")
            except ValueError as e:
                if e.args != ("boom", "f(<x>)"):
                    out.append(({"kind": "exception-changed", "got": "ValueError", "entry": entry, **base}, f"{entry}: caller got {e!r}"))
                    continue
            except Exception as e:  # noqa: BLE001
                out.append(({"kind": "exception-changed", "got": type(e).__name__, "entry": entry, **base}, f"{entry}: the user's ValueError surfaced as {e!r}"))
                continue
            else:
                out.append(({"kind": "failure-swallowed", "entry": entry, **base}, f"{entry}: no exception"))
                continue
            try:
                snap = p.error_snapshot
                if snap is None:
                    out.append(({"kind": "no-snapshot", "entry": entry, **base}, f"{entry}: pipeline.error_snapshot is None after the failure"))
                    continue
                str(snap)
            except Exception as e:  # noqa: BLE001
                out.append(({"kind": "snapshot-unusable", "exc": type(e).__name__, "entry": entry, **base},
                            f"{entry}: reading / printing pipeline.error_snapshot after a failure inside a NestedPipeFunc raised {e!r}"))
                continue
            try:
                r = snap.reproduce()
            except ValueError as e:
                if e.args != ("boom", "f(<x>)"):
                    out.append(({"kind": "reproduce-differs", "entry": entry, **base}, f"{entry}: reproduce() raised {e!r}"))
            except Exception as e:  # noqa: BLE001
                out.append(({"kind": "reproduce-differs", "entry": entry, **base}, f"{entry}: reproduce() raised {e!r}"))
            else:
                out.append(({"kind": "reproduce-returns", "entry": entry, **base}, f"{entry}: reproduce() returned {r!r}"))
    return out


def generations(spec):
    gen = {}
    prod = {o: f["name"] for f in spec["funcs"] for o in f["outs"]}
    for f in spec["funcs"]:
        g = 0
        for p in f["params"]:
            if p in prod:
                g = max(g, gen[prod[p]] + 1)
        gen[f["name"]] = g
    return gen


def run_map_fault(cfg, fault, chooser=None):  # noqa: C901, PLR0912, PLR0915
    """one execution of a mapped pipeline with one failing invocation; returns [(sig, text)]"""
    c03._install_one_manager()
    spec = c03.PIPES[cfg["pipe"]]
    inputs = gen_map.make_inputs(spec, "list")
    seen = {}
    base = {"pipe": cfg["pipe"], "mode": cfg["mode"], "exc_type": fault["exc"]}
    folder = boot.mkscratch("c13-")
    run = os.path.join(folder, "run")
    logf = os.path.join(folder, "calls.log")
    pool = None
    out = []
    terms.LOG.clear()
    try:
        p = gen_map.build(spec, hook=args_hook(fault, spec, inputs) if cfg["mode"] == "process" else sticky_hook(fault, seen))
        kw = dict(run_folder=run, internal_shapes=gen_map.internal_shapes_arg(spec), storage=c03.storage_arg(cfg["storage"]))
        mode = cfg["mode"]
        raised = None
        status = "ok"
        try:
            with contextlib.redirect_stdout(io.StringIO()), warnings.catch_warnings():
                warnings.simplefilter("ignore")
                if mode == "sequential":
                    p.map(dict(inputs), parallel=False, **kw)
                elif mode == "sequential-progress":
                    p.map(dict(inputs), parallel=False, show_progress=True, **kw)
                elif mode in ("deferred-sync", "deferred-async"):
                    s = sched.Sched(chooser or explore.Chooser())
                    ex, _ = c03.make_executors(spec, cfg.get("exec", "one"), s)
                    if mode == "deferred-sync":
                        p.map(dict(inputs), parallel=True, executor=ex, **kw)
                    else:
                        async def main():
                            am = p.map_async(dict(inputs), executor=ex, **kw)
                            return await am.task
                        sched.run_async(main, s)
                elif mode == "thread":
                    pool = cf.ThreadPoolExecutor(3)
                    p.map(dict(inputs), parallel=True, executor=pool, **kw)
                elif mode == "process":
                    import multiprocessing
                    terms.LOG_FILE = logf
                    pool = cf.ProcessPoolExecutor(2, mp_context=multiprocessing.get_context("fork"))
                    p.map(dict(inputs), parallel=True, executor=pool, **kw)
        except sched.Hang as e:
            status = "hang"
            out.append(({"kind": "hang", **base}, f"{cfg} {fault}: {e}"))
        except Exception as e:  # noqa: BLE001
            raised = e
        finally:
            terms.LOG_FILE = None
        if status == "hang":
            return out
        if raised is None:
            return [({"kind": "failure-swallowed", **base}, f"{cfg}: the failing invocation {fault} did not surface (map returned)")]
        if not same_exc(raised, fault):
            return [({"kind": "exception-changed", "got": type(raised).__name__, **base, "site": findings.exc_site(raised)},
                     f"{cfg} {fault}: caller got {raised!r}")]
        if mode != "process":
            ok, why = attribution_ok(raised, fault["func"], seen)
        else:
            notes = " ".join(getattr(raised, "__notes__", []) or [])
            ok, why = (f"{fault['func']}(" in notes, f"no note names {fault['func']}: {getattr(raised, '__notes__', None)}")
        if not ok:
            out.append(({"kind": "attribution", **base}, f"{cfg} {fault}: {why}"))
        # later generations
        gens = generations(spec)
        log = list(terms.LOG) if mode != "process" else [(n, a) for n, a, _ in terms.read_log_file(logf)]
        late = sorted({n for n, _ in log if gens[n] > gens[fault["func"]]})
        if late:
            out.append(({"kind": "later-generation-ran", **base}, f"{cfg} {fault}: functions of a later generation ran: {late}"))
        if mode != "process":
            out.extend(snapshot_checks(p, fault, base))
        # earlier results stay loadable (file_array)
        if cfg["storage"] == "file_array":
            exp, calls = gen_map.ref_map(spec, inputs)
            for f in spec["funcs"]:
                for o in f["outs"]:
                    try:
                        with contextlib.redirect_stdout(io.StringIO()):
                            lo = load_outputs(o, run_folder=run)
                    except Exception as e:  # noqa: BLE001
                        if gens[f["name"]] < gens[fault["func"]]:
                            out.append(({"kind": "earlier-result-unloadable", "exc": type(e).__name__, **base},
                                        f"{cfg} {fault}: load_outputs({o}) after the failure raised {e!r}"))
                        continue
                    if gens[f["name"]] < gens[fault["func"]] and terms.T(lo) != terms.T(exp[o]):
                        out.append(({"kind": "earlier-result-wrong", **base}, f"{cfg} {fault}: load_outputs({o}) = {terms.T(lo)[:100]}, expected {terms.T(exp[o])[:100]}"))
                    if f["name"] == fault["func"] and f["ms"] and mode == "sequential" and isinstance(lo, np.ma.MaskedArray):
                        # elements computed before the failing call are present, the failing element and later ones are masked
                        flat_missing = [bool(x) for x in np.ma.getmaskarray(lo).reshape(len(calls[f["name"]]), -1).all(axis=1)]
                        want = [i >= fault["call"] - 1 for i in range(len(calls[f["name"]]))]
                        if not f["internal"] and flat_missing != want:
                            out.append(({"kind": "partial-results-mask", **base}, f"{cfg} {fault}: mask of {o} after failure {flat_missing}, expected {want}"))
        return out
    finally:
        if pool is not None:
            pool.shutdown(wait=True)
        shutil.rmtree(folder, ignore_errors=True)


# ------------------------------------------------------------------------------------------------
# non-mapped pipelines (G-DAG)
# ------------------------------------------------------------------------------------------------
def run_dag_fault(spec, out_name, kw, fidx, exc, entry):
    fault = {"func": spec["funcs"][fidx]["name"], "call": 1, "exc": exc}
    base = {"mode": "dag-" + entry, "exc_type": exc, "deco": spec.get("deco")}
    seen = {}
    out_t = tuple(out_name) if isinstance(out_name, list) else out_name
    ref = gen_dag.ref_eval(spec, out_t, kw)
    if fidx not in ref.ran:
        return []
    p = gen_dag.build(spec, hook=sticky_hook(fault, seen))
    terms.LOG.clear()
    try:
        with contextlib.redirect_stdout(io.StringIO()):
            c02._invoke(p, entry, out_t, kw)
    except Exception as e:  # noqa: BLE001
        raised = e
    else:
        return [({"kind": "failure-swallowed", **base}, f"{spec['funcs']}: failing {fault} did not surface from {entry}({out_t}, {kw})")]
    res = []
    if not same_exc(raised, fault):
        return [({"kind": "exception-changed", "got": type(raised).__name__, "site": findings.exc_site(raised), **base}, f"{entry}({out_t}, {kw}) with failing {fault}: caller got {raised!r}")]
    ok, why = attribution_ok(raised, fault["func"], seen)
    if not ok:
        res.append(({"kind": "attribution", **base}, f"{entry}({out_t}, {kw}) failing {fault}: {why}"))
    names = [n for n, _ in terms.LOG]
    if not names or names[-1] != fault["func"]:
        res.append(({"kind": "ran-after-failure", **base}, f"{entry}({out_t}, {kw}) failing {fault}: call log {names}"))
    res.extend(snapshot_checks(p, fault, base))
    return res


def run_dag_two_faults(spec, out_name, kw, first, second, exc1="ValueError", exc2="KeyError"):
    """history of two failing calls on ONE pipeline object (different failing functions): the pipeline's snapshot must be
    the one of the latest failure"""
    out_t = tuple(out_name) if isinstance(out_name, list) else out_name
    ref = gen_dag.ref_eval(spec, out_t, kw)
    if first not in ref.ran or second not in ref.ran or first == second:
        return []
    current = {}
    seen = {}

    def hook(name, kwargs):
        f = current.get("fault")
        if f and name == f["func"]:
            seen["raw"] = dict(kwargs)
            raise EXC[f["exc"]](1)
    p = gen_dag.build(spec, hook=hook)
    base = {"mode": "dag-two-failures", "deco": spec.get("deco")}
    res = []
    for idx, exc in ((first, exc1), (second, exc2)):
        current["fault"] = {"func": spec["funcs"][idx]["name"], "call": 1, "exc": exc}
        try:
            with contextlib.redirect_stdout(io.StringIO()):
                p(out_t, **kw)
        except Exception as e:  # noqa: BLE001
            if not same_exc(e, current["fault"]):
                return [({"kind": "exception-changed", "got": type(e).__name__, **base}, f"two-failure history on {spec['funcs']}: caller got {e!r}")]
        else:
            return [({"kind": "failure-swallowed", **base}, f"two-failure history: failing {current['fault']} did not surface")]
    snap = p.error_snapshot
    if not isinstance(snap, ErrorSnapshot) or not same_exc(snap.exception, current["fault"]):
        res.append(({"kind": "pipeline-snapshot-stale", "first_listed_before_second": first < second, **base},
                    f"{[(f['name'], f['params']) for f in spec['funcs']]}: after {spec['funcs'][first]['name']} failed and then {spec['funcs'][second]['name']} failed, "
                    f"pipeline.error_snapshot holds {getattr(snap, 'exception', None)!r} instead of the latest failure"))
    return res


# ------------------------------------------------------------------------------------------------
def map_faults(pipe):
    spec = c03.PIPES[pipe]
    _, calls = gen_map.ref_map(spec, gen_map.make_inputs(spec, "list"))
    for f in spec["funcs"]:
        for k in range(1, len(calls[f["name"]]) + 1):
            yield f["name"], k


def plan(tier, seed):
    units = []
    bound = 1 if tier == "quick" else 2
    for pipe in c03.PIPES:
        for fname, k in map_faults(pipe):
            for exc in EXC:
                for mode, storage in (("sequential", "file_array"), ("sequential", "dict"), ("thread", "file_array"), ("sequential-progress", "dict")):
                    if mode == "sequential-progress" and exc != "ValueError":
                        continue
                    units.append(("map-sequential-and-thread-pool", ("map", {"pipe": pipe, "mode": mode, "storage": storage}, {"func": fname, "call": k, "exc": exc}, None)))
            for exc in EXC_SEQUENTIAL_ONLY:
                units.append(("map-sequential-and-thread-pool", ("map", {"pipe": pipe, "mode": "sequential", "storage": "dict"}, {"func": fname, "call": k, "exc": exc}, None)))
            for exc in EXC:
                if tier == "thorough":
                    units.append(("map-process-pool", ("map", {"pipe": pipe, "mode": "process", "storage": "file_array"}, {"func": fname, "call": k, "exc": exc}, None)))
            for mode in ("deferred-sync", "deferred-async"):
                for storage, ex in (("file_array", "one"), ("dict", "per-output")):
                    units.append((f"map-deferred-executor-deviations<={bound}", ("dfs", {"pipe": pipe, "mode": mode, "storage": storage, "exec": ex}, {"func": fname, "call": k, "exc": "ValueError"}, bound)))
            for exc in ("KeyError", "Custom"):
                units.append((f"map-deferred-executor-deviations<={bound}", ("dfs", {"pipe": pipe, "mode": "deferred-sync", "storage": "dict", "exec": "one"}, {"func": fname, "call": k, "exc": exc}, 0)))
    for fname, k in map_faults("two-maps-reduce"):
        if k == 1:
            units.append(("map-sequential-and-thread-pool", ("profile", {"pipe": "two-maps-reduce"}, {"func": fname, "call": 1, "exc": "ValueError"})))
    for which in ("uncopyable", "identity", "nested"):
        units.append(("map-sequential-and-thread-pool", ("special", which)))
    stages = ["N1", "N2", "N2-decorated", "N2-special-names"] if tier == "quick" else ["N1", "N2", "N2-decorated", "N2-special-names", "N3"]
    for st in stages:
        n = sum(1 for _ in c02.specs_for(st))
        nch = max(1, n // 40)
        for c in range(nch):
            units.append(("dag-" + st, ("dag", st, c, nch)))
    by = {}
    for st, u in units:
        by.setdefault(st, []).append((st, u))
    out = []
    for st, us in by.items():
        r = seed % len(us)
        out.extend(us[r:] + us[:r])
    return out


def run_unit(unit):
    acc = Acc()
    kind = unit[0]
    if kind == "profile":
        _, cfg, fault = unit
        acc.case(hash(("profile", str(cfg), str(fault))))
        acc.stratum("map-sequential-profile")
        for sig, text in profile_fault_case(cfg, fault):
            acc.violation(sig, {"kind": "profile", "cfg": cfg, "fault": fault}, text)
        return acc
    if kind == "special":
        acc.case(hash(("special", unit[1])), n=3)
        acc.stratum("special-arguments")
        for sig, text in (nested_snapshot_case() if unit[1] == "nested" else special_argument_cases(unit[1])):
            acc.violation(sig, {"kind": "special", "which": unit[1]}, text)
        return acc
    if kind == "map":
        _, cfg, fault, _ = unit
        acc.case(hash(str((cfg, fault))) if fault["call"] > 1 or fault["func"] != "f" else None)
        acc.stratum("mode-" + cfg["mode"])
        for sig, text in run_map_fault(cfg, fault):
            acc.violation(sig, {"kind": "map", "cfg": cfg, "fault": fault, "choices": None}, text)
    elif kind == "dfs":
        _, cfg, fault, bound = unit
        n = 0
        for ch, vs in explore.choice_dfs(lambda c: run_map_fault(cfg, fault, c), bound):
            n += 1
            for sig, text in vs:
                acc.violation(sig, {"kind": "map", "cfg": cfg, "fault": fault, "choices": ch.choices}, text + f" under schedule {ch.choices}")
        acc.case(hash(str((cfg, fault))), n=n)
        acc.stratum("mode-" + cfg["mode"], n)
        acc.stratum("schedules", n)
        if fault["call"] == 2:
            acc.sample({"cfg": cfg, "fault": fault, "deviation_bound": bound, "schedules": n})
    elif kind == "dag":
        _, st, c, nch = unit
        for k, spec in enumerate(c02.specs_for(st)):
            if k % nch != c:
                continue
            try:
                p0 = gen_dag.build(spec)
            except Exception:  # noqa: BLE001
                continue
            for out, kw, listed in c02.calls_for(spec, p0):
                if not listed:
                    continue
                try:
                    ref = gen_dag.ref_eval(spec, out, kw)
                except gen_dag.NotComputable:
                    continue
                if set(kw) - ref.used_kw:
                    continue
                for fidx in ref.ran:
                    for exc, entry in (("ValueError", "call"), ("KeyError", "run"), ("Custom", "func")):
                        acc.case(hash((gen_dag._key(spec), str(out), tuple(sorted(kw)), fidx, exc)) if len(ref.ran) > 1 else None)
                        acc.stratum("mode-dag-" + entry)
                        for sig, text in run_dag_fault(spec, out, kw, fidx, exc, entry):
                            acc.violation(sig, {"kind": "dag", "spec": spec, "out": out, "kw": kw, "fidx": fidx, "exc": exc, "entry": entry}, text)
                # histories of two failures on one pipeline object
                for i, j in itertools.permutations(ref.ran, 2):
                    acc.case(hash((gen_dag._key(spec), str(out), tuple(sorted(kw)), i, j, "two")))
                    acc.stratum("mode-dag-two-failures")
                    for sig, text in run_dag_two_faults(spec, out, kw, i, j):
                        acc.violation(sig, {"kind": "dag2", "spec": spec, "out": out, "kw": kw, "first": i, "second": j}, text)
    return acc


def replay(art):
    if art["kind"] == "special":
        return [s for s, _ in (nested_snapshot_case() if art["which"] == "nested" else special_argument_cases(art["which"]))]
    if art["kind"] == "profile":
        return [s for s, _ in profile_fault_case(art["cfg"], art["fault"])]
    if art["kind"] == "dag2":
        return [s for s, _ in run_dag_two_faults(art["spec"], art["out"], art["kw"], art["first"], art["second"])]
    if art["kind"] == "dag":
        return [s for s, _ in run_dag_fault(art["spec"], art["out"], art["kw"], art["fidx"], art["exc"], art["entry"])]
    ch = explore.Chooser(art["choices"]) if art.get("choices") is not None else None
    return [s for s, _ in run_map_fault(art["cfg"], art["fault"], ch)]
