"""C12 — ill-formed pipelines and inputs are rejected before any user code runs (DESIGN.md §5 C12).

Exhaustive product (valid case of G-DAG / G-MAP) x (single-fault operator) x (position) x (start state of the run
folder).  Every operator comes with a *reference validity argument written here, independent of pipefunc*
(duplicate in the multiset of output names, cycle in the dependency graph, rank / zip mismatch by a 20-line shape
inference, ...): a mutated case that the reference still finds well-formed is filtered (counted in notes), so
"pipefunc accepted it" is only ever reported for a case that is ill-formed in the class the statement names.

Oracle (exactly the statement): an exception is raised at construction or by run/map; terms.LOG is empty; a run
folder that holds a previous complete run and is opened with cleanup=False has the same file set and bytes."""
from __future__ import annotations

import contextlib
import copy
import hashlib
import io
import json
import os
import shutil
import warnings
from concurrent.futures import ThreadPoolExecutor

import numpy as np
from pipefunc import PipeFunc, Pipeline

from .. import boot, gen_dag, gen_map, terms
from ..acc import Acc

ID = "C12"
LEVEL = "fault_enumeration"
TECHNIQUE = ("exhaustive (valid case x single-fault operator x position x run-folder start state) product; each faulted case is confirmed "
             "ill-formed by a reference validity check independent of pipefunc; oracle = raises, empty call log, byte-identical run folder")
RULE = ("valid cases: G-DAG N<=2 (every base pipeline and every single decoration; thorough adds N=3 undecorated) and G-MAP (quick: all 1-function "
        "pipelines + the 2-function pipelines whose second function consumes only `a`; thorough: every 2-function pipeline). operators, each at "
        "every position: duplicate output name (every output -> every other output name, incl. the sibling inside a tuple), output named like each "
        "own parameter (also reached by renaming the parameter onto the output name), back edge closing a cycle / self loop, two different defaults for a shared root (signature/PipeFunc default, 4 "
        "combinations, each also with None as one of the two defaults), MapSpec naming a non-parameter (replace each input / add one), MapSpec missing an output, MapSpec output renamed / swapped "
        "(each given on the PipeFunc and as (PipeFunc, mapspec) to Pipeline), inconsistent axes in one consumer (rename / swap / rank-1 / rank+1 of "
        "each indexed array named by >= 2 MapSpecs), bound parameter in a MapSpec; Pipeline-level construction faults in both listing orders. "
        "run-time: dropped input (each root; run(): per requested output, parameters also listed in reverse order), surplus input (an unknown name, and the name of a function output), zipped axis "
        "resized +-1 (each root x axis; also with the resized root carrying a well-formed default), rank changed (list->2-D ndarray, scalar, 2-D ndarray->nested list / 1-D / 3-D), unknown storage (string, "
        "dict default, dict per output), executor with parallel=False (object, dict default, dict per output), fixed_indices (unknown axis, index = "
        "size on every root axis, every reduced axis); each run-time map fault x start state {no folder, folder holding a previous COMPLETE run "
        "opened with cleanup=False} (+ fresh folder for the storage operator). rich bound (thorough, all stages but the last): additionally "
        "PipeFunc-level faults in both listing orders, the fresh-folder start for every operator, index -size-1, surplus keyword with reversed "
        "parameters; the last thorough stage (2-function pipelines whose second function takes two arrays) uses the quick bound without the no-folder "
        "start. non-trivial = the reference validity check of this module confirms the faulted case ill-formed (cases it finds well-formed are "
        "filtered and counted in notes, never evaluated); distinct = distinct (generator, operator, sub-kind, API, start state, exception type, "
        "raising function, feature set of the pipeline)")
ASSUMPTIONS = ["reference validity checks in this module (output-name multiset, dependency-graph cycle over unbound edges, default table, "
               "MapSpec-vs-signature name sets, per-array axis table, shape inference with list=(len,) / ndarray=.shape, reduced-axis table)",
               "'unknown storage' = a name that is not in pipefunc.map.storage_registry; 'bogus' is used",
               "sequential execution (parallel=False), so the in-process call log sees every user-function invocation",
               "the valid base run of every case succeeds (C01/C02's business); a failing base run is counted in notes and its faults are skipped",
               "snapshot = relative path -> sha1 of bytes for files, plus the set of directories"]
BUDGET = {"quick": 100.0, "thorough": 900.0}

BOGUS = "bogus"
SURPLUS = "zz"
STARTS = ("none", "fresh", "prior")
# quick bound (also used for the last and largest stage of the thorough tier): faults raised by the PipeFunc constructor (before a Pipeline
# exists; incl. a duplicate inside one tuple and a self loop) are tried in the natural listing order only; the 'fresh folder' start state is
# used for the storage operator only (the only one whose detection point depends on it); the surplus keyword of run() is tried in the natural parameter order only; the out-of-range fixed index is `size`.
# rich bound (thorough, all other stages): both listing orders and all three start states for everything, index `-size-1` as well.
# lean bound (last stage of the thorough tier, the 28 822 remaining 2-function pipelines): the quick bound without the no-folder start (that
# start is covered for the same operators and code paths by all earlier stages)
RICH = False
LEAN = False
PIPEFUNC_LEVEL_OPS = ("out-own-param", "ms-non-parameter", "ms-missing-output", "ms-output-disagree", "bound-in-mapspec")


def _starts(op):
    if RICH or op == "storage-unknown":
        return STARTS
    return ("prior",) if LEAN else ("none", "prior")


# =================================================================================================
# small helpers
# =================================================================================================
@contextlib.contextmanager
def _quiet():
    with contextlib.redirect_stdout(io.StringIO()), warnings.catch_warnings():
        warnings.simplefilter("ignore")
        yield


def exc_site(e):
    """same value as findings.exc_site (innermost pipefunc frame as 'file.py:function') without loading source lines"""
    site = "?"
    tb = e.__traceback__
    while tb is not None:
        fn = tb.tb_frame.f_code.co_filename.replace("\\", "/")
        if "/pipefunc/" in fn and "/vmc/" not in fn:
            site = f"{fn.split('/pipefunc/')[-1]}:{tb.tb_frame.f_code.co_name}"
        tb = tb.tb_next
    return site


def snapshot(folder):
    snap = {}
    for root, dirs, files in os.walk(folder):
        for n in dirs:
            snap[os.path.relpath(os.path.join(root, n), folder) + "/"] = "dir"
        for n in files:
            p = os.path.join(root, n)
            with open(p, "rb") as fh:
                snap[os.path.relpath(p, folder)] = hashlib.sha1(fh.read()).hexdigest()  # noqa: S324
    return snap


def _role(rel):
    if rel.rstrip("/") in ("run_info.json", "run_info.json.tmp"):
        return rel.rstrip("/")
    head = rel.split("/", 1)[0]
    return head + "/*"


def snap_diff(a, b):
    keys = sorted(k for k in set(a) | set(b) if a.get(k) != b.get(k))
    return keys, ",".join(sorted({_role(k) for k in keys}))


# =================================================================================================
# G-DAG: reference facts
# =================================================================================================
def dag_all_outs(spec):
    return [o for f in spec["funcs"] for o in f["outs"]]


def dag_roots(spec):
    prod = set(dag_all_outs(spec))
    roots = []
    for f in spec["funcs"]:
        for p in f["params"]:
            if p not in prod and p not in f.get("bound", {}) and p not in roots:
                roots.append(p)
    return roots


def has_cycle(funcs):
    """cycle (incl. self loop) in the dependency graph: edge j -> i iff an unbound parameter of f_i is an output of f_j"""
    prod = {o: j for j, f in enumerate(funcs) for o in f["outs"]}
    edges = {i: {prod[p] for p in f["params"] if p in prod and p not in f.get("bound", {})} for i, f in enumerate(funcs)}
    state = {}

    def visit(i):
        if state.get(i) == 1:
            return True
        if state.get(i) == 2:
            return False
        state[i] = 1
        if any(visit(j) for j in edges[i]):
            return True
        state[i] = 2
        return False

    return any(visit(i) for i in edges)


def has_dup_output(funcs):
    names = [o for f in funcs for o in f["outs"]]
    return len(names) != len(set(names))


def has_out_own_param(funcs):
    return any(set(f["outs"]) & set(f["params"]) for f in funcs)


def has_default_conflict(funcs):
    prod = {o for f in funcs for o in f["outs"]}
    seen = {}
    for f in funcs:
        for p, v in {**f.get("sigdef", {}), **f.get("pfdef", {})}.items():
            if p in f.get("bound", {}) or p in prod or p not in f["params"]:
                continue
            if p in seen and seen[p] != v:
                return True
            seen.setdefault(p, v)
    return False


def _rename_out(f, k, new):
    old = f["outs"][k]
    f["outs"][k] = new
    if old in f.get("ren", {}) and new not in f["ren"]:
        f["ren"][new] = f["ren"].pop(old)


def _orders(n, op=None):
    if n == 1 or (op in PIPEFUNC_LEVEL_OPS and not RICH):
        return [None]
    return [[0, 1], [1, 0]] if n == 2 else [None, list(range(n - 1, -1, -1))]


# -------------------------------------------------------------------------------------------------
# construction faults shared by both generators (the spec formats agree on name/params/outs)
# -------------------------------------------------------------------------------------------------
def common_construct_faults(spec, gen):
    funcs = spec["funcs"]
    n = len(funcs)
    allouts = dag_all_outs(spec)
    prod = set(allouts)
    for i, f in enumerate(funcs):
        for k, o in enumerate(f["outs"]):
            for tgt in allouts:
                if tgt != o:
                    for order in _orders(n, "dup-output" if tgt not in f["outs"] else "out-own-param"):
                        yield "dup-output", {"i": i, "k": k, "to": tgt, "order": order}
            for p in f["params"]:
                for order in _orders(n, "out-own-param"):
                    yield "out-own-param", {"i": i, "k": k, "p": p, "order": order}
                    if gen == "dag" and p not in f.get("ren", {}) and p not in f.get("sigdef", {}) and p not in f.get("pfdef", {}):
                        # the same collision reached by RENAMING the parameter onto the output's name (renames={p: o})
                        yield "out-own-param", {"i": i, "k": k, "p": p, "order": order, "via": "rename"}
        for name in allouts:
            if name not in f["params"]:
                for order in _orders(n, "cycle" if name not in f["outs"] else "out-own-param"):
                    yield "cycle", {"i": i, "name": name, "order": order}
    shared = []
    for f in funcs:
        for p in f["params"]:
            if p not in prod and p not in shared:
                shared.append(p)
    for p in shared:
        users = [i for i, f in enumerate(funcs) if p in f["params"] and p not in f.get("bound", {})]
        for ai, a in enumerate(users):
            for b in users[ai + 1:]:
                for k0 in ("sigdef", "pfdef"):
                    for k1 in ("sigdef", "pfdef"):
                        for order in _orders(n, "defaults"):
                            yield "defaults", {"p": p, "a": a, "b": b, "k0": k0, "k1": k1, "order": order}
                            for none in ("a", "b"):  # one of the two defaults is None (a value, not "no default seen yet")
                                yield "defaults", {"p": p, "a": a, "b": b, "k0": k0, "k1": k1, "order": order, "none": none}
    del gen


def apply_common(spec, op, pos, gen):
    """-> (spec2, sub, pred, why) or None if the mutated case is still well-formed by the reference"""
    s = copy.deepcopy(spec)
    funcs = s["funcs"]
    dflt = (lambda tag: [tag + "0", tag + "1"]) if gen == "map" else (lambda tag: tag)
    if op == "dup-output":
        f = funcs[pos["i"]]
        within = pos["to"] in f["outs"]
        _rename_out(f, pos["k"], pos["to"])
        if not has_dup_output(funcs):
            return None
        return s, ("within-one-function" if within else "across-functions"), {"within_one_function": within}, f"two outputs named {pos['to']!r}"
    if op == "out-own-param" and pos.get("via") == "rename":
        f = funcs[pos["i"]]
        o = f["outs"][pos["k"]]
        if o in f["params"] or any(o in g["params"] for g in funcs if g is not f):
            return None
        f["params"] = [o if q == pos["p"] else q for q in f["params"]]
        if pos["p"] in f.get("bound", {}):
            f["bound"] = {(o if q == pos["p"] else q): v for q, v in f["bound"].items()}
        f["ren_param_to"] = {pos["p"]: o}
        if not has_out_own_param(funcs):
            return None
        return s, ("bound-param" if o in f.get("bound", {}) else "param") + "-by-rename", {}, f"{f['name']}: parameter {pos['p']!r} renamed onto its own output name {o!r}"
    if op == "out-own-param":
        f = funcs[pos["i"]]
        _rename_out(f, pos["k"], pos["p"])
        if not has_out_own_param(funcs):
            return None
        return s, ("bound-param" if pos["p"] in f.get("bound", {}) else "param"), {}, f"{f['name']} has output and parameter {pos['p']!r}"
    if op == "cycle":
        f = funcs[pos["i"]]
        f["params"] = [*f["params"], pos["name"]]
        if not has_cycle(funcs):
            return None
        selfloop = pos["name"] in f["outs"]
        return s, ("self-loop" if selfloop else "cycle"), {}, f"{f['name']} takes {pos['name']!r}, which depends on {f['name']}"
    if op == "defaults":
        p = pos["p"]
        for i, kind, tag in ((pos["a"], pos["k0"], "dA"), (pos["b"], pos["k1"], "dB")):
            f = funcs[i]
            for kk in ("sigdef", "pfdef"):
                if p in f.get(kk, {}):
                    del f[kk][p]
                    if not f[kk]:
                        del f[kk]
            f.setdefault(kind, {})[p] = None if pos.get("none") == tag[1].lower() else dflt(tag)
        if not has_default_conflict(funcs):
            return None
        return (s, f"{pos['k0']}/{pos['k1']}" + (f"+None-{pos['none']}" if pos.get("none") else ""), {},
                f"{p!r} has two different defaults" + (" (one of them None)" if pos.get("none") else ""))
    raise ValueError(op)


# =================================================================================================
# G-DAG: run-time faults
# =================================================================================================
def dag_runtime_faults(spec):
    roots = dag_roots(spec)
    full = {p: f"<{p}>" for p in roots}
    for rev in (False, True):
        # rev: the same pipeline with every function's parameters listed in reverse order (G-DAG lists roots before upstream outputs)
        if rev and not any(len(f["params"]) > 1 for f in spec["funcs"]):
            continue
        for out in gen_dag.all_outputs(spec):
            out_j = list(out) if isinstance(out, tuple) else out
            try:
                used = sorted(gen_dag.ref_eval(spec, out, full).used_kw)
            except gen_dag.NotComputable:  # pragma: no cover
                continue
            for p in used:
                yield "drop-input", {"api": "run", "out": out_j, "p": p, "rev": rev}
            if RICH or not rev:
                yield "surplus-input", {"api": "run", "out": out_j, "rev": rev}
    for p in roots:
        for start in _starts("drop-input"):
            yield "drop-input", {"api": "map", "p": p, "start": start}
    for start in _starts("surplus-input"):
        yield "surplus-input", {"api": "map", "start": start, "value": "scalar"}
        # a surplus input that carries the NAME OF A FUNCTION OUTPUT (no auto_subpipeline): the pipeline knows the name, but it is
        # no root argument - accepting it would silently feed the consumers the supplied value
        yield "surplus-input", {"api": "map", "start": start, "value": "scalar", "name": "first-output"}
    for form in _storage_forms(spec):
        for start in _starts("storage-unknown"):
            yield "storage-unknown", {"api": "map", "start": start, "form": form}
    for form in _executor_forms(spec):
        for start in _starts("executor-no-parallel"):
            yield "executor-no-parallel", {"api": "map", "start": start, "form": form}


def _storage_forms(spec):
    return ["str", "dict-default", *[f"dict-output:{i}" for i in range(len(spec["funcs"]))]]


def _executor_forms(spec):
    return ["object", "dict-default", *[f"dict-output:{i}" for i in range(len(spec["funcs"]))]]


def _out_key(fn):
    return fn["outs"][0] if len(fn["outs"]) == 1 else tuple(fn["outs"])


def _storage_arg(spec, form, good):
    if form == "str":
        return BOGUS
    if form == "dict-default":
        return {"": BOGUS}
    i = int(form.split(":")[1])
    return {_out_key(spec["funcs"][i]): BOGUS, "": good}


def _storage_needed(spec, form, gen):
    """does some output that the bogus name applies to need an array store (a MapSpec with inputs)?"""
    if gen == "dag":
        return False
    fns = spec["funcs"] if form in ("str", "dict-default") else [spec["funcs"][int(form.split(":")[1])]]
    return any(bool(fn["ms"]) for fn in fns)


def rev_spec(spec):
    s = copy.deepcopy(spec)
    for f in s["funcs"]:
        f["params"] = f["params"][::-1]
    return s


def apply_dag_runtime(spec, op, pos):
    """-> dict(call description) or None"""
    roots = dag_roots(spec)
    defaults = gen_dag.pipeline_defaults(spec)
    full = {p: f"<{p}>" for p in roots}
    if pos["api"] == "run":
        out = tuple(pos["out"]) if isinstance(pos["out"], list) else pos["out"]
        used = gen_dag.ref_eval(spec, out, full).used_kw
        kw = {p: full[p] for p in roots if p in used}
        if op == "drop-input":
            kw.pop(pos["p"])
            try:
                gen_dag.ref_eval(spec, out, kw)
            except gen_dag.NotComputable:
                return {"api": "run", "out": out, "kwargs": kw, "valid_kwargs": {p: full[p] for p in roots if p in used}, "rev": bool(pos.get("rev")),
                        "sub": "run", "pred": {"params_reversed": bool(pos.get("rev"))}, "why": f"{pos['p']!r} is needed for {out!r} and has no default"}
            return None
        kw[SURPLUS] = "<zz>"
        return {"api": "run", "out": out, "kwargs": kw, "valid_kwargs": {p: full[p] for p in roots if p in used}, "rev": bool(pos.get("rev")),
                "sub": "run", "pred": {"params_reversed": bool(pos.get("rev"))}, "why": f"{SURPLUS!r} is no parameter or output of the pipeline"}
    inputs = dict(full)
    call = {"api": "map", "inputs": inputs, "map_kw": {}, "sub": "map", "pred": {}, "start": pos["start"]}
    if op == "drop-input":
        if pos["p"] in defaults:
            return None
        inputs.pop(pos["p"])
        call["why"] = f"root {pos['p']!r} has no default and is not given"
    elif op == "surplus-input":
        if pos.get("name") == "first-output":
            o = spec["funcs"][0]["outs"][0]
            inputs[o] = "<zz>"
            call["why"] = f"{o!r} is an output of the pipeline, not a root argument (no auto_subpipeline)"
            call["pred"] = {"surplus_name": "output"}
        else:
            inputs[SURPLUS] = "<zz>"
            call["why"] = f"{SURPLUS!r} is no root of the pipeline"
    elif op == "storage-unknown":
        call["map_kw"]["storage"] = pos["form"]
        call["sub"] = pos["form"].split(":")[0]
        call["pred"] = {"storage_needed": False}
        call["why"] = f"storage name {BOGUS!r} is not registered"
    elif op == "executor-no-parallel":
        call["map_kw"]["executor"] = pos["form"]
        call["sub"] = pos["form"].split(":")[0]
        call["why"] = "executor= together with parallel=False"
    else:
        raise ValueError(op)
    return call


# =================================================================================================
# G-MAP: reference facts
# =================================================================================================
def ms_string(fn):
    if "ms_str" in fn:
        return fn["ms_str"]
    return gen_map.spec_str(fn)


def _ins_str(fn):
    return ", ".join(f"{p}[{', '.join(a or ':' for a in axes)}]" for p, axes in fn["ms"].items()) or "..."


def _outs_str(fn, names):
    return ", ".join(f"{o}[{', '.join(fn['out_axes'])}]" for o in names)


def axis_table(spec):
    """array -> list of (function index, role, axes list) over all MapSpecs of the (possibly mutated) spec structure"""
    tab = {}
    for i, fn in enumerate(spec["funcs"]):
        if fn["ms"] is None:
            continue
        for p, axes in fn["ms"].items():
            tab.setdefault(p, []).append((i, "in", list(axes)))
        for o in fn["outs"]:
            tab.setdefault(o, []).append((i, "out", list(fn["out_axes"])))
    return tab


def axes_conflict(spec):
    """some array is given two ranks, or two different names for the same axis position, by different MapSpecs"""
    for name, uses in axis_table(spec).items():
        if len({len(a) for _, _, a in uses}) > 1:
            return f"{name!r} has ranks {sorted({len(a) for _, _, a in uses})}"
        for d in range(len(uses[0][2])):
            names = {a[d] for _, _, a in uses if a[d] is not None}
            if len(names) > 1:
                return f"axis {d} of {name!r} is called {sorted(names)}"
    return None


def ms_internally_valid(fn):
    named = [a for axes in fn["ms"].values() for a in axes if a is not None]
    return set(named) <= set(fn["out_axes"]) and len(set(fn["out_axes"])) == len(fn["out_axes"]) and bool(fn["out_axes"])


def named_axes(spec):
    """array -> axis names by position (None where no MapSpec names the position); only arrays named in a MapSpec"""
    out = {}
    for name, uses in axis_table(spec).items():
        rank = len(uses[0][2])
        out[name] = [next((a[d] for _, _, a in uses if a[d] is not None), None) for d in range(rank)]
    return out


def reduced_axes(spec):
    na = named_axes(spec)
    red = set()
    for fn in spec["funcs"]:
        for p in fn["params"]:
            if p not in na:
                continue
            if not fn["ms"] or p not in fn["ms"]:
                red |= {a for a in na[p] if a}
            else:
                red |= {na[p][d] for d, a in enumerate(fn["ms"][p]) if a is None and na[p][d]}
    return red


def value_shape(v):
    if isinstance(v, np.ndarray):
        return tuple(v.shape)
    if isinstance(v, (list, range)):
        return (len(v),)
    return None


def ref_input_check(spec, inputs):
    """None = inputs conform to the MapSpecs; else 'missing' / 'surplus' / 'rank' / 'zip' (first fault found)"""
    need = set(spec["roots"])
    if need - set(inputs):
        return "missing"
    if set(inputs) - need:
        return "surplus"
    sizes = spec["sizes"]
    shapes = {}
    for fn in spec["funcs"]:
        if not fn["ms"]:
            for o in fn["outs"]:
                shapes[o] = tuple(sizes[a] for a in fn["internal"])
            continue
        size = {}
        for p, axes in fn["ms"].items():
            sh = shapes[p] if p in shapes else value_shape(inputs[p])
            if sh is None or len(sh) != len(axes):
                return "rank"
            for d, a in enumerate(axes):
                if a is not None:
                    if a in size and size[a] != sh[d]:
                        return "zip"
                    size[a] = sh[d]
        for o in fn["outs"]:
            shapes[o] = tuple(size[a] if a in size else sizes[a] for a in fn["out_axes"])
    return None


# -------------------------------------------------------------------------------------------------
# G-MAP: construction faults
# -------------------------------------------------------------------------------------------------
VIAS = ("pipefunc", "pipeline")


def map_construct_faults(spec):
    yield from common_construct_faults(spec, "map")
    tab = axis_table(spec)
    n = len(spec["funcs"])
    for i, fn in enumerate(spec["funcs"]):
        if fn["ms"] is None:
            continue
        for order in _orders(n, "ms-non-parameter"):
            for via in VIAS:
                for p in fn["ms"]:
                    yield "ms-non-parameter", {"i": i, "how": "replace", "p": p, "via": via, "order": order}
                yield "ms-non-parameter", {"i": i, "how": "add", "via": via, "order": order}
                if len(fn["outs"]) > 1:
                    for k in range(len(fn["outs"])):
                        yield "ms-missing-output", {"i": i, "k": k, "via": via, "order": order}
                    yield "ms-output-disagree", {"i": i, "how": "swap", "via": via, "order": order}
                for k in range(len(fn["outs"])):
                    yield "ms-output-disagree", {"i": i, "how": "rename", "k": k, "via": via, "order": order}
            for p in fn["ms"]:
                yield "bound-in-mapspec", {"i": i, "p": p, "order": order}
        for order in _orders(n, "axes-inconsistent"):
            for p, axes in fn["ms"].items():
                if len(tab[p]) < 2:
                    continue
                for d, a in enumerate(axes):
                    if a is not None:
                        yield "axes-inconsistent", {"i": i, "p": p, "how": "rename", "d": d, "order": order}
                    if len(axes) >= 2:
                        yield "axes-inconsistent", {"i": i, "p": p, "how": "rank-drop", "d": d, "order": order}
                if len(axes) == 2:
                    yield "axes-inconsistent", {"i": i, "p": p, "how": "swap", "order": order}
                yield "axes-inconsistent", {"i": i, "p": p, "how": "rank-add", "order": order}


def apply_map_construct(spec, op, pos):
    if op in ("dup-output", "out-own-param", "cycle", "defaults"):
        return apply_common(spec, op, pos, "map")
    s = copy.deepcopy(spec)
    fn = s["funcs"][pos["i"]]
    if op == "ms-non-parameter":
        if pos["how"] == "replace":
            fn["ms"] = {("q" if p == pos["p"] else p): axes for p, axes in fn["ms"].items()}
        else:
            fn["ms"] = {**fn["ms"], "q": [fn["out_axes"][0]]}
        if set(fn["ms"]) <= set(fn["params"]):
            return None
        fn["ms_via"] = pos["via"]
        return s, f"{pos['how']}/{pos['via']}", {}, f"MapSpec {ms_string(fn)!r} names 'q', {fn['name']} takes {fn['params']}"
    if op == "ms-missing-output":
        keep = [o for k, o in enumerate(fn["outs"]) if k != pos["k"]]
        fn["ms_str"] = f"{_ins_str(fn)} -> {_outs_str(fn, keep)}"
        fn["ms_via"] = pos["via"]
        return s, pos["via"], {}, f"MapSpec {fn['ms_str']!r} misses an output of {fn['outs']}"
    if op == "ms-output-disagree":
        names = list(fn["outs"])
        if pos["how"] == "swap":
            names.reverse()
        else:
            names[pos["k"]] = "q"
        if names == fn["outs"]:
            return None
        fn["ms_str"] = f"{_ins_str(fn)} -> {_outs_str(fn, names)}"
        fn["ms_via"] = pos["via"]
        return s, f"{pos['how']}/{pos['via']}", {}, f"MapSpec {fn['ms_str']!r} vs output_name {fn['outs']}"
    if op == "bound-in-mapspec":
        fn["bound"] = {pos["p"]: ["b0", "b1"]}
        return s, ("root" if pos["p"] in spec["roots"] else "upstream"), {}, f"{pos['p']!r} is bound and indexed in {ms_string(fn)!r}"
    if op == "axes-inconsistent":
        p, how = pos["p"], pos["how"]
        axes = list(fn["ms"][p])
        if how == "rename":
            old = axes[pos["d"]]
            ren = lambda a: "e" if a == old else a  # noqa: E731
            fn["ms"] = {q: [ren(a) for a in ax] for q, ax in fn["ms"].items()}
            fn["out_axes"] = [ren(a) for a in fn["out_axes"]]
            fn["internal"] = [ren(a) for a in fn["internal"]]
        elif how == "swap":
            fn["ms"][p] = axes[::-1]
        elif how == "rank-drop":
            fn["ms"][p] = [a for d, a in enumerate(axes) if d != pos["d"]]
        elif how == "rank-add":
            fn["ms"][p] = [*axes, None]
        if not ms_internally_valid(fn):
            return None
        why = axes_conflict(s)
        if why is None:
            return None
        return s, how, {}, why
    raise ValueError(op)


# -------------------------------------------------------------------------------------------------
# G-MAP: run-time faults
# -------------------------------------------------------------------------------------------------
def map_runtime_faults(spec):
    inputs = gen_map.make_inputs(spec)
    na = named_axes(spec)
    red = sorted(reduced_axes(spec))

    def each(op, pos):
        for start in _starts(op):
            yield op, {**pos, "start": start}

    for p in spec["roots"]:
        yield from each("drop-input", {"p": p})
    for value in ("scalar", "list"):
        yield from each("surplus-input", {"value": value})
    yield from each("surplus-input", {"value": "list", "name": "first-output"})
    for r, axes in spec["roots"].items():
        for d in range(len(axes)):
            for delta in (1, -1):
                yield from each("zip-resize", {"r": r, "d": d, "delta": delta})
        if len(axes) == 1:
            for to in ("2d", "scalar"):
                yield from each("rank-change", {"r": r, "to": to})
        elif len(axes) == 2:
            for to in ("nested-list", "1d", "3d"):
                yield from each("rank-change", {"r": r, "to": to})
    # the same two faults on a root that ALSO has a (well-formed) default: the supplied value is what must be checked
    for r, axes in spec["roots"].items():
        for d in range(len(axes)):
            for delta in (1, -1):
                yield "zip-resize", {"r": r, "d": d, "delta": delta, "dflt": True, "start": "none"}
        if len(axes) in (1, 2):
            yield "rank-change", {"r": r, "to": "2d" if len(axes) == 1 else "1d", "dflt": True, "start": "none"}
    for form in _storage_forms(spec):
        yield from each("storage-unknown", {"form": form})
    for form in _executor_forms(spec):
        yield from each("executor-no-parallel", {"form": form})
    yield from each("fixed-indices", {"how": "unknown-axis"})
    seen = set()
    for r in spec["roots"]:
        if r in na:
            sh = value_shape(inputs[r])
            for d, a in enumerate(na[r]):
                if a and (a, sh[d]) not in seen:
                    seen.add((a, sh[d]))
                    for idx in ((sh[d], -sh[d] - 1) if RICH else (sh[d],)):
                        yield from each("fixed-indices", {"how": "out-of-range", "axis": a, "index": idx})
    for a in red:
        yield from each("fixed-indices", {"how": "reduced-axis", "axis": a})


def _resize(v, d, delta):
    if isinstance(v, list):
        return [*v, v[0] + "+"] if delta > 0 else v[:-1]
    if delta > 0:
        return np.concatenate([v, np.take(v, [0], axis=d)], axis=d)
    return np.take(v, list(range(v.shape[d] - 1)), axis=d)


def apply_map_runtime(spec, op, pos):
    inputs = gen_map.make_inputs(spec)
    call = {"api": "map", "inputs": inputs, "map_kw": {}, "sub": op, "pred": {}, "start": pos["start"]}
    want = None
    if op == "drop-input":
        inputs.pop(pos["p"])
        want, call["sub"], call["why"] = "missing", "map", f"root {pos['p']!r} is not given"
    elif op == "surplus-input":
        if pos.get("name") == "first-output":
            o = spec["funcs"][0]["outs"][0]
            inputs[o] = ["zz0", "zz1"]
            want, call["sub"], call["why"] = "surplus", "output-name", f"{o!r} is an output of the pipeline, not a root argument (no auto_subpipeline)"
        else:
            inputs[SURPLUS] = "<zz>" if pos["value"] == "scalar" else ["zz0", "zz1"]
            want, call["sub"], call["why"] = "surplus", pos["value"], f"{SURPLUS!r} is no root of the pipeline"
    elif op == "zip-resize":
        inputs[pos["r"]] = _resize(inputs[pos["r"]], pos["d"], pos["delta"])
        want, call["sub"] = "zip", ("grow" if pos["delta"] > 0 else "shrink")
        call["why"] = f"{pos['r']!r} resized along axis {pos['d']} while the arrays zipped with it keep their length"
    elif op == "rank-change":
        v = inputs[pos["r"]]
        if pos["to"] == "2d":
            arr = np.empty((len(v), 2), dtype=object)
            for i, e in enumerate(v):
                arr[i, 0], arr[i, 1] = e, e + "'"
            v = arr
        elif pos["to"] == "scalar":
            v = f"<{pos['r']}>"
        elif pos["to"] == "nested-list":
            v = v.tolist()
        elif pos["to"] == "1d":
            v = v.reshape(-1)
        elif pos["to"] == "3d":
            v = v.reshape((*v.shape, 1))
        inputs[pos["r"]] = v
        want, call["sub"] = "rank", pos["to"]
        call["why"] = f"{pos['r']!r} given with shape {value_shape(v)} but indexed as {spec['roots'][pos['r']]}"
    elif op == "storage-unknown":
        call["map_kw"]["storage"] = pos["form"]
        call["sub"] = pos["form"].split(":")[0]
        call["pred"] = {"storage_needed": _storage_needed(spec, pos["form"], "map")}
        call["why"] = f"storage name {BOGUS!r} is not registered"
    elif op == "executor-no-parallel":
        call["map_kw"]["executor"] = pos["form"]
        call["sub"] = pos["form"].split(":")[0]
        call["why"] = "executor= together with parallel=False"
    elif op == "fixed-indices":
        call["sub"] = pos["how"]
        if pos["how"] == "unknown-axis":
            call["map_kw"]["fixed_indices"] = {SURPLUS: 0}
            if any(SURPLUS in (ax or []) for ax in named_axes(spec).values()):
                return None
            call["why"] = f"no MapSpec has an axis {SURPLUS!r}"
        elif pos["how"] == "out-of-range":
            call["map_kw"]["fixed_indices"] = {pos["axis"]: pos["index"]}
            na = named_axes(spec)
            ok = any(r in na and any(a == pos["axis"] and not (-value_shape(inputs[r])[d] <= pos["index"] < value_shape(inputs[r])[d])
                                     for d, a in enumerate(na[r])) for r in spec["roots"])
            if not ok:
                return None
            call["why"] = f"index {pos['index']} is outside axis {pos['axis']!r} of a root array"
        else:
            if pos["axis"] not in reduced_axes(spec):
                return None
            call["map_kw"]["fixed_indices"] = {pos["axis"]: 0}
            call["why"] = f"axis {pos['axis']!r} is reduced by a consumer"
    else:
        raise ValueError(op)
    if want is not None and ref_input_check(spec, inputs) != want:
        return None
    if pos.get("dflt"):
        call["with_default"] = pos["r"]
        call["sub"] += "+root-has-default"
        call["why"] += f"; {pos['r']!r} also has a well-formed default, which must not replace the supplied value in the check"
    return call


# =================================================================================================
# building the real objects
# =================================================================================================
def map_funcs(spec):
    pfs = []
    for fn in spec["funcs"]:
        ishape = tuple(spec["sizes"][a] for a in fn["internal"] if a in spec["sizes"])
        body = terms.make_function(fn["name"], list(fn["params"]), len(fn["outs"]), ishape, sig_defaults=fn.get("sigdef"))
        kw = {}
        if fn["internal"] and fn.get("ishape_via", "map") == "pipefunc":
            kw["internal_shape"] = ishape
        if fn.get("pfdef"):
            kw["defaults"] = copy.deepcopy(fn["pfdef"])
        if fn.get("bound"):
            kw["bound"] = copy.deepcopy(fn["bound"])
        ms = ms_string(fn)
        if fn.get("ms_via") == "pipeline":
            pfs.append((PipeFunc(body, _out_key(fn), **kw), ms))
        else:
            pfs.append(PipeFunc(body, _out_key(fn), mapspec=ms, **kw))
    return pfs


def construct(gen, spec, order=None):
    with _quiet():
        funcs = gen_dag.build_funcs(spec) if gen == "dag" else map_funcs(spec)
        if order is not None:
            funcs = [funcs[i] for i in order]
        return Pipeline(funcs)


def valid_inputs(gen, spec):
    if gen == "dag":
        return {p: f"<{p}>" for p in dag_roots(spec)}
    return gen_map.make_inputs(spec)


def _ishapes(gen, spec):
    return None if gen == "dag" else gen_map.internal_shapes_arg(spec)


class Ctx:
    """per valid case: the run folder holding a previous complete run (+ its snapshot), shared by the run-time faults of the case
    as long as it is unaltered; rebuilt after any fault that altered it or was accepted"""

    def __init__(self, gen, spec):
        self.gen, self.spec = gen, spec
        self.folder = None
        self.snap = None
        self.base_error = None
        self.scratch = []
        self.run_ok = {}
        self.pipes = {}

    def pipeline(self, rev=False):
        """the valid pipeline, shared by the run-time faults of the case (they must not alter it; dropped after any violation)"""
        if rev not in self.pipes:
            self.pipes[rev] = construct(self.gen, rev_spec(self.spec) if rev else self.spec)
        return self.pipes[rev]

    def prior(self):
        if self.folder is None and self.base_error is None:
            folder = boot.mkscratch("c12-")
            self.scratch.append(folder)
            try:
                p = construct(self.gen, self.spec)
                with _quiet():
                    p.map(valid_inputs(self.gen, self.spec), run_folder=folder, internal_shapes=_ishapes(self.gen, self.spec),
                          parallel=False, storage="file_array")
            except Exception as e:  # noqa: BLE001
                self.base_error = f"{type(e).__name__}: {str(e)[:100]}"
                return None
            self.folder, self.snap = folder, snapshot(folder)
        return self.folder

    def invalidate(self, folder=True):
        if folder:
            self.folder = self.snap = None
        self.pipes = {}

    def fresh(self):
        d = boot.mkscratch("c12-")
        self.scratch.append(d)
        return os.path.join(d, "run")

    def base_run(self, out, kwargs, rev):
        key = json.dumps([out, sorted(kwargs), rev], default=str)
        if key not in self.run_ok:
            try:
                p = self.pipeline(rev)
                with _quiet():
                    p.run(out, kwargs=dict(kwargs))
                self.run_ok[key] = None
            except Exception as e:  # noqa: BLE001
                self.run_ok[key] = f"{type(e).__name__}: {str(e)[:100]}"
        return self.run_ok[key]

    def close(self):
        for d in self.scratch:
            shutil.rmtree(d, ignore_errors=True)
        self.scratch = []
        self.folder = self.snap = None


# =================================================================================================
# one case
# =================================================================================================
CONSTRUCT_OPS = ("dup-output", "out-own-param", "cycle", "defaults", "ms-non-parameter", "ms-missing-output", "ms-output-disagree",
                 "bound-in-mapspec", "axes-inconsistent")


def _describe(gen, spec):
    if gen == "dag":
        return "; ".join(f"{f['name']}({','.join(f['params'])})->{','.join(f['outs'])}"
                         + "".join(f" {k}={f[k]}" for k in ("sigdef", "pfdef", "bound", "ren") if f.get(k)) for f in spec["funcs"])
    return "; ".join(f"{f['name']}({','.join(f['params'])})->{','.join(f['outs'])} [{ms_string(f)}]"
                     + "".join(f" {k}={f[k]}" for k in ("sigdef", "pfdef", "bound") if f.get(k)) for f in spec["funcs"])


def execute(case, ctx=None):  # noqa: C901, PLR0912, PLR0915
    """-> (violations [(sig, text)], info dict(status, op, sub, exc, site, ...))"""
    gen, spec, op, pos = case["gen"], case["spec"], case["op"], case["pos"]
    own = ctx is None
    if own:
        ctx = Ctx(gen, spec)
    try:
        base = {"op": op}
        if op in CONSTRUCT_OPS:
            m = apply_common(spec, op, pos, gen) if gen == "dag" else apply_map_construct(spec, op, pos)
            if m is None:
                return [], {"status": "filtered"}
            spec2, sub, pred, why = m
            base.update(sub=sub, api="construct", start="-", **pred)
            terms.LOG.clear()
            try:
                construct(gen, spec2, pos.get("order"))
            except Exception as e:  # noqa: BLE001
                info = {"status": "raised", "sub": sub, "api": "construct", "start": "-", "exc": type(e).__name__, "site": exc_site(e)}
                if terms.LOG:
                    return [({**base, "kind": "user-code-ran", "exc": info["exc"], "site": info["site"]},
                             f"{op}: user code ran during construction of {_describe(gen, spec2)}")], info
                return [], info
            return [({**base, "kind": "accepted-invalid"},
                     f"{op}/{sub}: Pipeline(...) accepted an ill-formed pipeline ({why}): {_describe(gen, spec2)}"
                     f"{' listed ' + str(pos['order']) if pos.get('order') else ''}")], {"status": "accepted", "sub": sub, "api": "construct", "start": "-"}

        call = apply_dag_runtime(spec, op, pos) if gen == "dag" else apply_map_runtime(spec, op, pos)
        if call is None:
            return [], {"status": "filtered"}
        api, sub, start = call["api"], call["sub"], call.get("start", "-")
        base.update(sub=sub, api=api, start=start, **call["pred"])
        info = {"sub": sub, "api": api, "start": start}
        executors = []
        folder = None
        if api == "run":
            err = ctx.base_run(call["out"], call["valid_kwargs"], call["rev"])
            if err:
                return [], {"status": "base-failed", "error": err}
        elif start == "prior":
            folder = ctx.prior()
            if folder is None:
                return [], {"status": "base-failed", "error": ctx.base_error}
        elif start == "fresh":
            folder = ctx.fresh()
        try:
            p = ctx.pipeline(bool(call.get("rev")))
        except Exception as e:  # noqa: BLE001
            return [], {"status": "base-failed", "error": f"{type(e).__name__}: {str(e)[:100]}"}
        if call.get("with_default"):
            try:
                p = construct(gen, spec)  # a private pipeline: its defaults are changed
                with _quiet():
                    p.update_defaults({call["with_default"]: valid_inputs(gen, spec)[call["with_default"]]})
            except Exception as e:  # noqa: BLE001
                return [], {"status": "base-failed", "error": f"{type(e).__name__}: {str(e)[:100]}"}
        kw = {}
        if api == "map":
            good = "dict" if start == "none" else "file_array"
            kw = {"run_folder": folder, "internal_shapes": _ishapes(gen, spec), "parallel": False, "storage": good}
            if start == "prior":
                kw["cleanup"] = False
            mk = call["map_kw"]
            if "storage" in mk:
                kw["storage"] = _storage_arg(spec, mk["storage"], good)
            if "executor" in mk:
                ex = ThreadPoolExecutor(max_workers=1)
                executors.append(ex)
                form = mk["executor"]
                kw["executor"] = ex if form == "object" else ({"": ex} if form == "dict-default" else
                                                              {_out_key(spec["funcs"][int(form.split(":")[1])]): ex, "": ex})
            if "fixed_indices" in mk:
                kw["fixed_indices"] = dict(mk["fixed_indices"])
        terms.LOG.clear()
        exc = None
        try:
            with _quiet():
                if api == "run":
                    p.run(call["out"], kwargs=dict(call["kwargs"]))
                else:
                    p.map(dict(call["inputs"]), **kw)
        except Exception as e:  # noqa: BLE001
            exc = e
        finally:
            for ex in executors:
                ex.shutdown(wait=True)
        log = list(terms.LOG)
        what = (f"run({call['out']!r}, kwargs={sorted(call['kwargs'])})" if api == "run" else
                f"map(inputs={ {k: value_shape(v) or v for k, v in call['inputs'].items()} }, "
                + ", ".join(f"{k}={v!r}" for k, v in kw.items() if k in ("storage", "fixed_indices", "cleanup", "parallel") or (k == "executor"))
                + f") [{start} folder]")
        out = []
        if exc is None:
            ctx.invalidate(folder=start == "prior")
            info["status"] = "accepted"
            out.append(({**base, "kind": "accepted-invalid"},
                        f"{op}/{sub}: {what} returned normally although {call['why']}; {len(log)} user-function calls; pipeline {_describe(gen, spec)}"))
            return out, info
        info.update(status="raised", exc=type(exc).__name__, site=exc_site(exc))
        if log:
            ctx.invalidate(folder=start == "prior")
            out.append(({**base, "kind": "user-code-ran", "exc": info["exc"], "site": info["site"]},
                        f"{op}/{sub}: {what} raised {info['exc']} ({str(exc)[:80]}) only after {len(log)} user-function call(s) "
                        f"{[n for n, _ in log]} ({call['why']}); pipeline {_describe(gen, rev_spec(spec) if call.get('rev') else spec)}"))
        if start == "prior":
            after = snapshot(folder)
            if after != ctx.snap:
                keys, roles = snap_diff(ctx.snap, after)
                ctx.invalidate()
                out.append(({**base, "kind": "folder-altered", "exc": info["exc"], "site": info["site"], "changed": roles},
                            f"{op}/{sub}: {what} raised {info['exc']} ({str(exc)[:80]}) but the run folder of the previous complete run was "
                            f"altered: {keys[:6]}; pipeline {_describe(gen, spec)}"))
        return out, info
    finally:
        if own:
            ctx.close()


def run_case(case):
    return execute(case)[0]


def replay(art):
    return [s for s, _ in run_case(art)]


# =================================================================================================
# enumeration, plan, units
# =================================================================================================
def dag_specs(ns, decorated=True):
    for n in ns:
        for s in gen_dag.base_specs(n):
            yield s
            if decorated:
                yield from gen_dag.decorations(s)


def specs_for(stage):
    if stage == "dag-N1":
        return ("dag", dag_specs([1]))
    if stage == "dag-N2":
        return ("dag", dag_specs([2]))
    if stage == "dag-N3-undecorated":
        return ("dag", dag_specs([3], decorated=False))
    if stage == "map-1-function":
        return ("map", gen_map.pipelines(1, "quick"))
    if stage == "map-2-functions-g(a)":
        return ("map", (s for s in gen_map.pipelines(2, "quick") if len(s["funcs"]) == 2 and len(s["funcs"][1]["params"]) == 1))
    if stage == "map-2-functions-rest":
        return ("map", (s for s in gen_map.pipelines(2, "quick") if len(s["funcs"]) == 2 and len(s["funcs"][1]["params"]) != 1))
    raise ValueError(stage)


STAGES = {"quick": ["dag-N1", "dag-N2", "map-1-function", "map-2-functions-g(a)"],
          "thorough": ["dag-N1", "dag-N2", "map-1-function", "map-2-functions-g(a)", "dag-N3-undecorated", "map-2-functions-rest"]}
NCHUNK = {"dag-N1": 4, "dag-N2": 60, "dag-N3-undecorated": 200, "map-1-function": 32, "map-2-functions-g(a)": 128, "map-2-functions-rest": 1600}


_SPECS: dict = {}  # stage -> (gen, [specs]); filled by plan() in the parent, inherited by the forked workers


def stage_specs(stage):
    if stage not in _SPECS:
        gen, it = specs_for(stage)
        _SPECS[stage] = (gen, list(it))
    return _SPECS[stage]


def plan(tier, seed):
    out = []
    for st in STAGES[tier]:
        stage_specs(st)
        n = NCHUNK[st]
        mode = "quick" if tier == "quick" else ("lean" if st == "map-2-functions-rest" else "rich")
        us = [(st, (st, mode, c, n)) for c in range(n)]
        r = seed % n
        out.extend(us[r:] + us[:r])
    return out


def faults_of(gen, spec):
    if gen == "dag":
        yield from common_construct_faults(spec, "dag")
        yield from dag_runtime_faults(spec)
    else:
        yield from map_construct_faults(spec)
        yield from map_runtime_faults(spec)


def run_spec(gen, spec, acc, sample=False):
    feats = ",".join(sorted(gen_dag.features(spec) if gen == "dag" else gen_map.features(spec)))
    ctx = Ctx(gen, spec)
    try:
        acc.stratum(f"valid-cases-{gen}")
        for op, pos in faults_of(gen, spec):
            case = {"gen": gen, "spec": spec, "op": op, "pos": pos}
            viols, info = execute(case, ctx)
            st = info["status"]
            if st == "filtered":
                acc.notes[f"filtered-still-well-formed:{gen}:{op}"] += 1
                continue
            if st == "base-failed":
                acc.notes[f"base-run-failed:{gen}:{info['error'][:60]}"] += 1
                continue
            site = info.get("site", "-")
            exc = info.get("exc", "-")
            acc.case(f"{gen}|{op}|{info['sub']}|{info['api']}|{info['start']}|{exc}|{site}|{feats}")
            acc.stratum(f"op:{op}")
            acc.stratum(f"op:{op}/{info['sub']}")
            if info["start"] != "-":
                acc.stratum(f"start:{info['start']}")
            acc.stratum(f"api:{info['api']}")
            acc.outcome(f"{op}|{st}|{exc}|{site}")
            for sig, text in viols:
                acc.violation(sig, case, text)
            if sample and st == "raised" and len(acc.samples) < 2 and op not in {s["op"] for s in acc.samples}:
                acc.sample({"gen": gen, "pipeline": _describe(gen, spec), "op": op, "pos": pos, "raised": exc, "site": site})
    finally:
        ctx.close()


def run_unit(unit):
    global RICH, LEAN  # noqa: PLW0603
    st, mode, c, n = unit
    RICH, LEAN = mode == "rich", mode == "lean"
    acc = Acc()
    gen, specs = stage_specs(st)
    for k, spec in enumerate(specs):
        if k % n == c:
            run_spec(gen, spec, acc, sample=(k // n) % 7 == 3)
    return acc


# =================================================================================================
# ill-formed states reached AFTER construction (a member function mutated, a rejected add, a rename that collides, an
# unknown storage name hidden behind a valid one): the same oracle — an exception before any user code, folder untouched
# =================================================================================================
import shutil as _shutil  # noqa: E402

POST_CASES = [
    {"post": "member-update-defaults", "via": "map"}, {"post": "member-update-defaults", "via": "map-prior-folder"},
    {"post": "member-update-defaults", "via": "run"},
    {"post": "member-unbind", "via": "map"}, {"post": "member-unbind", "via": "run"},
    {"post": "rejected-add-then-use", "via": "map"}, {"post": "rejected-add-then-use", "via": "run"},
    {"post": "rename-output-to-duplicate", "via": "map"}, {"post": "rename-output-to-duplicate", "via": "run"},
    {"post": "scope-output-to-duplicate", "via": "run"},
    {"post": "member-bind-then-surplus", "via": "map"}, {"post": "member-bind-then-surplus", "via": "map-prior-folder"},
    {"post": "rename-output-to-tuple-member", "via": "map"}, {"post": "rename-output-to-tuple-member", "via": "run"},
    {"post": "storage-unknown-after-valid-entry", "via": "map"}, {"post": "storage-unknown-after-valid-entry", "via": "map-prior-folder"},
]


def _post_pipeline(mapped, tuple_k=False):
    from pipefunc import PipeFunc, Pipeline
    f = terms.make_function("f", ["x", "b"], sig_defaults={"b": 1})
    g = terms.make_function("g", ["y", "b"], sig_defaults={"b": 1})
    h = terms.make_function("k", ["x"], 2 if tuple_k else 1)
    kout = ("w", "v") if tuple_k else "w"  # tuple_k: the third function has TWO outputs
    if mapped:
        fs = [PipeFunc(f, "y", mapspec="x[i] -> y[i]"), PipeFunc(g, "z", mapspec="y[i] -> z[i]"),
              PipeFunc(h, kout, mapspec="x[i] -> w[i], v[i]" if tuple_k else "x[i] -> w[i]")]
    else:
        fs = [PipeFunc(f, "y"), PipeFunc(g, "z"), PipeFunc(h, kout)]
    with _quiet():
        return Pipeline(fs)


def run_post(case):  # noqa: C901, PLR0912
    from pipefunc import PipeFunc
    kind, via = case["post"], case["via"]
    mapped = via.startswith("map")
    p = _post_pipeline(mapped, tuple_k=kind == "rename-output-to-tuple-member")
    inputs = {"x": ["x0", "x1"]} if mapped else {"x": "x0"}
    base = boot.mkscratch("c12p-")
    folder = os.path.join(base, "run")
    raised_at = None
    storage = "file_array"
    try:
        if via == "map-prior-folder":
            with _quiet():
                p.map(dict(inputs), run_folder=folder, parallel=False, storage="file_array")
        before = snapshot(folder) if os.path.isdir(folder) else None
        terms.LOG.clear()
        try:
            with _quiet():
                if kind == "member-update-defaults":
                    p["z"].update_defaults({"b": 5})
                elif kind == "member-unbind":
                    p["z"].update_bound({"b": 1})  # consistent while bound …
                    p["z"].update_defaults({"b": 7})  # … (a default of a bound parameter is ignored)
                    p["z"].update_bound({}, overwrite=True)  # … and now the conflicting default is exposed
                elif kind == "rejected-add-then-use":
                    h = terms.make_function("h", ["z", "b"], sig_defaults={"b": 9})
                    try:
                        p.add(PipeFunc(h, "v", mapspec="z[i] -> v[i]" if mapped else None))
                    except ValueError:
                        pass  # the caller ignores the rejection and goes on using the pipeline
                elif kind == "rename-output-to-duplicate":
                    p.update_renames({"w": "z"})  # k's output now has the same name as g's
                elif kind == "member-bind-then-surplus":
                    # b gets a bound value on BOTH functions that take it (through the functions, after construction): it is
                    # no input of the pipeline any more, so a b in `inputs` is a surplus input
                    p["y"].update_bound({"b": "bb"})
                    p["z"].update_bound({"b": "bb"})
                    inputs = {**inputs, "b": "B"}
                elif kind == "rename-output-to-tuple-member":
                    p.update_renames({"z": "v"})  # g's output now has the name of ONE member of k's output tuple
                elif kind == "scope-output-to-duplicate":
                    p.update_renames({"z": "s.w"})
                    p.update_scope("s", outputs={"w"})  # w -> s.w collides with g's output
                elif kind == "storage-unknown-after-valid-entry":
                    storage = {"y": "file_array", "": "bogus"}
        except Exception as e:  # noqa: BLE001
            raised_at = "mutation:" + type(e).__name__
        if raised_at is None:
            try:
                with _quiet():
                    if mapped:
                        p.map(dict(inputs), run_folder=folder, parallel=False, storage=storage, cleanup=False)
                    else:
                        p("z" if kind != "rename-output-to-tuple-member" else "v", **inputs)
            except Exception as e:  # noqa: BLE001
                raised_at = "use:" + type(e).__name__
        out = []
        sig = {"kind": None, "op": "post:" + kind, "api": via}
        if raised_at is None:
            out.append(({**sig, "kind": "accepted-invalid"}, f"{kind} via {via}: the ill-formed pipeline/request was accepted; user calls {[n for n, _ in terms.LOG]}"))
        elif terms.LOG:
            out.append(({**sig, "kind": "user-code-ran"}, f"{kind} via {via}: rejected ({raised_at}) only after user code ran: {[n for n, _ in terms.LOG]}"))
        if before is not None:
            after = snapshot(folder)
            if after != before:
                out.append(({**sig, "kind": "folder-altered"}, f"{kind} via {via}: the run folder opened with cleanup=False was altered: {snap_diff(before, after)}"))
        return out
    finally:
        _shutil.rmtree(base, ignore_errors=True)


_orig_plan, _orig_run_unit, _orig_replay = plan, run_unit, replay


def plan(tier, seed):  # noqa: F811
    out = _orig_plan(tier, seed)
    out.extend(("post-construction-mutations", ("post", k)) for k in range(len(POST_CASES)))
    return out


def run_unit(unit):  # noqa: F811
    if unit[0] == "post":
        acc = Acc()
        case = POST_CASES[unit[1]]
        acc.case(hash(str(case)))
        acc.stratum("post:" + case["post"])
        for sig, text in run_post(case):
            acc.violation(sig, case, text)
        return acc
    return _orig_run_unit(unit)


def replay(art):  # noqa: F811
    if "post" in art:
        return [s for s, _ in run_post(art)]
    return _orig_replay(art)
