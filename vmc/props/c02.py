"""C02 — calling a pipeline equals composing its functions along the DAG (DESIGN.md §5 C02)."""
from __future__ import annotations

import copy

import contextlib
import io
import itertools

from .. import findings, gen_dag, terms
from ..acc import Acc

ID = "C02"
LEVEL = "exploration"
TECHNIQUE = "bounded-exhaustive enumeration of all DAG pipelines up to N functions x listing orders x outputs x argument cuts, against a reference evaluator"
RULE = ("G-DAG: every pipeline of N functions over roots {x,y} (each function takes 0..2 of roots/earlier outputs, 1 or 2 outputs; "
        "x/y-symmetric duplicates merged) x one decoration at a time (signature default, PipeFunc default, bound root, bound upstream, "
        "renamed parameter, renamed output, shared default; N<=2 also rename COMBINATIONS whose original names collide with new names: a swap p<->q or chain p<-q<-q_orig of two parameters, alone / + bound q / + signature or PipeFunc default on p, and a parameter whose original name is the function's new output name); unusual parameter names (leading underscore, one name a prefix of another); a DATACLASS as the function next to a plain function sharing a parameter name, with and without a bound field x every listing order x every requested output (names and tuples) x every "
        "combination in arg_combinations (and every omission of defaulted roots) x entry points {pipeline(), run, run(full_output), "
        "func(), call_with_root_args} + surplus-keyword variants. non-trivial = distinct (pipeline, output, cut) with >= 2 functions on the dependency path")
ASSUMPTIONS = ["reference evaluator in vmc/gen_dag.py (bound > keyword > upstream > default, memo per call)",
               "user functions are uninterpreted term builders, so value equality is derivation equality",
               "a default declared by one function for a root parameter applies pipeline-wide (pipefunc's documented Pipeline.defaults)"]
BUDGET = {"quick": 70.0, "thorough": 900.0}

ENTRIES = ("call", "run", "full", "func", "root_args")


def _quiet(fn, *a, **k):
    with contextlib.redirect_stdout(io.StringIO()):
        return fn(*a, **k)


def _invoke(p, entry, out, kw):
    if entry == "call":
        return p(out, **kw)
    if entry == "run":
        return p.run(out, kwargs=dict(kw))
    if entry == "full":
        return p.run(out, full_output=True, kwargs=dict(kw))
    if entry == "func":
        return p.func(out)(**kw)
    if entry == "root_args":
        ra = p.root_args(out)
        return p.func(out).call_with_root_args(*[kw[a] for a in ra])
    raise ValueError(entry)


def _log_ok(spec, ref, log):
    """every needed function exactly once, producers before consumers"""
    names = [n for n, _ in log]
    want = sorted(spec["funcs"][i].get("tag", spec["funcs"][i]["name"]) for i in ref.ran)
    if sorted(names) != want:
        return False
    pos = {n: k for k, n in enumerate(names)}
    prod = gen_dag.producers(spec)
    ran = set(ref.ran)
    for i in ref.ran:
        f = spec["funcs"][i]
        for p in f["params"]:
            if p in prod and prod[p][0] in ran and p not in f.get("bound", {}):
                j = prod[p][0]
                # only a real dependency if the value was not supplied
                if p in ref.inter and pos[spec["funcs"][j].get("tag", spec["funcs"][j]["name"])] > pos[f.get("tag", f["name"])] and p not in ref.used_kw:
                    return False
    return True


def _full_ok(spec, ref, fo, out):
    if not isinstance(fo, dict):
        return False
    for i in ref.ran:
        f = spec["funcs"][i]
        outs = f["outs"]
        for j, o in enumerate(outs):
            v = ref.inter[o]
            if o in fo:
                if fo[o] != v:
                    return False
            elif len(outs) > 1 and tuple(outs) in fo:
                whole = fo[tuple(outs)]  # the function's raw return value: a tuple, or a dict with a custom picker
                if (whole.get(o) if f.get("picker") and isinstance(whole, dict) else whole[j]) != v:
                    return False
            else:
                return False
    key = tuple(out) if isinstance(out, (tuple, list)) else out
    return key in fo and fo[key] == ref.value


def check_call(spec, pipe_for, out, kw, listed, orders, entries=ENTRIES):  # noqa: C901, PLR0912
    """All checks for one (pipeline, output, keyword set). pipe_for(order) -> Pipeline."""
    res = []
    out_t = tuple(out) if isinstance(out, (list, tuple)) else out
    base = {"deco": spec.get("deco"), "out_is_tuple": isinstance(out_t, tuple),
            "cut_has_intermediate": any(k not in gen_dag.ROOTS for k in kw)}
    try:
        ref = gen_dag.ref_eval(spec, out_t, kw)
    except gen_dag.NotComputable as e:
        res.append(({"kind": "listed-not-computable", **base}, f"arg_combinations lists {sorted(kw)} for {out_t} but {e} is missing"))
        return res
    unused = set(kw) - ref.used_kw
    prod = gen_dag.producers(spec)
    p0 = pipe_for(orders[0])
    for entry in entries:
        if entry == "root_args":
            try:
                ra = set(p0.root_args(out_t))
            except Exception:  # noqa: BLE001
                continue
            if set(kw) != ra or unused:
                continue
        terms.LOG.clear()
        try:
            got = _quiet(_invoke, p0, entry, out_t, kw)
        except Exception as e:  # noqa: BLE001
            if unused and not listed:
                break  # a surplus keyword (left over after omitting a defaulted root): rejection is the expected answer
            if unused and listed:
                sib = all(u in prod and len(spec["funcs"][prod[u][0]]["outs"]) > 1 for u in unused)
                res.append(({"kind": "listed-combination-rejected", "exc": type(e).__name__, "unused_are_sibling_outputs": sib},
                            f"{entry}: arg_combinations({out_t!r}) lists {tuple(sorted(kw))} but the call raises {type(e).__name__}: {str(e)[:120]}"))
                break  # one report per (out, kw)
            res.append((findings.exc_sig(e, entry=entry, **base), f"{entry}({out_t!r}, {kw}) raised {type(e).__name__}: {str(e)[:160]}"))
            continue
        if entry == "full":
            if not _full_ok(spec, ref, got, out_t):
                res.append(({"kind": "full-output-mismatch", **base}, f"run({out_t!r}, full_output=True, {kw}) = {got} vs intermediates {ref.inter}"))
        elif got != ref.value:
            res.append(({"kind": "value-mismatch", "entry": entry, **base}, f"{entry}({out_t!r}, {kw}) = {got!r}, reference {ref.value!r}"))
        if not _log_ok(spec, ref, list(terms.LOG)):
            res.append(({"kind": "call-log-mismatch", "entry": entry, **base},
                        f"{entry}({out_t!r}, {kw}) executed {[n for n, _ in terms.LOG]}, reference needs {[spec['funcs'][i]['name'] for i in ref.ran]}"))
    if unused:
        return res
    # listing-order independence
    for order in orders[1:]:
        p = pipe_for(order)
        terms.LOG.clear()
        try:
            got = _quiet(p, out_t, **kw)
        except Exception as e:  # noqa: BLE001
            res.append((findings.exc_sig(e, entry="call-reordered", **base), f"order {order}: ({out_t!r}, {kw}) raised {type(e).__name__}: {str(e)[:120]}"))
            continue
        if got != ref.value or not _log_ok(spec, ref, list(terms.LOG)):
            res.append(({"kind": "order-dependent", **base}, f"listing order {order}: ({out_t!r}, {kw}) = {got!r}, reference {ref.value!r}"))
    # surplus keywords are rejected
    surplus = [("zzz", "unrelated")]
    for r in gen_dag.ROOTS:
        if r not in kw:
            try:
                r2 = gen_dag.ref_eval(spec, out_t, {**kw, r: "<s>"})
            except gen_dag.NotComputable:
                continue
            if r not in r2.used_kw:
                surplus.append((r, "root-not-needed"))
    for name, why in surplus:
        # a bound parameter swallows a same-named keyword by design; not counted as surplus
        if any(name in f.get("bound", {}) for f in spec["funcs"]):
            continue
        for entry in ("call", "run", "full", "func"):  # every entry point that takes keywords
            try:
                _quiet(_invoke, p0, entry, out_t, {**kw, name: "<s>"})
            except Exception:  # noqa: BLE001, S110
                pass
            else:
                res.append(({"kind": "surplus-accepted", "why": why, **base, **({"entry": entry} if entry != "call" else {})},
                            f"{entry}: ({out_t!r}, {kw}) + surplus {name} ({why}) was accepted"))
    return res


def calls_for(spec, p, on_error=None):
    """(out, kw, listed) for every output and every listed combination (+ omissions of defaulted roots).

    an output whose arg_combinations() raises is reported through on_error(out, exc) and skipped"""
    defaults = gen_dag.pipeline_defaults(spec)
    for out in gen_dag.all_outputs(spec):
        try:
            combos = sorted(_quiet(p.arg_combinations, out))
        except Exception as e:  # noqa: BLE001
            if on_error is not None:
                on_error(out, e)
            continue
        for cut in combos:
            kw = {a: f"<{a}>" for a in cut}
            yield out, kw, True
            dl = [a for a in cut if a in defaults]
            for r in range(1, len(dl) + 1):
                for omit in itertools.combinations(dl, r):
                    yield out, {a: v for a, v in kw.items() if a not in omit}, False


def orders_for(spec, all_orders=True):
    n = len(spec["funcs"])
    ident = tuple(range(n))
    if not all_orders:
        return [ident]
    return [ident] + [o for o in itertools.permutations(range(n)) if o != ident]


def run_spec(spec, acc, all_orders=True):
    funcs_cache = {}

    def pipe_for(order):
        if order not in funcs_cache:
            funcs_cache[order] = gen_dag.build(spec, order=order)
        return funcs_cache[order]

    orders = orders_for(spec, all_orders)
    try:
        p0 = pipe_for(orders[0])
    except Exception as e:  # noqa: BLE001
        acc.case(None)
        acc.violation(findings.exc_sig(e, entry="construct", deco=spec.get("deco")), {"spec": spec, "construct": True},
                      f"Pipeline construction raised {type(e).__name__}: {str(e)[:160]}")
        return
    for f in gen_dag.features(spec):
        acc.stratum("pipelines-with-" + f)
    acc.stratum("pipelines")
    def listing_failed(out, e):
        acc.case(None)
        acc.violation(findings.exc_sig(e, entry="arg_combinations", deco=spec.get("deco")),
                      {"spec": spec, "focus": {"out": out, "listing": True}, "all_orders": all_orders},
                      f"arg_combinations({out!r}) raised {type(e).__name__}: {str(e)[:160]}")

    for out, kw, listed in calls_for(spec, p0, listing_failed):
        deep = gen_dag.depth_of(spec, out) >= 2
        acc.case((gen_dag._key(spec), str(out), tuple(sorted(kw))) if deep else None)
        acc.stratum("calls-listed" if listed else "calls-default-omitted")
        if any(k not in gen_dag.ROOTS for k in kw):
            acc.stratum("calls-with-supplied-intermediate")
        for sig, text in check_call(spec, pipe_for, out, kw, listed, orders):
            # the artefact replays EVERY call of this pipeline in order on the same Pipeline objects (a defect may depend on
            # earlier requests, e.g. a stale internal cache entry); "focus" names the call that showed it
            acc.violation(sig, {"spec": spec, "focus": {"out": out, "kw": kw, "listed": listed}, "all_orders": all_orders}, text)
    acc.sample({"spec": spec, "out": gen_dag.all_outputs(spec)[-1]})


def specs_for(stage):
    if stage == "N1":
        for s in gen_dag.base_specs(1):
            yield s
            yield from gen_dag.decorations(s)
    elif stage == "N2":
        yield from gen_dag.base_specs(2)
    elif stage == "N2-three-output-producer":
        yield from gen_dag.tri_output_specs()
    elif stage == "N2-decorated":
        for s in gen_dag.base_specs(2):
            yield from gen_dag.decorations(s)
    elif stage == "N2-rename-combos":
        # two features combined around renames: original names colliding with new names (+ bound, + defaults)
        for n in (1, 2):
            for s in gen_dag.base_specs(n):
                yield from gen_dag.combo_decorations(s)
    elif stage == "N2-dataclass-function":
        # f0 is a DATACLASS (fields = parameters, field defaults = signature defaults), alone and next to a plain function that
        # shares the parameter name y: with and without a bound value on the dataclass field that has the default
        for bound in (None, {"y": "by"}):
            f0 = {"name": "f0", "params": ["x", "y"], "outs": ["o0"], "dataclass": True, "sigdef": {"y": "d1" if bound is None else "dy"}}
            if bound:
                f0["bound"] = dict(bound)
            yield {"funcs": [copy.deepcopy(f0)], "deco": "dataclass"}
            yield {"funcs": [copy.deepcopy(f0), {"name": "f1", "params": ["y"], "outs": ["o1"], "sigdef": {"y": "d1"}}], "deco": "dataclass"}
            yield {"funcs": [copy.deepcopy(f0), {"name": "f1", "params": ["o0", "y"], "outs": ["o1"], "sigdef": {"y": "d1"}}], "deco": "dataclass"}
    elif stage == "N3-two-defaults-on-one-produced-name":
        # two consumers declare DIFFERENT signature defaults for a name that a third function produces (the defaults are never
        # used): a valid pipeline in every listing order
        yield {"funcs": [{"name": "f0", "params": ["x"], "outs": ["o0"]},
                         {"name": "f1", "params": ["o0"], "outs": ["o1"], "sigdef": {"o0": "d1"}},
                         {"name": "f2", "params": ["o0", "y"], "outs": ["o2"], "sigdef": {"o0": "d2"}}], "deco": "two-defaults-on-one-produced-name"}
    elif stage == "N2-special-names":
        # valid but unusual parameter names: a leading underscore, a trailing digit, one name a prefix of the other
        for a, b in (("_x", "y"), ("x", "x1"), ("_x", "_x_")):
            yield {"funcs": [{"name": "f0", "params": [a, b], "outs": ["o0"]}]}
            yield {"funcs": [{"name": "f0", "params": [a], "outs": ["o0"]}, {"name": "f1", "params": ["o0", b], "outs": ["o1"]}]}
            yield {"funcs": [{"name": "f0", "params": [a, b], "outs": ["o0", "p0"]}, {"name": "f1", "params": ["p0", a], "outs": ["o1"]}]}
    elif stage == "N3":
        yield from gen_dag.base_specs(3)
    elif stage == "N3-shared-none":
        # a None-valued intermediate consumed by two later functions (None must count as "already computed")
        for s in gen_dag.base_specs(3):
            for i, f in enumerate(s["funcs"][:2]):
                if len(f["outs"]) == 1 and sum(1 for g in s["funcs"][i + 1:] if f["outs"][0] in g["params"]) >= 2:
                    d = copy.deepcopy(s)
                    d["funcs"][i]["none"] = True
                    d["deco"] = "returns-none"
                    yield d
    elif stage == "N3-decorated":
        for s in gen_dag.base_specs(3):
            yield from gen_dag.decorations(s)
    elif stage == "N4-single-output":
        yield from gen_dag.base_specs(4, max_params=2, nouts=(1,), min_params=1)


STAGES = {"quick": ["N1", "N2", "N2-three-output-producer", "N2-decorated", "N2-rename-combos", "N2-special-names", "N2-dataclass-function", "N3-two-defaults-on-one-produced-name", "N3-shared-none", "N3"],
          "thorough": ["N1", "N2", "N2-three-output-producer", "N2-decorated", "N2-rename-combos", "N2-special-names", "N2-dataclass-function", "N3-two-defaults-on-one-produced-name", "N3-shared-none", "N3", "N3-decorated", "N4-single-output"]}
CHUNK = {"N3-two-defaults-on-one-produced-name": 1, "N2-dataclass-function": 6, "N2-special-names": 9, "N2-rename-combos": 60, "N3-shared-none": 20, "N2-three-output-producer": 8, "N1": 8, "N2": 16, "N2-decorated": 40, "N3": 40, "N3-decorated": 200, "N4-single-output": 30}


def plan(tier, seed):
    out = []
    for st in STAGES[tier]:
        n = sum(1 for _ in specs_for(st))
        nchunks = max(1, (n + CHUNK[st] - 1) // CHUNK[st])
        us = [(st, (st, c, nchunks)) for c in range(nchunks)]
        r = seed % len(us)
        out.extend(us[r:] + us[:r])
    return out


def run_unit(unit):
    st, c, n = unit
    acc = Acc()
    all_orders = st != "N4-single-output"
    for k, spec in enumerate(specs_for(st)):
        if k % n == c:
            run_spec(spec, acc, all_orders=all_orders)
    return acc


def replay(art):
    spec = art["spec"]
    if art.get("construct"):
        try:
            gen_dag.build(spec)
        except Exception as e:  # noqa: BLE001
            return [findings.exc_sig(e, entry="construct", deco=spec.get("deco"))]
        return []
    acc = Acc()
    run_spec(spec, acc, all_orders=art.get("all_orders", True))
    return [g["sig"] for g in acc.violations.values()]
