"""C05 — an interrupted map resumes to the uninterrupted result, redoing no stored work (DESIGN.md §5 C05).

Exhaustive crash-point enumeration: the real write path runs in a forked child under vmc/crashfs.py; for EVERY numbered
file-system event k (and torn fractions of every write) a child is killed at k, then a fresh child resumes with
cleanup=False. Plus every user-function call as raise / kill point, and (thorough) depth-2 crash sequences."""
from __future__ import annotations

import contextlib
from concurrent.futures import Executor, Future
import io
import os
import re
import shutil
import warnings

import numpy as np
from pipefunc import Pipeline
from pipefunc.map import load_outputs

from .. import boot, crashfs, gen_map, terms
from ..acc import Acc
from . import c03

ID = "C05"
LEVEL = "fault_enumeration"
TECHNIQUE = "exhaustive crash-point enumeration: fork, kill at file-system event k (torn writes), real resume with cleanup=False; depth-2 crash sequences; every user-function call as raise/kill point"
RULE = ("pipelines of C03's family (the all-None-elements pipeline: fresh start, file_array and dict only) x storage {file_array, dict+persist, shared_memory_dict+persist, mix} x start state {no folder, folder of a previous "
        "complete run (cleanup=True interrupted)} x {sequential, parallel code path through the deferred executor with its default schedule; user-function faults also with an executor that runs the tasks of a generation newest first, so that the stored elements are not a prefix} x EVERY file-system event of the run (mkdir, open-for-write, every write call with torn fractions, close, "
        "rename, unlink, rmdir) as the death point; quick coalesces the ~80 tiny json writes of run_info.json to {first, middle, last}; every (function, call "
        "index) as raise and as kill point (also with every name in a scope, and with one-axis internal shapes spelled as ints on the PipeFunc / in a fresh map(internal_shapes=) dict); thorough: all events, fractions {0,1/4,1/2,3/4}, and a second crash at every event of the resumed run. "
        "non-trivial = distinct (pipeline, storage, start, event kind, file role) class")
ASSUMPTIONS = ["crash model = process death: completed write() calls survive, no reordering, no fsync semantics",
               "deterministic execution (sequential, or the deferred executor's default schedule), so the event numbering of the reference run equals that of the crashed run (PYTHONHASHSEED pinned)",
               "for the 'previous complete run' start state only correctness of the resumed result is demanded (whether leftovers of the old run may be reused is not specified)"]
BUDGET = {"quick": 85.0, "thorough": 1200.0}

PIPES = {**c03.PIPES, **c03.EXTRA_PIPES}  # incl. "none-elements": a stored None is a computed element, not a missing one


def storage_opts(spec, tier):
    first = ",".join(spec["funcs"][0]["outs"])
    opts = ["file_array", "dict", "shared_memory_dict", {first: "file_array", "": "dict"}]
    return opts


# ------------------------------------------------------------------------------------------------
# the work done inside a child
# ------------------------------------------------------------------------------------------------
class _LateFuture(Future):
    def __init__(self, ex):
        super().__init__()
        self._ex = ex

    def result(self, timeout=None):
        self._ex.drive()
        return super().result(0)

    def exception(self, timeout=None):
        self._ex.drive()
        return super().exception(0)


class ReversedExecutor(Executor):
    """runs ALL pending tasks, newest first, as soon as one result is asked for: when task k of a generation fails, the tasks
    submitted after it have already stored their elements - the stored elements are then NOT a prefix of the index space"""

    def __init__(self):
        self.pending = []

    def submit(self, fn, /, *args, **kwargs):
        f = _LateFuture(self)
        self.pending.append((f, fn, args, kwargs))
        return f

    def drive(self):
        batch, self.pending = self.pending[::-1], []
        for f, fn, a, k in batch:
            try:
                f.set_result(fn(*a, **k))
            except BaseException as e:  # noqa: BLE001
                f.set_exception(e)

    def shutdown(self, wait=True, *, cancel_futures=False):
        pass


def do_map(cfg, folder, cleanup, fault=None):
    """runs in the forked child; returns JSON-able observation"""
    c03._install_one_manager()
    spec = PIPES[cfg["pipe"]]
    counter = {}

    def hook(name, kw):
        if fault is None:
            return
        counter[name] = counter.get(name, 0) + 1
        if fault["func"] == name and counter[name] == fault["call"]:
            if fault["kind"] == "kill":
                os._exit(crashfs.CRASH_EXIT)
            raise ValueError("injected fault", name, fault["call"])

    terms.LOG.clear()
    variant = cfg.get("variant")
    if variant == "ishape-int-map":
        spec = {**spec, "funcs": [{**fn, "ishape_via": "map"} for fn in spec["funcs"]]}
    if variant == "ishape-int-pipefunc":
        with contextlib.redirect_stdout(io.StringIO()):
            p = Pipeline(gen_map.build_funcs(spec, hook=hook, ishape_int=True))
    else:
        p = gen_map.build(spec, hook=hook)
    inputs = gen_map.make_inputs(spec, "list")
    ishapes = gen_map.internal_shapes_arg(spec)
    if variant == "ishape-int-map" and ishapes:
        ishapes = {k: (v[0] if len(v) == 1 else v) for k, v in ishapes.items()}  # a FRESH dict per call, ints for one axis
    if variant == "string-ndarray-inputs":
        # inputs that the resume cannot compare with the recorded ones (np.array_equal raises for string arrays): the run must
        # then proceed ("hoping for the best"), not refuse
        inputs = {k: (np.array(v) if isinstance(v, list) else v) for k, v in inputs.items()}
    if variant == "shadowed-default":
        # a root that has a default AND is supplied: the resume compares the pipeline's defaults with the recorded ones
        r0 = sorted(inputs)[0]
        with contextlib.redirect_stdout(io.StringIO()):
            p.update_defaults({r0: [f"d-{e}" for e in inputs[r0]] if isinstance(inputs[r0], list) else f"d-{inputs[r0]}"})
    pre = ""
    if variant == "scoped":  # every name gets the prefix "s." (two root inputs of one scope: file names with dots)
        with contextlib.redirect_stdout(io.StringIO()):
            p.update_scope("s", inputs="*", outputs="*")
        pre = "s."
        inputs = {pre + k: v for k, v in inputs.items()}
        ishapes = {pre + k: v for k, v in ishapes.items()} if ishapes else ishapes
    par = {}
    if cfg.get("exec") == "deferred":
        # parallel code path with a deterministic schedule: tasks are submitted to the deferred executor and run in
        # submission order when their results are awaited (worker-side dumps, parent-side post-processing)
        from .. import explore, sched
        par = {"parallel": True, "executor": sched.DeferredExecutor(sched.Sched(explore.Chooser(), eager_points=False))}
    elif cfg.get("exec") == "reversed":
        par = {"parallel": True, "executor": ReversedExecutor()}
    else:
        par = {"parallel": False}
    with contextlib.redirect_stdout(io.StringIO()), warnings.catch_warnings():
        warnings.simplefilter("ignore")
        r = p.map(dict(inputs), run_folder=folder, internal_shapes=ishapes,
                  storage=c03.storage_arg(cfg["storage"]), cleanup=cleanup, persist_memory=True, **par)
    out = {o: terms.T(r[pre + o].output) for f in spec["funcs"] for o in f["outs"]}
    loaded = {}
    crashfs.Ctl.root = None
    for f in spec["funcs"]:
        for o in f["outs"]:
            try:
                with contextlib.redirect_stdout(io.StringIO()):
                    loaded[o] = terms.T(load_outputs(pre + o, run_folder=folder))
            except Exception as e:  # noqa: BLE001
                loaded[o] = f"EXC {type(e).__name__}: {str(e)[:80]}"
    return {"outputs": out, "loaded": loaded, "log": [list(x) for x in terms.LOG]}


def reference(cfg):
    spec = PIPES[cfg["pipe"]]
    exp, calls = gen_map.ref_map(spec, gen_map.make_inputs(spec, "list"))
    return {o: terms.T(exp[o]) for f in spec["funcs"] for o in f["outs"]}, calls


# ------------------------------------------------------------------------------------------------
# event bookkeeping
# ------------------------------------------------------------------------------------------------
def role_of(path: str) -> str:
    p = path.replace(".tmp", "")
    if p.endswith("run_info.json"):
        return "run_info"
    if "/inputs/" in "/" + p or p.startswith("inputs"):
        return "input" if p != "inputs" else "dir"
    if p.startswith("defaults"):
        return "defaults" if p != "defaults" else "dir"
    if re.search(r"__\d+__\.pickle$", p):
        return "element"
    if p.endswith("dict_array.cloudpickle"):
        return "dict_array"
    if p.endswith(".cloudpickle"):
        return "single_output"
    return "dir"


def files_after(events, upto, pre=()):
    """state of every file after events[0:upto]: path -> 'closed' | 'open'"""
    files = {p: "closed" for p in pre}
    for n, kind, path, extra in events[:upto]:
        if kind == "open":
            files[path] = "open"
        elif kind == "close":
            files[path] = "closed"
        elif kind == "os.rename" and extra:
            if path in files:
                files[extra] = files.pop(path)
        elif kind == "os.remove":
            files.pop(path, None)
    return files


def stored_calls(spec, files, calls):
    """(function name, args) pairs whose results were completely stored, judged from closed final files"""
    done = set()
    for fn in spec["funcs"]:
        outs = fn["outs"]
        if fn["ms"]:  # mapspec with inputs: element files / dict pickles
            n = len(calls[fn["name"]])
            for i in range(n):
                if all(files.get(f"outputs/{o}/__{i}__.pickle") == "closed" for o in outs):
                    done.add((fn["name"], calls[fn["name"]][i], i))
        else:
            if all(files.get(f"outputs/{o}.cloudpickle") == "closed" for o in outs):
                done.add((fn["name"], calls[fn["name"]][0], 0))
    return done


def select_points(events, tier):
    """crash points (k, fraction). quick coalesces run_info.json writes to first/middle/last"""
    pts = []
    ri = [e[0] for e in events if e[1] == "write" and role_of(e[2]) == "run_info"]
    keep_ri = set(ri) if tier == "thorough" else {ri[0], ri[len(ri) // 2], ri[-1]} if ri else set()
    fracs = (0.0, 0.25, 0.5, 0.75) if tier == "thorough" else (0.0, 0.5)
    for n, kind, path, extra in events:
        if kind == "write":
            if role_of(path) == "run_info" and n not in keep_ri:
                continue
            big = (extra or 0) >= 2
            for fr in (fracs if big else (0.0,)):
                pts.append((n, fr))
        else:
            pts.append((n, 0.0))
    return pts


# ------------------------------------------------------------------------------------------------
def _prepare(cfg, base):
    """start state; returns (folder, pre-existing files)"""
    folder = os.path.join(base, "run")
    pre = []
    if cfg["start"] == "previous-run":
        code, res = crashfs.run_in_child(lambda: do_map(cfg, folder, True), folder, None)
        if code != 0:
            raise RuntimeError(f"could not create the previous run: {res}")
        for root, _dirs, fs in os.walk(folder):
            for f in fs:
                pre.append(os.path.relpath(os.path.join(root, f), folder))
    return folder, pre


def judge_resume(cfg, code, res, want, calls, stored, label):
    """oracle on the final resumed run; returns [(sig, text)]"""
    spec = PIPES[cfg["pipe"]]
    base = {"pipe": cfg["pipe"], "storage": cfg["storage"] if isinstance(cfg["storage"], str) else "mix", "start": cfg["start"],
            "exec": cfg.get("exec", "sequential")}
    if code != 0 or not res or not res.get("ok"):
        exc = (res or {}).get("exc", f"exit{code}")
        msg = (res or {}).get("msg", "")
        tb = (res or {}).get("tb", "")
        site = "?"
        m = re.findall(r'File ".*?/pipefunc/(.*?)", line \d+, in (\w+)', tb)
        if m:
            site = f"{m[-1][0]}:{m[-1][1]}"
        return [({"kind": "resume-failed", "exc": exc, "site": site, **base, **label}, f"{cfg} {label}: resume with cleanup=False failed: {exc}: {msg[:140]}")]
    v = res["value"]
    out = []
    for o, w in want.items():
        if v["outputs"][o] != w:
            out.append(({"kind": "wrong-result", **base, **label}, f"{cfg} {label}: resumed {o} = {v['outputs'][o][:120]}, uninterrupted {w[:120]}"))
        if v["loaded"][o] != w:
            out.append(({"kind": "wrong-stored", **base, **label}, f"{cfg} {label}: load_outputs({o}) after resume = {v['loaded'][o][:120]}, uninterrupted {w[:120]}"))
    if stored is not None:
        log = [(n, a) for n, a in v["log"]]
        redone = [(n, a) for (n, a, _i) in stored if (n, a) in log]
        if redone:
            out.append(({"kind": "recomputed-stored", **base, **label}, f"{cfg} {label}: resume recomputed completely stored results {redone[:4]}"))
    # nothing computed twice within the resumed run
    lg = [tuple(x) for x in v["log"]]
    if len(set(lg)) != len(lg):
        out.append(({"kind": "computed-twice", **base, **label}, f"{cfg} {label}: resumed run computed an element twice: {lg}"))
    del spec
    return out


def crash_case(cfg, k, frac, events, pre, want, calls, depth2=None):
    """one crash point (optionally followed by a second crash at event depth2=(k2, f2) of the resumed run)"""
    base = boot.mkscratch("c05-")
    try:
        folder, _ = _prepare(cfg, base)
        code, _ = crashfs.run_in_child(lambda: do_map(cfg, folder, True), folder, (k, frac))
        ev = events[k - 1]
        label = {"event": ev[1], "role": role_of(ev[2]), "torn": bool(frac)}
        if code != crashfs.CRASH_EXIT:
            return [({"kind": "harness-no-crash", **label}, f"{cfg}: child did not die at event {k} (exit {code})")]
        stored = None
        if cfg["start"] == "fresh":
            stored = stored_calls(PIPES[cfg["pipe"]], files_after(events, k - 1, pre), calls)
        if depth2 is not None:
            code2, _ = crashfs.run_in_child(lambda: do_map(cfg, folder, False), folder, depth2)
            label = {**label, "second_crash": True}
            stored = None
            if code2 not in (crashfs.CRASH_EXIT, 0, 1):
                return [({"kind": "harness-second", **label}, f"{cfg}: second child exit {code2}")]
        code, res = crashfs.run_in_child(lambda: do_map(cfg, folder, False), folder, None)
        return judge_resume(cfg, code, res, want, calls, stored, label)
    finally:
        shutil.rmtree(base, ignore_errors=True)


def reference_run(cfg):
    base = boot.mkscratch("c05r-")
    try:
        folder, pre = _prepare(cfg, base)
        code, res = crashfs.run_in_child(lambda: do_map(cfg, folder, True), folder, None)
        if code != 0:
            raise RuntimeError(f"reference run failed: {res}")
        return res["events"], pre, res["value"]
    finally:
        shutil.rmtree(base, ignore_errors=True)


def resumed_events(cfg, k, frac):
    """event log of an uncrashed resume after crashing at (k, frac) — the reference for depth-2"""
    base = boot.mkscratch("c05s-")
    try:
        folder, _ = _prepare(cfg, base)
        crashfs.run_in_child(lambda: do_map(cfg, folder, True), folder, (k, frac))
        code, res = crashfs.run_in_child(lambda: do_map(cfg, folder, False), folder, None)
        return (res or {}).get("events") if code == 0 else None
    finally:
        shutil.rmtree(base, ignore_errors=True)


def fault_case(cfg, fault, want, calls):
    base = boot.mkscratch("c05f-")
    try:
        folder, _ = _prepare(cfg, base)
        code, res = crashfs.run_in_child(lambda: do_map(cfg, folder, True, fault), folder, None)
        label = {"event": "user-" + fault["kind"], "role": "function", "torn": False}
        if fault["kind"] == "kill" and code != crashfs.CRASH_EXIT:
            return [({"kind": "harness-no-crash", **label}, f"{cfg}: kill fault {fault} did not kill (exit {code})")]
        if fault["kind"] == "raise" and (code != 1 or res.get("exc") != "ValueError"):
            return [({"kind": "fault-not-raised", **label}, f"{cfg}: injected ValueError at {fault} surfaced as exit {code} {res and res.get('exc')}")]
        code, res = crashfs.run_in_child(lambda: do_map(cfg, folder, False), folder, None)
        # completely stored = every call that finished before the failing one (sequential run, file_array elements are written per call)
        return judge_resume(cfg, code, res, want, calls, None, label)
    finally:
        shutil.rmtree(base, ignore_errors=True)


# ------------------------------------------------------------------------------------------------
def configs(tier):
    out = []
    for pipe, spec in PIPES.items():
        if pipe in c03.EXTRA:
            for st in ("file_array", "dict"):
                out.append({"pipe": pipe, "storage": st, "start": "fresh"})
            continue
        for st in storage_opts(spec, tier):
            for start in ("fresh", "previous-run"):
                out.append({"pipe": pipe, "storage": st, "start": start})
        # variants of how the same run is spelled (user-function faults only; crash points are enumerated on the plain form)
        if pipe == "map2d-partial-full":
            out.append({"pipe": pipe, "storage": "file_array", "start": "fresh", "variant": "scoped", "faults_only": True})
        if pipe in ("two-maps-reduce", "tuple-zip"):
            out.append({"pipe": pipe, "storage": "file_array", "start": "fresh", "variant": "shadowed-default", "faults_only": True})
            out.append({"pipe": pipe, "storage": "file_array", "start": "fresh", "variant": "string-ndarray-inputs", "faults_only": True})
        if pipe in ("generator-outer", "internal-first-reduce"):
            for v in ("ishape-int-pipefunc", "ishape-int-map"):
                out.append({"pipe": pipe, "storage": "file_array", "start": "fresh", "variant": v, "faults_only": True})
        # the parallel code path (deferred executor, deterministic default schedule)
        for st in (("file_array", "dict") if tier == "quick" else storage_opts(spec, tier)):
            out.append({"pipe": pipe, "storage": st, "start": "fresh", "exec": "deferred"})
        # the tasks of a generation run newest first: a failing element leaves HOLES (later elements stored, earlier ones not)
        out.append({"pipe": pipe, "storage": "file_array", "start": "fresh", "exec": "reversed", "faults_only": True})
    return out


def plan(tier, seed):
    units = []
    for cfg in configs(tier):
        nch = 6 if tier == "quick" else 12
        for c in range(nch if not cfg.get("faults_only") else 0):
            units.append(("single-crash-every-event", ("crash", cfg, tier, c, nch)))
        units.append(("user-function-faults", ("fault", cfg)))
    if tier == "thorough":
        for cfg in configs(tier):
            if cfg["start"] == "fresh" and not cfg.get("faults_only") and cfg["pipe"] in ("two-maps-reduce", "tuple-zip", "generator-outer"):
                for c in range(24):
                    units.append(("depth-2-crash-sequences", ("depth2", cfg, c, 24)))
    by = {}
    for st, u in units:
        by.setdefault(st, []).append((st, u))
    out = []
    for st, us in by.items():
        r = seed % len(us)
        out.extend(us[r:] + us[:r])
    return out


def run_unit(unit):
    acc = Acc()
    c03._install_one_manager()  # in the worker, before forking crash children
    kind, cfg = unit[0], unit[1]
    want, calls = reference(cfg)
    stname = cfg["storage"] if isinstance(cfg["storage"], str) else "mix"
    if kind == "crash":
        _, _, tier, c, n = unit
        events, pre, val = reference_run(cfg)
        if c == 0:
            if val["outputs"] != want:
                acc.violation({"kind": "reference-run-wrong"}, {"cfg": cfg, "mode": "reference"}, f"{cfg}: uninterrupted run differs from the denotation")
            acc.sample({"cfg": cfg, "events": len(events), "first_events": events[:6]})
        pts = select_points(events, tier)
        for i, (k, fr) in enumerate(pts):
            if i % n != c:
                continue
            ev = events[k - 1]
            acc.case(hash((cfg["pipe"], stname, cfg["start"], cfg.get("exec"), ev[1], role_of(ev[2]), bool(fr))))
            acc.stratum("exec-" + cfg.get("exec", "sequential"))
            acc.stratum(f"event-{ev[1]}")
            acc.stratum(f"role-{role_of(ev[2])}")
            if fr:
                acc.stratum("torn-writes")
            for sig, text in crash_case(cfg, k, fr, events, pre, want, calls):
                acc.violation(sig, {"cfg": cfg, "mode": "crash", "k": k, "frac": fr}, text + f" [crash at event {k}: {ev[1:]}]")
    elif kind == "fault":
        spec = PIPES[cfg["pipe"]]
        for fn in spec["funcs"]:
            for call in range(1, len(calls[fn["name"]]) + 1):
                for fk in ("raise", "kill"):
                    fault = {"func": fn["name"], "call": call, "kind": fk}
                    acc.case(hash((cfg["pipe"], stname, cfg["start"], "user-" + fk, fn["name"], call)))
                    acc.stratum("user-function-" + fk)
                    for sig, text in fault_case(cfg, fault, want, calls):
                        acc.violation(sig, {"cfg": cfg, "mode": "fault", "fault": fault}, text + f" [{fault}]")
    elif kind == "depth2":
        _, _, c, n = unit
        events, pre, _ = reference_run(cfg)
        pts = select_points(events, "quick")
        j = 0
        for (k, fr) in pts:
            ev2 = resumed_events(cfg, k, fr)
            if not ev2:
                continue  # the single-crash stage reports a failing resume
            for (k2, f2) in select_points(ev2, "quick"):
                j += 1
                if j % n != c:
                    continue
                acc.case(hash((cfg["pipe"], stname, "d2", events[k - 1][1], role_of(events[k - 1][2]), ev2[k2 - 1][1], role_of(ev2[k2 - 1][2]))))
                acc.stratum("depth2-sequences")
                for sig, text in crash_case(cfg, k, fr, events, pre, want, calls, depth2=(k2, f2)):
                    acc.violation(sig, {"cfg": cfg, "mode": "crash", "k": k, "frac": fr, "k2": k2, "f2": f2}, text + f" [crash at {k} then at {k2} of the resume]")
    return acc


def replay(art):
    c03._install_one_manager()
    cfg = art["cfg"]
    want, calls = reference(cfg)
    if art["mode"] == "fault":
        return [s for s, _ in fault_case(cfg, art["fault"], want, calls)]
    if art["mode"] == "reference":
        _, _, val = reference_run(cfg)
        return [{"kind": "reference-run-wrong"}] if val["outputs"] != want else []
    events, pre, _ = reference_run(cfg)
    d2 = (art["k2"], art["f2"]) if "k2" in art else None
    return [s for s, _ in crash_case(cfg, art["k"], art["frac"], events, pre, want, calls, depth2=d2)]
