"""./check <ID> [--tier quick|thorough] [--replay file] — runner, evidence writer, output contract.

exit 0: property held on everything explored (known findings are printed as KNOWN-FINDING lines)
exit 1: at least one `VIOLATION property=<ID> replay=<path>` line (violation not listed in known_findings.json)
exit 2: harness error (never a verdict): worker crash, non-reproducible violation, bad usage
"""
from __future__ import annotations

import argparse
import concurrent.futures as cf
import contextlib
import hashlib
import importlib
import io
import json
import multiprocessing
import os
import sys
import time
import traceback

from . import boot

boot.pin_hashseed()
boot.boot()

from . import findings  # noqa: E402
from .acc import Acc, sig_key  # noqa: E402

DEFAULT_BUDGET = {"quick": 75.0, "thorough": 900.0}
_MOD = None


def _load(pid: str):
    return importlib.import_module(f"vmc.props.{pid.lower()}")


def _worker_init(pid: str) -> None:
    global _MOD
    _MOD = _load(pid)
    # workers never need the real stdout; children spawned by pipefunc (process pools) inherit /dev/null
    devnull = os.open(os.devnull, os.O_WRONLY)
    os.dup2(devnull, 1)
    os.close(devnull)
    sys.stdout = open(os.devnull, "w")  # noqa: SIM115


def _escaped_sig(e: BaseException):
    """signature of an exception that escaped a unit - only if its INNERMOST frame is library code (a harness bug, whose
    innermost frame is harness code, stays a HARNESS-ERROR)"""
    tb = traceback.extract_tb(e.__traceback__)
    if not tb:
        return None
    fn = tb[-1].filename.replace("\\", "/")
    if "/pipefunc/" in fn and "/vmc/" not in fn:
        return {"kind": "exception-escaped-the-harness", "exc": type(e).__name__, "site": findings.exc_site(e)}
    return None


def _run_unit(args):
    stage, unit = args
    t = time.time()
    try:
        acc = _MOD.run_unit(unit)
    except BaseException as e:  # noqa: BLE001
        sig = _escaped_sig(e)
        if sig is not None:
            # the library raised where the harness (written against the unchanged tree) expects it not to: a verdict on the
            # library, not a harness failure - reported like any other violation, replayed by re-running the unit
            from .acc import Acc as _Acc
            acc = _Acc()
            acc.case(None)
            acc.violation(sig, {"__unit__": [stage, unit]},
                          f"unit {stage} {str(unit)[:160]}: {type(e).__name__}: {str(e)[:160]} escaped from {sig['site']}")
            return stage, acc, None, time.time() - t
        return stage, None, traceback.format_exc(), time.time() - t
    return stage, acc, None, time.time() - t


def _replay_in_child(pid: str, artefact: dict):
    """Re-execute one artefact in a fresh forked process; returns list of signature dicts."""
    ctx = multiprocessing.get_context("fork")
    with cf.ProcessPoolExecutor(1, mp_context=ctx, initializer=_worker_init, initargs=(pid,)) as ex:
        return ex.submit(_replay_job, artefact).result()


def _replay_job(artefact):
    if "__unit__" in artefact:  # an exception that escaped a whole unit: re-run the unit
        stage, unit = artefact["__unit__"]
        try:
            _MOD.run_unit(tuple(unit) if isinstance(unit, list) else unit)
        except BaseException as e:  # noqa: BLE001
            sig = _escaped_sig(e)
            return ([sig], None) if sig is not None else (None, traceback.format_exc())
        return [], None
    try:
        return [dict(s) for s in _MOD.replay(artefact)], None
    except BaseException:  # noqa: BLE001
        return None, traceback.format_exc()


def _write_artefact(pid: str, art: dict, sig: dict, text: str) -> str:
    body = {"property": pid, "signature": sig, "text": text, "artefact": art}
    blob = json.dumps(body, sort_keys=True, default=str, indent=1)
    h = hashlib.sha1(blob.encode()).hexdigest()[:12]
    d = os.path.join(boot.VERIF, "replays")
    os.makedirs(d, exist_ok=True)
    path = os.path.join(d, f"{pid}-{h}.json")
    with open(path, "w") as fh:
        fh.write(blob)
    return path


def main(argv=None) -> int:  # noqa: C901, PLR0912, PLR0915
    ap = argparse.ArgumentParser()
    ap.add_argument("pid")
    ap.add_argument("--tier", default=os.environ.get("VERIF_TIER", "quick"), choices=["quick", "thorough"])
    ap.add_argument("--replay")
    ap.add_argument("--budget", type=float, default=None, help="wall-clock cap in seconds (reported if hit)")
    ap.add_argument("--workers", type=int, default=int(os.environ.get("VERIF_WORKERS", "16")))
    ap.add_argument("--no-evidence", action="store_true")
    a = ap.parse_args(argv)
    pid = a.pid.upper()
    seed = int(os.environ.get("VERIF_SEED", "0") or 0)
    mod = _load(pid)
    known = findings.load(pid)

    if a.replay:
        with open(a.replay) as fh:
            body = json.load(fh)
        art = body.get("artefact", body)
        sigs, err = _replay_in_child(pid, art)
        if err:
            print(err)
            return 2
        bad = 0
        for s in sigs:
            e = findings.match(known, s)
            if e:
                print(f"KNOWN-FINDING: property={pid} {e['text']}")
            else:
                bad += 1
                print(f"VIOLATION property={pid} replay={a.replay}")
                print("  signature:", json.dumps(s, sort_keys=True, default=str))
        if not sigs:
            print(f"replay of {a.replay}: no violation (property holds on this case)")
        return 1 if bad else 0

    t0 = time.time()
    budget = a.budget if a.budget is not None else getattr(mod, "BUDGET", DEFAULT_BUDGET).get(a.tier, DEFAULT_BUDGET[a.tier])
    plan = list(mod.plan(a.tier, seed))
    stages: list[str] = []
    for st, _ in plan:
        if st not in stages:
            stages.append(st)
    todo = {st: 0 for st in stages}
    for st, _ in plan:
        todo[st] += 1
    done = {st: 0 for st in stages}
    total = Acc()
    cap_hit = False
    errors: list[str] = []
    ctx = multiprocessing.get_context("fork")
    nworkers = max(1, min(a.workers, len(plan)))
    unit_times: list[float] = []
    with cf.ProcessPoolExecutor(nworkers, mp_context=ctx, initializer=_worker_init, initargs=(pid,)) as ex:
        it = iter(plan)
        pending: set[cf.Future] = set()

        def feed() -> None:
            while len(pending) < nworkers * 2:
                try:
                    u = next(it)
                except StopIteration:
                    return
                pending.add(ex.submit(_run_unit, u))

        feed()
        while pending:
            finished, _ = cf.wait(pending, timeout=1.0, return_when=cf.FIRST_COMPLETED)
            for f in finished:
                pending.discard(f)
                try:
                    st, acc, err, dt = f.result()
                except BaseException as e:  # noqa: BLE001  (BrokenProcessPool etc.)
                    errors.append(f"worker died: {type(e).__name__}: {e}")
                    continue
                unit_times.append(dt)
                if err:
                    errors.append(err)
                    continue
                done[st] += 1
                total.merge(acc)
            if errors:
                for f in pending:
                    f.cancel()
                break
            if time.time() - t0 > budget:
                cap_hit = True
                for f in pending:
                    f.cancel()
                # let running units finish (they are short), but take no new ones
                still = [f for f in pending if not f.cancelled()]
                for f in still:
                    with contextlib.suppress(BaseException):
                        st, acc, err, dt = f.result(timeout=120)
                        if not err:
                            done[st] += 1
                            total.merge(acc)
                break
            feed()
    if errors:
        print(f"HARNESS-ERROR property={pid}")
        print(errors[0])
        return 2

    # ---- classify violations ---------------------------------------------------------------
    known_hits: dict[str, int] = {}
    fresh: list[tuple[dict, dict]] = []
    for g in total.violations.values():
        e = findings.match(known, g["sig"])
        if e:
            known_hits[e["id"]] = known_hits.get(e["id"], 0) + g["count"]
        else:
            fresh.append((g, g["examples"][0]))
    rc = 0
    reported = 0
    unstable = 0
    fresh.sort(key=lambda ga: sig_key(ga[0]["sig"]))
    for g, art in fresh[:25]:
        sigs, err = _replay_in_child(pid, art)
        if err:
            print(f"HARNESS-ERROR property={pid} (replay crashed)")
            print(err)
            return 2
        if not any(sig_key(s) == sig_key(g["sig"]) for s in sigs):
            unstable += 1
            print(f"UNSTABLE property={pid} violation did not reproduce on replay: {g['text']}")
            print("  signature:", sig_key(g["sig"]), " replay gave:", [sig_key(s) for s in sigs][:3])
            continue
        path = _write_artefact(pid, art, g["sig"], g["text"])
        print(f"VIOLATION property={pid} replay={path}")
        print(f"  {g['text']}  (x{g['count']})")
        print("  signature:", sig_key(g["sig"]))
        reported += 1
        rc = 1
    if len(fresh) > 25:
        print(f"  ... and {len(fresh) - 25} more distinct violation signatures")
    for e in known:
        if e["id"] in known_hits:
            print(f"KNOWN-FINDING: property={pid} {e['text']}  [{e['id']}: {known_hits[e['id']]} explored cases]")
    if unstable and rc == 0:
        rc = 2

    # ---- evidence ---------------------------------------------------------------------------
    stages_completed = [st for st in stages if done[st] == todo[st]]
    bound_completed = None
    for st in stages:  # the longest fully completed prefix of the stage list
        if done[st] == todo[st]:
            bound_completed = st
        else:
            break
    wall = time.time() - t0
    cov: dict = {
        "evaluations": total.evaluations,
        "distinct_nontrivial": len(total.nontrivial),
        "rule": getattr(mod, "RULE", ""),
        "samples": total.samples or [],
        "exhaustive": not cap_hit,
        "cap_hit": cap_hit,
        "budget_s": budget,
        "stages": {st: {"units": todo[st], "completed": done[st]} for st in stages},
        "stages_completed": stages_completed,
        "bound_completed": bound_completed,
        "strata": dict(sorted(total.strata.items())),
        "distinct_outcomes": len(total.outcomes),
        "notes": dict(total.notes),
        "known_findings_matched": known_hits,
        "fresh_violation_signatures": len(fresh),
        "workers": nworkers,
        "units": len(unit_times),
        "repo": boot.REPO,
    }
    if mod.LEVEL == "model_checking":
        cov.update(states=total.states, transitions=total.transitions,
                   traces_validated_against_impl=total.traces, max_depth=total.max_depth)
    if hasattr(mod, "finalize"):
        cov.update(mod.finalize(total, a.tier) or {})
    ev = {
        "property_id": pid,
        "tier": a.tier,
        "seed": seed,
        "level": mod.LEVEL,
        "coverage": cov,
        "assumptions": list(getattr(mod, "ASSUMPTIONS", [])),
        "wall_s": round(wall, 2),
        "violations": reported,
    }
    if not a.no_evidence:
        try:
            import jsonschema

            with open("/root/.vp/EVIDENCE.schema.json") as fh:
                jsonschema.validate(ev, json.load(fh))
        except FileNotFoundError:
            pass
        except Exception as e:  # noqa: BLE001
            print(f"HARNESS-ERROR property={pid}: evidence does not validate: {str(e)[:400]}")
            return 2
        os.makedirs(os.path.join(boot.VERIF, "evidence"), exist_ok=True)
        with open(os.path.join(boot.VERIF, "evidence", f"{pid}.json"), "w") as fh:
            json.dump(ev, fh, indent=1, sort_keys=True, default=str)
    extra = ""
    if mod.LEVEL == "model_checking":
        extra = f" states={total.states} transitions={total.transitions} traces={total.traces}"
    print(f"{pid} tier={a.tier} seed={seed} evaluations={total.evaluations} nontrivial={len(total.nontrivial)}"
          f"{extra} outcomes={len(total.outcomes)} bound_completed={bound_completed} cap_hit={cap_hit}"
          f" known={sum(known_hits.values())} violations={reported} wall={wall:.1f}s")
    return rc


if __name__ == "__main__":
    sys.exit(main())
