"""The two generic explorers (DESIGN.md §3.1).

ChoiceDFS  — stateless exploration of an execution's choice points with iterative deviation bounding and
             prefix replay. `run(chooser)` executes the real code once; every nondeterministic point calls
             chooser.choose(n[, costs]).
StateBFS   — explicit-state breadth-first search over the state of a REAL object; a state is reached by
             replaying an operation history on a fresh object; states are merged by a canonical form of the
             implementation's own state.
"""
from __future__ import annotations

import collections
from typing import Any, Callable, Iterable


class Divergence(RuntimeError):
    """Replaying a prefix did not reach the same choice point — a harness error, never a verdict."""


class Chooser:
    def __init__(self, prefix: Iterable[int] = ()) -> None:
        self.prefix = list(prefix)
        self.trace: list[tuple[int, int, tuple[int, ...]]] = []  # (choice, n_enabled, costs)
        self.labels: list[Any] = []

    def choose(self, n: int, costs: tuple[int, ...] | None = None, label: Any = None) -> int:
        """n enabled alternatives in canonical order, alternative 0 is the default; costs[k] = deviation cost of k."""
        if n <= 0:
            raise Divergence("choice point without alternatives")
        if costs is None:
            costs = (0,) + (1,) * (n - 1)
        i = len(self.trace)
        if i < len(self.prefix):
            c = self.prefix[i]
            if c >= n:
                raise Divergence(f"prefix asks for alternative {c} of {n} at point {i}")
        else:
            c = 0
        self.trace.append((c, n, tuple(costs)))
        self.labels.append(label)
        return c

    @property
    def choices(self) -> list[int]:
        return [t[0] for t in self.trace]

    def cost(self, upto: int | None = None) -> int:
        tr = self.trace if upto is None else self.trace[:upto]
        return sum(costs[c] for c, _n, costs in tr)


def choice_dfs(run: Callable[[Chooser], Any], bound: int, max_executions: int | None = None, shard: tuple[int, int] | None = None):
    """Yield (chooser, observation) for every execution with total deviation cost <= bound.

    Every execution runs to completion. Alternatives are only branched at points beyond the replayed prefix, so each
    choice sequence is executed exactly once.

    shard=(k, n): the search tree is split below its root - every shard runs the root execution (to learn its branching
    points), shard 0 reports it, and the root's child prefixes are dealt round-robin to the n shards; the union of the
    shards is exactly the unsharded enumeration."""
    stack: list[list[int]] = [[]]
    n = 0
    root = True
    while stack:
        prefix = stack.pop()
        ch = Chooser(prefix)
        obs = run(ch)
        if len(ch.trace) < len(prefix):
            raise Divergence(f"execution ended after {len(ch.trace)} points, prefix has {len(prefix)}")
        if not (root and shard is not None and shard[0] != 0):
            n += 1
            yield ch, obs
        if max_executions is not None and n >= max_executions:
            return
        base = ch.cost(len(prefix))
        children = []
        for i in range(len(prefix), len(ch.trace)):
            c, nalt, costs = ch.trace[i]
            for alt in range(nalt - 1, 0, -1):
                if base + costs[alt] <= bound:
                    children.append(ch.choices[:i] + [alt])
            base += costs[c]
        if root and shard is not None:
            children = [c for j, c in enumerate(children) if j % shard[1] == shard[0]]
        stack.extend(children)
        root = False


class BFSResult:
    def __init__(self) -> None:
        self.states = 0
        self.transitions = 0
        self.max_depth = 0
        self.saturated = False


def state_bfs(build: Callable[[list], Any], ops_of: Callable[[Any, list], Iterable[Any]], canon: Callable[[Any], Any],
              on_transition: Callable[[list, Any, Any], None], max_depth: int, on_state: Callable[[list, Any], None] | None = None,
              max_states: int | None = None) -> BFSResult:
    """Explicit-state BFS. build(history) -> fresh real object with history replayed (and checked by the caller's
    on_transition for the LAST operation only: on_transition(history_before, op, obj_after_building_history+op) is the
    caller's job inside build if it wants return values). To keep the real object authoritative the search re-builds:
    for state reached by `hist`, for each op: obj = build(hist + [op]); on_transition(hist, op, obj); canon(obj)."""
    res = BFSResult()
    root = build([])
    seen = {canon(root)}
    if on_state:
        on_state([], root)
    frontier = collections.deque([[]])
    res.states = 1
    while frontier:
        hist = frontier.popleft()
        if len(hist) >= max_depth:
            continue
        obj0 = build(hist) if hist else root
        for op in ops_of(obj0, hist):
            obj = build(hist + [op])
            res.transitions += 1
            on_transition(hist, op, obj)
            k = canon(obj)
            if k not in seen:
                seen.add(k)
                res.states += 1
                res.max_depth = max(res.max_depth, len(hist) + 1)
                if on_state:
                    on_state(hist + [op], obj)
                frontier.append(hist + [op])
                if max_states is not None and res.states >= max_states:
                    return res
    res.saturated = True
    return res
