"""G-MAP: bounded-exhaustive generator of MapSpec pipelines + conforming inputs + reference denotation
(DESIGN.md §4.3, §4.4).

A spec is a JSON-able dict:
  roots:  {name: [axis names]}          ([] = scalar, unmapped root input)
  sizes:  {axis name: size}
  funcs:  [{name, params, ms, out_axes, internal, outs, ishape_via}]
     ms       None = no MapSpec; {} = generator '... -> v[u]'; else {param: [axis | None(':') ...]};
              parameters not in ms are delivered whole
     out_axes output axis names in order (named input axes in some order + internal axes at any position)
     internal the out_axes that name no input (filled from the returned array)
Only requests that are valid by the MapSpec rules are generated (validity is by construction, independent of
pipefunc): every named input axis appears in the output, one axis-name tuple per array across all specs, zipped
axes have equal sizes (sizes are per axis NAME), internal shapes are always declared.
"""
from __future__ import annotations

import contextlib
import copy
import io
import itertools
import json

import numpy as np
from pipefunc import PipeFunc, Pipeline

from . import terms

DEFAULT_SIZES = {"i": 2, "j": 3, "k": 2, "u": 2, "w": 3, "m": 2}


def key(spec) -> str:
    return json.dumps(spec, sort_keys=True)


# ------------------------------------------------------------------------------------------------
# MapSpec strings, inputs
# ------------------------------------------------------------------------------------------------
def spec_str(fn) -> str | None:
    if fn["ms"] is None:
        return None
    ins = ", ".join(f"{p}[{', '.join(a or ':' for a in axes)}]" for p, axes in fn["ms"].items()) or "..."
    outs = ", ".join(f"{o}[{', '.join(fn['out_axes'])}]" for o in fn["outs"])
    return f"{ins} -> {outs}"


def make_inputs(spec, form="auto"):
    """distinct string elements: x0, x1 … / x01 for 2-D; form: 'list' (rank-1 as list), 'ndarray', 'auto'=list for rank 1"""
    sizes = spec["sizes"]
    inp = {}
    for r, axes in spec["roots"].items():
        if not axes:
            inp[r] = f"<{r}>"
            continue
        shape = tuple(sizes[a] for a in axes)
        arr = np.empty(shape, dtype=object)
        for idx in itertools.product(*map(range, shape)):
            arr[idx] = r + "".join(map(str, idx))
        inp[r] = list(arr) if (len(shape) == 1 and form in ("list", "auto")) else arr
    return inp


def internal_shapes_arg(spec):
    """internal_shapes= argument for map() for functions that do not declare it on the PipeFunc"""
    d = {}
    for fn in spec["funcs"]:
        if fn["internal"] and fn.get("ishape_via", "map") == "map":
            for o in fn["outs"]:
                d[o] = tuple(spec["sizes"][a] for a in fn["internal"])
    return d or None


def build_funcs(spec, hook=None, cache=None, declared_sizes=None, ishape_int=False, pf_kwargs=None):
    """declared_sizes: sizes used ONLY for the internal_shape declared on the PipeFunc (the bodies return spec["sizes"])"""
    pfs = []
    for k, fn in enumerate(spec["funcs"]):
        ishape = tuple(spec["sizes"][a] for a in fn["internal"])
        body = terms.make_function(fn["name"], list(fn["params"]), len(fn["outs"]), ishape, hook=hook, returns_none=bool(fn.get("none")),
                                   dict_keys=list(fn["outs"]) if fn.get("picker") else None, one_tuple=bool(fn.get("one_tuple")), list_len=int(fn.get("list_out", 0)))
        kw = {}
        if fn["internal"] and fn.get("ishape_via", "map") == "pipefunc":
            kw["internal_shape"] = ishape if declared_sizes is None else tuple(declared_sizes[a] for a in fn["internal"])
            if ishape_int and len(kw["internal_shape"]) == 1:
                kw["internal_shape"] = kw["internal_shape"][0]  # the int spelling of a one-axis internal shape
        if cache is not None:
            kw["cache"] = bool(cache[k]) if isinstance(cache, (list, tuple)) else bool(cache)
        if pf_kwargs:
            kw.update(pf_kwargs)
        if fn.get("picker"):  # the function returns {output name: value}; a custom output_picker selects by name
            from .gen_dag import pick_by_name
            kw["output_picker"] = pick_by_name
        out_name = fn["outs"][0] if len(fn["outs"]) == 1 and not fn.get("one_tuple") else tuple(fn["outs"])
        pfs.append(PipeFunc(body, out_name, mapspec=spec_str(fn), **kw))
    return pfs


def build(spec, hook=None, **pipeline_kw) -> Pipeline:
    with contextlib.redirect_stdout(io.StringIO()):
        return Pipeline(build_funcs(spec, hook=hook, cache=pipeline_kw.pop("cache", None), pf_kwargs=pipeline_kw.pop("pf_kwargs", None)), **pipeline_kw)


# ------------------------------------------------------------------------------------------------
# reference denotation
# ------------------------------------------------------------------------------------------------
def _arr(v):
    if isinstance(v, np.ndarray):
        return v
    a = np.empty(len(v), dtype=object)
    for i, e in enumerate(v):
        a[i] = e
    return a


def ref_map(spec, inputs):
    """name -> value for every root and output; also returns per-function expected call counts and call args"""
    sizes = spec["sizes"]
    env = dict(inputs)
    calls = {}
    for fn in spec["funcs"]:
        name, params, outs, internal = fn["name"], fn["params"], fn["outs"], fn["internal"]
        tags = [name] if len(outs) == 1 else [f"{name}.{k}" for k in range(len(outs))]
        ishape = tuple(sizes[a] for a in internal)
        if not fn["ms"]:  # no MapSpec, or generator: called once on whole arrays
            args = ",".join(terms.T(env[p]) for p in params)
            calls[name] = [args]
            for o, tag in zip(outs, tags):
                env[o] = None if fn.get("none") else terms.term_array(tag, args, ishape) if internal else f"{tag}({args})"
                if fn.get("list_out"):
                    env[o] = [f"{tag}.{k}({args})" for k in range(fn["list_out"])]
            continue
        ext = [a for a in fn["out_axes"] if a not in internal]
        size = {}
        for p, axes in fn["ms"].items():
            arr = _arr(env[p])
            for d, a in enumerate(axes):
                if a:
                    assert size.get(a, arr.shape[d]) == arr.shape[d], "generator produced a zip of unequal sizes"
                    size[a] = arr.shape[d]
        for a in internal:
            size[a] = sizes[a]
        oshape = tuple(size[a] for a in fn["out_axes"])
        res = {o: np.empty(oshape, dtype=object) for o in outs}
        calls[name] = []
        for eidx in itertools.product(*(range(size[a]) for a in ext)):
            ids = dict(zip(ext, eidx))
            vals = {}
            for p in params:
                if p in fn["ms"]:
                    vals[p] = _arr(env[p])[tuple(ids[a] if a else slice(None) for a in fn["ms"][p])]
                else:
                    vals[p] = env[p]
            args = ",".join(terms.T(vals[p]) for p in params)
            calls[name].append(args)
            for iidx in itertools.product(*(range(size[a]) for a in internal)):
                ii = dict(zip(internal, iidx))
                full = tuple(ids[a] if a in ids else ii[a] for a in fn["out_axes"])
                for o, tag in zip(outs, tags):
                    res[o][full] = None if fn.get("none") else f"{tag}{list(iidx)}({args})" if internal else f"{tag}({args})"
        env.update(res)
    return env, calls


def swapped(spec, k):
    """the same pipeline with function k's two parameters (and its MapSpec inputs) in the opposite order"""
    s = copy.deepcopy(spec)
    fn = s["funcs"][k]
    fn["params"] = list(reversed(fn["params"]))
    if fn["ms"] is not None:
        fn["ms"] = {p: fn["ms"][p] for p in fn["params"] if p in fn["ms"]}
    return s


def output_axes(spec) -> dict:
    """array name -> tuple of axis names (roots and outputs)"""
    ax = {r: tuple(a) for r, a in spec["roots"].items()}
    for fn in spec["funcs"]:
        for o in fn["outs"]:
            ax[o] = tuple(fn["out_axes"]) if fn["ms"] is not None else tuple(fn["internal"])
    return ax


# ------------------------------------------------------------------------------------------------
# enumeration
# ------------------------------------------------------------------------------------------------
def _patterns(axes, allow_whole=True):
    """ways one consumer can take an array with these axis names: all named / exactly one ':' / whole"""
    axes = tuple(axes)
    opts = [list(axes)]
    for d in range(len(axes)):
        opts.append([None if e == d else a for e, a in enumerate(axes)])
    if len(axes) >= 2:
        opts.append([None] * len(axes))  # all ':' (full reduction written explicitly)
    if allow_whole:
        opts.append("whole")
    return opts


def _perms(kept, rich):
    kept = tuple(kept)
    if len(kept) < 2:
        return [kept]
    if len(kept) == 2 or not rich:
        return [kept, tuple(reversed(kept))]
    return list(itertools.permutations(kept))


def functions_over(avail, name, outs_opts, used_axes, internal_names, max_internal=1, rich=False, must_use=None,
                   no_ms_internal=True, vias=("map", "pipefunc")):
    """every function named `name` consuming 1..2 of the arrays in `avail` ({array: axes})"""
    names = list(avail)
    for r in (1, 2):
        for arrs in itertools.combinations(names, r):
            if must_use and not (set(must_use) <= set(arrs)):
                continue
            pats = [_patterns(avail[a]) if avail[a] else ["whole"] for a in arrs]
            for combo in itertools.product(*pats):
                ms = {a: list(p) for a, p in zip(arrs, combo) if p != "whole"}
                kept = []
                for p in ms.values():
                    for ax in p:
                        if ax and ax not in kept:
                            kept.append(ax)
                fresh = [n for n in internal_names if n not in used_axes]
                if not ms:
                    # no MapSpec at all: called once on whole arrays; may return an array (internal axes) that a
                    # consumer indexes (autogenerated MapSpec)
                    for outs in outs_opts:
                        yield {"name": name, "params": list(arrs), "ms": None, "out_axes": [], "internal": [], "outs": list(outs)}
                        if no_ms_internal and fresh and max_internal >= 1:
                            yield {"name": name, "params": list(arrs), "ms": None, "out_axes": [], "internal": [fresh[0]], "outs": list(outs)}
                    continue
                for perm in _perms(kept, rich):
                    int_opts = [((), perm)]
                    for pos in range(len(perm) + 1):
                        if fresh and max_internal >= 1:
                            int_opts.append(((fresh[0],), perm[:pos] + (fresh[0],) + perm[pos:]))
                    if max_internal >= 2 and len(fresh) >= 2:
                        for p1 in range(len(perm) + 1):
                            base = perm[:p1] + (fresh[0],) + perm[p1:]
                            for p2 in range(len(base) + 1):
                                int_opts.append(((fresh[0], fresh[1]), base[:p2] + (fresh[1],) + base[p2:]))
                    for internal, oa in int_opts:
                        if not oa:
                            continue  # a MapSpec needs at least one output axis
                        internal = [a for a in oa if a in internal]
                        for outs in outs_opts:
                            for via in (vias if internal else ("map",)):
                                yield {"name": name, "params": list(arrs), "ms": copy.deepcopy(ms), "out_axes": list(oa),
                                       "internal": list(internal), "outs": list(outs), "ishape_via": via}


ROOT_SETS_QUICK = [
    {"x": ["i"]},
    {"x": ["i"], "y": ["i"]},
    {"x": ["i"], "y": ["j"]},
    {"x": ["i", "j"]},
    {"x": ["i", "j"], "y": ["j"]},
    {"x": ["i"], "n": []},
]
ROOT_SETS_THOROUGH = ROOT_SETS_QUICK + [
    {"x": ["i", "j", "k"]},
    {"x": ["i", "j"], "y": ["k"]},
    {"x": ["i", "j"], "y": ["i", "j"]},
    {"x": ["i", "j"], "y": ["j", "i"]},
]


def _used_axes(roots, funcs):
    s = {a for axes in roots.values() for a in axes}
    for f in funcs:
        s |= set(f["out_axes"]) | set(f["internal"])
    return s


def pipelines(nfuncs=2, tier="quick", sizes=None, *, roots_opts=None, f_internal=None, f_outs=None, extras="all", g_internal=None,
              h_extras=(None, "a"), shard=None):  # noqa: C901, PLR0912, PLR0913
    """yield specs with 1..nfuncs functions.

    tier "quick" is the base family (rank <= 2 roots, <= 1 internal axis per pipeline). The keyword knobs select other
    families explicitly (the full "everything at once" product has > 10^7 two-function pipelines and is never enumerated):
      roots_opts   list of root sets                       (default ROOT_SETS_QUICK; "thorough" adds rank 3 / 2-D zips)
      f_internal   max internal axes of the first function  (default 1)
      f_outs       output tuples of the first function      (default one and two outputs)
      extras       "all" | "none": whether the second function takes a second array (sibling, root again, new root)
      g_internal   max internal axes of the second function (default: 1 if the first has none, else 0)
      shard        (k, n): only the (root set, first function) pairs with index % n == k
    """
    sizes = dict(sizes or DEFAULT_SIZES)
    rich = tier == "thorough"
    roots_opts = roots_opts or (ROOT_SETS_THOROUGH if rich else ROOT_SETS_QUICK)
    max_internal = f_internal if f_internal is not None else 1
    f_outs = f_outs or [("a",), ("a", "b")]
    idx = -1
    for roots in roots_opts:
        for f1 in functions_over(roots, "f", f_outs, _used_axes(roots, []), ["u", "w"], max_internal, rich,
                                 must_use=list(roots)):
            if len(f1["params"]) != len(roots):
                continue  # every root must be consumed, otherwise it is a surplus input
            idx += 1
            if shard is not None and idx % shard[1] != shard[0]:
                continue
            s1 = {"roots": roots, "sizes": sizes, "funcs": [f1]}
            yield s1
            if nfuncs < 2:
                continue
            ax1 = output_axes(s1)
            out_arrays = {o: ax1[o] for o in f1["outs"]}
            # second function: consumes 'a' (+ optionally 'b', a root again, or a new root z)
            extra_opts = [None]
            if extras == "all":
                if "b" in out_arrays:
                    extra_opts.append(("b", out_arrays["b"]))
                extra_opts.append(("x", tuple(roots["x"])))
                used1 = _used_axes(roots, [f1])
                if ax1["a"]:
                    extra_opts.append(("z", (ax1["a"][0],)))  # new root zipped with the first axis of a
                if "k" not in used1:
                    extra_opts.append(("z", ("k",)))          # new root on a fresh axis: outer product
                extra_opts.append(("z", ()))                  # new scalar root
            for extra in extra_opts:
                avail = {"a": out_arrays["a"]}
                roots2 = dict(roots)
                if extra:
                    avail[extra[0]] = extra[1]
                    if extra[0] == "z":
                        roots2 = {**roots, "z": list(extra[1])}
                # base bound: at most one internal axis per pipeline, internal shape declared on the PipeFunc for f and
                # through map(internal_shapes=) for g
                g_int = g_internal if g_internal is not None else (1 if not f1["internal"] else 0)
                for f2 in functions_over(avail, "g", [("c",)], _used_axes(roots2, [f1]), ["w", "m"], g_int, rich, must_use=list(avail),
                                         no_ms_internal=False, vias=("map",)):
                    if f1.get("ishape_via") == "map" and f1["internal"]:
                        break
                    s2 = {"roots": roots2, "sizes": sizes, "funcs": [f1, f2]}
                    yield s2
                    if nfuncs < 3:
                        continue
                    ax2 = output_axes(s2)
                    for extra3 in h_extras:
                        avail3 = {"c": ax2["c"]}
                        if extra3:
                            avail3["a"] = ax2["a"]
                        for f3 in functions_over(avail3, "h", [("d",)], _used_axes(roots2, [f1, f2]), ["m"], 1, False, must_use=list(avail3),
                                                 no_ms_internal=False):
                            yield {"roots": roots2, "sizes": sizes, "funcs": [f1, f2, f3]}


def features(spec) -> set[str]:
    fs = set()
    ax = output_axes(spec)
    for fn in spec["funcs"]:
        ms = fn["ms"]
        if ms is None:
            fs.add("no-mapspec")
            if fn["internal"]:
                fs.add("no-mapspec-returns-array")
            continue
        if not ms:
            fs.add("generator")
        named = [a for p in ms.values() for a in p if a]
        if any(None in p for p in ms.values()):
            fs.add("partial-reduction")
        if len(ms) >= 2:
            sets = [set(a for a in p if a) for p in ms.values()]
            if sets[0] & sets[1]:
                fs.add("zip")
            if sets[0] - sets[1] or sets[1] - sets[0]:
                fs.add("outer-product")
        if any(p not in ms and ax.get(p) for p in fn["params"]):
            fs.add("full-reduction")
        if fn["internal"]:
            fs.add("internal-axis")
            pos = [fn["out_axes"].index(a) for a in fn["internal"]]
            if any(q < len(fn["out_axes"]) - len(fn["internal"]) for q in pos):
                fs.add("internal-axis-not-last")
            if fn.get("ishape_via") == "pipefunc":
                fs.add("internal-shape-on-pipefunc")
        if len(fn["outs"]) > 1:
            fs.add("tuple-output")
        ext = [a for a in fn["out_axes"] if a not in fn["internal"]]
        first = []
        for a in named:
            if a not in first:
                first.append(a)
        if ext != first:
            fs.add("permuted-output-axes")
        if len(ext) >= 2:
            fs.add("rank>=2-map")
    for fn in spec["funcs"]:
        if fn["ms"]:
            for p in fn["ms"]:
                prod = next((g for g in spec["funcs"] if p in g["outs"]), None)
                if prod is not None and prod["ms"] is None:
                    fs.add("autogenerated-mapspec")
    return fs


def nontrivial(spec) -> bool:
    fs = features(spec)
    mapped = any(fn["ms"] for fn in spec["funcs"])
    return mapped and bool(fs & {"zip", "outer-product", "partial-reduction", "internal-axis", "tuple-output", "full-reduction"})
