"""Baton-passing thread scheduler + fake multiprocessing.Manager (DESIGN.md §3.1, §5 C14).

Logical threads are real OS threads, but exactly one runs at a time: a thread runs until it reaches a scheduling
point (every method of a manager proxy object, every lock acquire/release), hands the baton back to the scheduler,
and the scheduler asks the Chooser which enabled thread continues. Switching away from a thread that is still enabled
costs one preemption. A scheduling point reached by a thread that is not the currently scheduled logical thread
(object construction before the threads start, the harness inspecting a proxy) is a no-op.
"""
from __future__ import annotations

import threading
from typing import Any, Callable

from .explore import Chooser

HORIZON = 5000
_S: "Sched | None" = None


def current() -> "Sched | None":
    return _S


def point(label: Any = None) -> None:
    s = _S
    if s is not None:
        s.point(label)


class Sched:
    def __init__(self, chooser: Chooser, strict_costs: bool = False) -> None:
        self.ch = chooser
        self.strict_costs = strict_costs  # every departure from the default successor costs 1 (also when the running thread ended)
        self.threads: dict[int, tuple[threading.Thread, threading.Semaphore]] = {}
        self.blocked: dict[int, Callable[[], bool]] = {}
        self.done: set[int] = set()
        self.cur: int | None = None
        self.main = threading.Semaphore(0)
        self.npoints = 0
        self.log: list = []

    def spawn(self, tid: int, fn: Callable[[], None]) -> None:
        sem = threading.Semaphore(0)

        def body() -> None:
            sem.acquire()
            try:
                fn()
            finally:
                self.done.add(tid)
                self.main.release()

        t = threading.Thread(target=body, daemon=True)
        self.threads[tid] = (t, sem)
        t.start()

    def point(self, label: Any = None) -> None:
        tid = self.cur
        if tid is None or threading.current_thread() is not self.threads[tid][0]:
            return  # not a scheduled logical thread: no-op
        self.main.release()
        self.threads[tid][1].acquire()

    def enabled(self) -> list[int]:
        return [t for t in sorted(self.threads) if t not in self.done and not (t in self.blocked and self.blocked[t]())]

    def run(self) -> str:
        global _S
        _S = self
        try:
            while True:
                en = self.enabled()
                if not en:
                    self.cur = None
                    return "ok" if len(self.done) == len(self.threads) else "deadlock"
                running_enabled = self.cur in en
                if running_enabled:
                    en = [self.cur] + [t for t in en if t != self.cur]
                    costs = (0,) + (1,) * (len(en) - 1)  # leaving a runnable thread is a preemption
                elif self.strict_costs:
                    costs = (0,) + (1,) * (len(en) - 1)
                else:
                    costs = (0,) * len(en)
                c = self.ch.choose(len(en), costs, label=tuple(en))
                self.cur = en[c]
                self.log.append(self.cur)
                self.threads[self.cur][1].release()
                self.main.acquire()
                self.npoints += 1
                if self.npoints > HORIZON:
                    return "livelock"
        finally:
            _S = None


# ------------------------------------------------------------------------------------------------
# fake manager: every proxy method is a scheduling point (a real proxy call is one serialized RPC)
# ------------------------------------------------------------------------------------------------
class SchedDict(dict):
    def __contains__(self, k):
        point(("dict.contains", k))
        return dict.__contains__(self, k)

    def __getitem__(self, k):
        point(("dict.get", k))
        return dict.__getitem__(self, k)

    def __setitem__(self, k, v):
        point(("dict.set", k))
        return dict.__setitem__(self, k, v)

    def __delitem__(self, k):
        point(("dict.del", k))
        return dict.__delitem__(self, k)

    def pop(self, *a):
        point(("dict.pop",))
        return dict.pop(self, *a)

    def __len__(self):
        point(("dict.len",))
        return dict.__len__(self)

    def keys(self):
        point(("dict.keys",))
        return list(dict.keys(self))

    def values(self):
        point(("dict.values",))
        return list(dict.values(self))

    def items(self):
        point(("dict.items",))
        return list(dict.items(self))

    def clear(self):
        point(("dict.clear",))
        return dict.clear(self)

    def get(self, *a):
        point(("dict.get",))
        return dict.get(self, *a)


class SchedList(list):
    def remove(self, x):
        point(("list.remove", x))
        return list.remove(self, x)

    def append(self, x):
        point(("list.append", x))
        return list.append(self, x)

    def pop(self, *a):
        point(("list.pop",))
        return list.pop(self, *a)

    def __len__(self):
        point(("list.len",))
        return list.__len__(self)

    def __delitem__(self, k):
        point(("list.del",))
        return list.__delitem__(self, k)


class SchedLock:
    def __init__(self) -> None:
        self.owner: Any = None

    def acquire(self) -> bool:
        s = _S
        point(("lock.acquire",))
        if s is None or s.cur is None or threading.current_thread() is not s.threads[s.cur][0]:
            self.owner = "outside"
            return True
        me = s.cur
        while self.owner is not None:
            s.blocked[me] = lambda: self.owner is not None
            s.point(("lock.blocked",))
        s.blocked.pop(me, None)
        self.owner = me
        return True

    def release(self) -> None:
        self.owner = None
        point(("lock.release",))

    def __enter__(self):
        self.acquire()
        return self

    def __exit__(self, *a):
        self.release()


class FakeManager:
    def dict(self, *a):
        return SchedDict(*a)

    def list(self, *a):
        return SchedList(*a)

    def Lock(self):  # noqa: N802
        return SchedLock()


# ------------------------------------------------------------------------------------------------
# an Executor whose tasks are logical (baton) threads: the tasks submitted before the first result() is awaited run
# concurrently under the scheduler, interleaved at every scheduling point (manager-proxy operations, locks)
# ------------------------------------------------------------------------------------------------
from concurrent.futures import Executor, Future  # noqa: E402


class _BatonFuture(Future):
    def __init__(self, ex):
        super().__init__()
        self._ex = ex

    def result(self, timeout=None):
        if not self.done():
            self._ex.drive()
        return super().result(0)

    def exception(self, timeout=None):
        if not self.done():
            self._ex.drive()
        return super().exception(0)


class BatonExecutor(Executor):
    """every batch of submitted tasks is executed as one set of logical threads under a fresh Sched sharing one Chooser"""

    def __init__(self, chooser: Chooser, trace_files: tuple[str, ...] = ()) -> None:
        self.chooser = chooser
        self.batch: list = []
        self.status: list[str] = []
        # line-level preemption: every source line executed by a task inside a file whose path contains one of these
        # fragments is a scheduling point (unsynchronised shared state in that code has no lock or proxy call to stop at)
        self.trace_files = tuple(trace_files)

    def _tracer(self):
        frags = self.trace_files

        def local(frame, event, arg):
            if event == "line":
                point(("line", frame.f_code.co_name, frame.f_lineno))
            return local

        def glob(frame, event, arg):
            if event == "call":
                fn = frame.f_code.co_filename
                if any(fr in fn for fr in frags):
                    return local
            return None
        return glob

    def submit(self, fn, /, *args, **kwargs):
        f = _BatonFuture(self)
        self.batch.append((f, fn, args, kwargs))
        return f

    def drive(self) -> None:
        batch, self.batch = self.batch, []
        if not batch:
            return
        s = Sched(self.chooser, strict_costs=bool(self.trace_files))

        def body(f, fn, args, kwargs):
            def run():
                import sys
                if self.trace_files:
                    sys.settrace(self._tracer())
                try:
                    r = fn(*args, **kwargs)
                    sys.settrace(None)
                    f.set_result(r)
                except BaseException as e:  # noqa: BLE001
                    sys.settrace(None)
                    f.set_exception(e)
            return run

        for tid, (f, fn, args, kwargs) in enumerate(batch):
            s.spawn(tid, body(f, fn, args, kwargs))
        st = s.run()
        self.status.append(st)
        if st != "ok":
            for f, *_ in batch:
                if not f.done():
                    f.set_exception(RuntimeError(f"scheduler: {st}"))

    def shutdown(self, wait=True, *, cancel_futures=False):
        pass
