"""File-system event numbering + process death at event k (DESIGN.md §5 C05).

Inside a forked child, every file-system event below ROOT is numbered:
  os.mkdir / os.remove (unlink) / os.rmdir / os.rename (also os.replace)    — via sys.addaudithook
  open-for-write (creation/truncation), every write that reaches the kernel, close — via a wrapper returned by the
                                                                              patched io.open / builtins.open that buffers
                                                                              like io.BufferedWriter (8 KiB, flush, close)
When the counter reaches crash_at=(k, fraction) the child dies with os._exit(77) *before* performing event k (for a write:
after writing the first `fraction` of the bytes). Process death model: completed writes survive, nothing is reordered.
"""
from __future__ import annotations

import builtins
import io
import json
import os
import pickle
import sys
import traceback

CRASH_EXIT = 77
_real_open = io.open
_installed = False


class Ctl:
    root: str | None = None
    crash_at: tuple[int, float] | None = None
    n = 0
    log: list = []

    @classmethod
    def reset(cls, root, crash_at):
        cls.root, cls.crash_at, cls.n, cls.log = os.path.abspath(root), crash_at, 0, []

    @classmethod
    def event(cls, kind, path, extra=None) -> bool:
        """returns True if the process must die now"""
        cls.n += 1
        cls.log.append([cls.n, kind, os.path.relpath(str(path), cls.root), extra])
        return cls.crash_at is not None and cls.n == cls.crash_at[0]


def _die():
    os._exit(CRASH_EXIT)


BUFSIZE = 8192  # io.DEFAULT_BUFFER_SIZE: what open() gives a regular file


class WFile:
    """write-only file object that reports open/write/close events. It buffers like io.BufferedWriter: data reaches the
    kernel (one numbered `write` event) only when the buffer is full, on flush() and on close() — so the kernel state at a
    crash point equals what a real process would have written by then (a small pickle is written at close, not at dump)"""

    def __init__(self, path, mode):
        self.path, self.mode = path, mode
        flags = os.O_WRONLY | os.O_CREAT | (os.O_APPEND if "a" in mode else os.O_TRUNC)
        if "x" in mode:
            flags |= os.O_EXCL
        self.fd = os.open(path, flags, 0o644)
        self.closed = False
        self.name = path
        self.buf = bytearray()

    def _emit(self, b):
        b = bytes(b)
        if not b:
            return
        if Ctl.event("write", self.path, len(b)):
            frac = Ctl.crash_at[1]
            os.write(self.fd, b[: int(len(b) * frac)])
            _die()
        os.write(self.fd, b)

    def write(self, data):
        b = data.encode() if isinstance(data, str) else bytes(data)
        self.buf += b
        while len(self.buf) >= BUFSIZE:
            chunk, self.buf = self.buf[:BUFSIZE], self.buf[BUFSIZE:]
            self._emit(chunk)
        return len(data)

    def flush(self):
        if self.buf:
            b, self.buf = self.buf, bytearray()
            self._emit(b)

    def close(self):
        if not self.closed:
            self.flush()
            if Ctl.event("close", self.path):
                _die()
            os.close(self.fd)
            self.closed = True

    def __enter__(self):
        return self

    def __exit__(self, *a):
        self.close()

    def writable(self):
        return True

    def readable(self):
        return False

    def seekable(self):
        return False

    def fileno(self):
        return self.fd

    def __del__(self):
        if not self.closed:
            try:
                os.close(self.fd)
            except OSError:
                pass


def _open(file, mode="r", *a, **kw):
    if Ctl.root is not None and not isinstance(file, int):
        try:
            p = os.path.abspath(os.fspath(file))
        except TypeError:
            p = None
        if p is not None and p.startswith(Ctl.root) and any(c in mode for c in "wax+"):
            if Ctl.event("open", p, mode):
                _die()
            return WFile(p, mode)
    return _real_open(file, mode, *a, **kw)


def _hook(ev, args):
    if Ctl.root is None:
        return
    if ev in ("os.mkdir", "os.remove", "os.rmdir", "os.rename"):
        try:
            p = os.fspath(args[0])
            if isinstance(p, bytes):
                p = p.decode()
            dir_fd = args[2] if ev == "os.rename" else args[-1]
            if isinstance(dir_fd, int) and dir_fd >= 0:
                p = os.path.join(os.readlink(f"/proc/self/fd/{dir_fd}"), p)
            ap = os.path.abspath(p)
        except Exception:  # noqa: BLE001
            return
        if not ap.startswith(Ctl.root):
            return
        extra = None
        if ev == "os.rename":
            try:
                extra = os.path.relpath(os.path.abspath(os.fspath(args[1])), Ctl.root)
            except Exception:  # noqa: BLE001
                extra = None
        if Ctl.event(ev, ap, extra):
            _die()


def install():
    global _installed
    if _installed:
        return
    sys.addaudithook(_hook)
    io.open = _open
    builtins.open = _open
    _installed = True


def run_in_child(fn, root, crash_at=None):
    """fork; in the child number events below `root`, call fn() and ship its (picklable) result back through a file
    (a pipe would be kept open by any helper process the child starts, e.g. a multiprocessing manager).
    returns (exit_code, result | None) — exit_code 77 = died at the crash point."""
    install()
    import tempfile
    fd, out = tempfile.mkstemp(prefix="vmc-child-", dir=os.path.dirname(os.path.abspath(root)) or None)
    os.close(fd)
    pid = os.fork()
    if pid == 0:
        code = 0
        try:
            Ctl.reset(root, crash_at)
            try:
                res = {"ok": True, "value": fn()}
            except BaseException as e:  # noqa: BLE001
                res = {"ok": False, "exc": type(e).__name__, "msg": str(e)[:300], "tb": traceback.format_exc()[-1500:]}
                code = 1
            Ctl.root = None
            res["events"] = Ctl.log
            res["n"] = Ctl.n
            with _real_open(out, "wb") as fh:
                fh.write(pickle.dumps(res))
        finally:
            os._exit(code)
    _, st = os.waitpid(pid, 0)
    code = os.waitstatus_to_exitcode(st)
    res = None
    try:
        with _real_open(out, "rb") as fh:
            data = fh.read()
        res = pickle.loads(data) if data else None  # noqa: S301
    finally:
        try:
            os.remove(out)
        except OSError:
            pass
    return code, res


def dumps_events(events) -> str:
    return json.dumps(events)
