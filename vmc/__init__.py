"""vmc — bounded-exhaustive exploration machinery for pipefunc (see /verif/DESIGN.md)."""
from . import boot as _boot

_boot.preboot()
