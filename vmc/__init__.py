"""vmc — bounded-exhaustive exploration machinery for pipefunc (see /verif/DESIGN.md)."""
