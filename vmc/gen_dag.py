"""G-DAG: bounded-exhaustive generator of non-mapped pipelines + reference evaluator (DESIGN.md §4.2, §4.4)."""
from __future__ import annotations

import contextlib
import copy
import io
import itertools
import json

from pipefunc import PipeFunc, Pipeline

from . import terms

ROOTS = ("x", "y")


# ------------------------------------------------------------------------------------------------
# enumeration
# ------------------------------------------------------------------------------------------------
def pick_by_name(output, name):
    """custom output_picker for functions that return {output name: value}"""
    return output[name]


def _key(spec) -> str:
    return json.dumps(spec, sort_keys=True)


def _swap_xy(spec):
    m = {"x": "y", "y": "x"}
    s = copy.deepcopy(spec)
    for f in s["funcs"]:
        f["params"] = sorted((m.get(p, p) for p in f["params"]), key=_pool_order)
    return s


def _pool_order(name: str):
    return (0, name) if name in ROOTS else (1, name[1:], name[0])


def base_specs(n: int, max_params: int = 2, nouts=(1, 2), min_params: int = 0):
    """All pipelines of n functions; f_k takes a subset (size min..max) of roots ∪ earlier outputs."""

    def rec(k, funcs, names):
        if k == n:
            spec = {"funcs": copy.deepcopy(funcs)}
            if _key(spec) <= _key(_swap_xy(spec)):  # merge pipelines equal up to swapping x/y
                yield spec
            return
        pool = list(ROOTS) + names
        for r in range(min_params, max_params + 1):
            for ps in itertools.combinations(pool, r):
                for nout in nouts:
                    outs = [f"o{k}"] if nout == 1 else [f"o{k}", f"p{k}"]
                    yield from rec(k + 1, [*funcs, {"name": f"f{k}", "params": list(ps), "outs": outs}], names + outs)

    yield from rec(0, [], [])


def tri_output_specs():
    """family with a THREE-output producer: f0(subset of roots) -> (o0, p0, q0); f1 takes 1..3 of roots/outputs (one output)"""
    for r0 in range(0, 2):
        for ps0 in itertools.combinations(ROOTS, r0):
            f0 = {"name": "f0", "params": list(ps0), "outs": ["o0", "p0", "q0"]}
            pool = [*ROOTS, "o0", "p0", "q0"]
            for r1 in range(1, 4):
                for ps1 in itertools.combinations(pool, r1):
                    if not any(p in ("o0", "p0", "q0") for p in ps1):
                        continue
                    yield {"funcs": [copy.deepcopy(f0), {"name": "f1", "params": list(ps1), "outs": ["o1"]}]}


def decorations(spec):
    """One decoration at a time (the undecorated spec is NOT included)."""
    prod = {o for f in spec["funcs"] for o in f["outs"]}
    for i, f in enumerate(spec["funcs"]):
        for p in f["params"]:
            if p not in prod:
                for kind in ("sigdef", "pfdef"):
                    s = copy.deepcopy(spec)
                    s["funcs"][i][kind] = {p: "d" + p}
                    s["deco"] = kind
                    yield s
            if p in prod:
                # a signature default on a parameter that IS produced upstream: the upstream value wins, the default only
                # matters when the producer is cut away by supplying ... nothing (it never replaces the computed value)
                s = copy.deepcopy(spec)
                s["funcs"][i]["sigdef"] = {p: "d" + p}
                s["deco"] = "sigdef-on-produced"
                yield s
            s = copy.deepcopy(spec)
            s["funcs"][i]["bound"] = {p: "b" + p}
            s["deco"] = "bound-root" if p not in prod else "bound-upstream"
            yield s
            s = copy.deepcopy(spec)
            s["funcs"][i]["ren"] = {p: p + "_orig"}
            s["deco"] = "rename-param"
            yield s
        for o in f["outs"]:
            s = copy.deepcopy(spec)
            s["funcs"][i]["ren"] = {o: o + "_orig"}
            s["deco"] = "rename-output"
            yield s
        if len(f["outs"]) > 1:
            s = copy.deepcopy(spec)
            s["funcs"][i]["picker"] = True  # the function returns a dict and has a custom output_picker
            s["deco"] = "custom-picker"
            yield s
        if len(f["outs"]) == 1:
            s = copy.deepcopy(spec)
            s["funcs"][i]["none"] = True  # the function returns None (a legitimate value like any other)
            s["deco"] = "returns-none"
            yield s
    # a root parameter shared by two functions with equal defaults
    for p in ROOTS:
        users = [i for i, f in enumerate(spec["funcs"]) if p in f["params"]]
        if len(users) >= 2:
            s = copy.deepcopy(spec)
            for i in users[:2]:
                s["funcs"][i]["sigdef"] = {p: "d" + p}
            s["deco"] = "shared-default"
            yield s


def combo_decorations(spec):
    """Two features combined around renames (not part of `decorations`): original names that collide with NEW names.

    In a spec all names are the pipeline-level (new) names; `ren` maps new -> original. Here the original name of one parameter
    is the new name of another (a swap p<->q, or a chain p<-q<-q_orig), alone and together with a bound value on the other
    parameter and a default (signature / PipeFunc level) on the first - any code that looks a name up in the wrong namespace
    (`_bound`, `_defaults` are keyed by new names, the signature by original names) picks the neighbour's entry.
    """
    prod = {o for f in spec["funcs"] for o in f["outs"]}
    for i, f in enumerate(spec["funcs"]):
        for p, q in itertools.permutations(f["params"], 2):
            for shape in ("swap", "chain"):
                ren = {p: q, q: p} if shape == "swap" else {p: q, q: q + "_orig"}
                if shape == "swap" and p > q:
                    plain = False  # the plain swap is symmetric: once per unordered pair
                else:
                    plain = True
                if plain:
                    s = copy.deepcopy(spec)
                    s["funcs"][i]["ren"] = dict(ren)
                    s["deco"] = f"rename-{shape}"
                    yield s
                s = copy.deepcopy(spec)
                s["funcs"][i]["ren"] = dict(ren)
                s["funcs"][i]["bound"] = {q: "b" + q}
                s["deco"] = f"rename-{shape}+bound"
                yield s
                for kind in ("sigdef", "pfdef"):
                    if p in prod and kind == "pfdef":
                        continue
                    s = copy.deepcopy(spec)
                    s["funcs"][i]["ren"] = dict(ren)
                    s["funcs"][i]["bound"] = {q: "b" + q}
                    s["funcs"][i][kind] = {p: "d" + p}
                    s["deco"] = f"rename-{shape}+bound+{kind}"
                    yield s
                    s = copy.deepcopy(spec)
                    s["funcs"][i]["ren"] = dict(ren)
                    s["funcs"][i][kind] = {p: "d" + p}
                    s["deco"] = f"rename-{shape}+{kind}"
                    yield s
        # a parameter whose ORIGINAL name is the new name of the function's own output
        for p in f["params"]:
            o = f["outs"][0]
            s = copy.deepcopy(spec)
            s["funcs"][i]["ren"] = {p: o, o: o + "_orig"}
            s["deco"] = "rename-param-from-output-name"
            yield s


# ------------------------------------------------------------------------------------------------
# building the real pipeline
# ------------------------------------------------------------------------------------------------
def make_dataclass(tag, params, sigdef, hook=None):
    """a DATACLASS used as the function (PipeFunc supports them: the fields are the parameters, field defaults the signature
    defaults): constructing it logs the call like a term function, and the instance prints and compares as the term"""
    import dataclasses

    def post(self):
        args = ",".join(terms.T(getattr(self, p)) for p in params)
        terms.log_call(tag, args)
        if hook is not None:
            hook(tag, {p: getattr(self, p) for p in params})
        object.__setattr__(self, "_term", f"{tag}({args})")

    fields = [(p, str) if p not in sigdef else (p, str, dataclasses.field(default=sigdef[p])) for p in params]
    cls = dataclasses.make_dataclass(tag, fields, eq=False, namespace={
        "__post_init__": post, "__str__": lambda self: self._term, "__repr__": lambda self: self._term,
        "__eq__": lambda self, other: str(self) == str(other), "__hash__": lambda self: hash(str(self))})
    cls.__module__ = __name__
    return cls


def build_funcs(spec, *, hook=None, cache=None, extra: dict | None = None) -> list[PipeFunc]:
    out = []
    for i, f in enumerate(spec["funcs"]):
        ren = f.get("ren", {})
        # "ren_param_to" {original: new}: a PARAMETER renamed onto a name that `ren` cannot express (e.g. the function's own output name)
        rp = f.get("ren_param_to", {})
        inv_rp = {v: k for k, v in rp.items()}
        orig_params = [inv_rp.get(p, ren.get(p, p)) for p in f["params"]]
        sigdef = {ren.get(p, p): v for p, v in f.get("sigdef", {}).items()}
        fn = make_dataclass(f.get("tag", f["name"]), orig_params, sigdef, hook) if f.get("dataclass") else terms.make_function(f.get("tag", f["name"]), orig_params, len(f["outs"]), sig_defaults=sigdef, hook=hook,
                                 returns_none=bool(f.get("none")), dict_keys=list(f["outs"]) if f.get("picker") else None)
        orig_outs = [ren.get(o, o) for o in f["outs"]]
        kw = {}
        if f.get("picker"):
            kw["output_picker"] = pick_by_name
        if ren:
            kw["renames"] = {v: k for k, v in ren.items()}
        if rp:
            kw["renames"] = {**kw.get("renames", {}), **rp}
        if f.get("pfdef"):
            kw["defaults"] = dict(f["pfdef"])
        if f.get("bound"):
            kw["bound"] = dict(f["bound"])
        if cache is not None:
            kw["cache"] = bool(cache[i]) if isinstance(cache, (list, tuple)) else bool(cache)
        if extra:
            kw.update(extra)
        out.append(PipeFunc(fn, orig_outs[0] if len(orig_outs) == 1 else tuple(orig_outs), **kw))
    return out


def build(spec, order=None, **pipeline_kw) -> Pipeline:
    funcs = pipeline_kw.pop("funcs", None) or build_funcs(spec, hook=pipeline_kw.pop("hook", None), cache=pipeline_kw.pop("cache", None))
    if order is not None:
        funcs = [funcs[i] for i in order]
    with contextlib.redirect_stdout(io.StringIO()):
        return Pipeline(funcs, **pipeline_kw)


# ------------------------------------------------------------------------------------------------
# reference evaluator
# ------------------------------------------------------------------------------------------------
class NotComputable(Exception):
    pass


def producers(spec) -> dict:
    return {o: (i, j) for i, f in enumerate(spec["funcs"]) for j, o in enumerate(f["outs"])}


def pipeline_defaults(spec) -> dict:
    prod = producers(spec)
    d = {}
    for f in spec["funcs"]:
        for p, v in {**f.get("sigdef", {}), **f.get("pfdef", {})}.items():
            if p not in f.get("bound", {}) and p not in prod:
                d[p] = v
    return d


class RefResult:
    __slots__ = ("value", "ran", "inter", "used_kw")

    def __init__(self, value, ran, inter, used_kw):
        self.value, self.ran, self.inter, self.used_kw = value, ran, inter, used_kw


def ref_eval(spec, out, kw) -> RefResult:
    """Argument = bound value, else supplied keyword, else upstream output, else default; memo per call."""
    prod = producers(spec)
    defaults = pipeline_defaults(spec)
    memo: dict[int, object] = {}
    ran: list[int] = []
    used: set[str] = set()
    inter: dict[str, object] = {}

    def run(i):
        if i in memo:
            return memo[i]
        f = spec["funcs"][i]
        args = []
        for p in f["params"]:
            if p in f.get("bound", {}):
                v = f["bound"][p]
            elif p in kw:
                v = kw[p]
                used.add(p)
            elif p in prod:
                v = val(p)
            elif p in defaults:
                v = defaults[p]
            else:
                raise NotComputable(p)
            args.append(v)
        a = ",".join(terms.T(v) for v in args)
        tag = f.get("tag", f["name"])
        r = None if f.get("none") else f"{tag}({a})" if len(f["outs"]) == 1 else tuple(f"{tag}.{k}({a})" for k in range(len(f["outs"])))
        memo[i] = r
        ran.append(i)
        for j, o in enumerate(f["outs"]):
            inter[o] = r if len(f["outs"]) == 1 else r[j]
        return r

    def val(name):
        i, j = prod[name]
        r = run(i)
        return r if len(spec["funcs"][i]["outs"]) == 1 else r[j]

    if isinstance(out, (tuple, list)):
        i, _ = prod[out[0]]
        value = run(i)
        if spec["funcs"][i].get("picker"):
            value = dict(zip(spec["funcs"][i]["outs"], value))  # requested as a whole: the function's raw return value
    else:
        value = val(out)
    return RefResult(value, ran, inter, used)


def all_outputs(spec):
    """Every single output name, plus each tuple output as a tuple."""
    outs = []
    for f in spec["funcs"]:
        outs.extend(f["outs"])
        if len(f["outs"]) > 1:
            outs.append(tuple(f["outs"]))
    return outs


def features(spec) -> set[str]:
    prod = producers(spec)
    fs = set()
    for f in spec["funcs"]:
        if not f["params"]:
            fs.add("nullary")
        if len(f["outs"]) > 1:
            fs.add("multi-output")
        if sum(1 for p in f["params"] if p in prod) >= 1:
            fs.add("chained")
    uses = {}
    for f in spec["funcs"]:
        for p in f["params"]:
            uses[p] = uses.get(p, 0) + 1
    if any(v > 1 and k in prod for k, v in uses.items()):
        fs.add("shared-intermediate")
    if any(v > 1 and k not in prod for k, v in uses.items()):
        fs.add("shared-root")
    if spec.get("deco"):
        fs.add("deco:" + spec["deco"])
    return fs


def depth_of(spec, out) -> int:
    """Number of functions on the dependency path of `out` (ignoring cuts)."""
    prod = producers(spec)
    seen = set()

    def rec(name):
        if name not in prod:
            return
        i, _ = prod[name]
        if i in seen:
            return
        seen.add(i)
        for p in spec["funcs"][i]["params"]:
            if p not in spec["funcs"][i].get("bound", {}):
                rec(p)

    rec(out[0] if isinstance(out, (tuple, list)) else out)
    return len(seen)
