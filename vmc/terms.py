"""Uninterpreted-function bodies: every result is its own derivation tree (DESIGN.md §4.1)."""
from __future__ import annotations

import itertools
import json
import os

import numpy as np

LOG: list = []  # in-process call log: (function name, rendered args)
STRICT_SEQ = False  # render tuples as "(...)" instead of "[...]"
LOG_FILE: str | None = None  # if set, bodies also append a JSON line (O_APPEND) — for process pools / crash children


def T(x) -> str:
    """Canonical rendering of scalars, lists, ndarrays and masked arrays."""
    if x is np.ma.masked:
        return "~"
    if isinstance(x, np.ma.MaskedArray):
        if x.ndim == 0:
            return "~" if x.mask else T(x.item())
        return "[" + ",".join(T(x[i]) for i in range(x.shape[0])) + "]"
    if isinstance(x, np.ndarray):
        if x.ndim == 0:
            return T(x.item())
        return "[" + ",".join(T(x[i]) for i in range(x.shape[0])) + "]"
    if STRICT_SEQ and isinstance(x, tuple):
        return "(" + ",".join(T(e) for e in x) + ")"  # a check that must tell a tuple from a list sets STRICT_SEQ
    if isinstance(x, (list, tuple)):
        return "[" + ",".join(T(e) for e in x) + "]"
    return str(x)


def shape_of(x) -> tuple:
    if isinstance(x, np.ndarray):
        return tuple(x.shape)
    if isinstance(x, (list, tuple)):
        return (len(x),) + (shape_of(x[0]) if x and isinstance(x[0], (list, tuple, np.ndarray)) else ())
    return ()


def log_call(name: str, args: str) -> None:
    LOG.append((name, args))
    if LOG_FILE is not None:
        fd = os.open(LOG_FILE, os.O_WRONLY | os.O_APPEND | os.O_CREAT, 0o644)
        try:
            os.write(fd, (json.dumps([name, args, os.getpid()]) + "\n").encode())
        finally:
            os.close(fd)


def read_log_file(path: str) -> list:
    if not os.path.exists(path):
        return []
    with open(path) as fh:
        return [tuple(json.loads(l)) for l in fh if l.strip()]


def term_array(tag: str, args: str, ishape: tuple):
    """Object ndarray of shape ishape whose element [idx] is 'tag[idx](args)'."""
    arr = np.empty(ishape, dtype=object)
    for idx in itertools.product(*map(range, ishape)):
        arr[idx] = f"{tag}{list(idx)}({args})"
    return arr


def make_function(name: str, params: list[str], nout: int = 1, ishape: tuple = (), sig_defaults: dict | None = None,
                  hook=None, returns_none: bool = False, dict_keys: list[str] | None = None, one_tuple: bool = False, list_len: int = 0):
    """A user function with signature ``name(*params)`` returning terms; logs every call.

    hook(name, kwargs) is called first (fault injection); ishape: the returned value is an ndarray of terms
    (internal axes)."""
    sig_defaults = sig_defaults or {}

    def _body(**kw):
        args = ",".join(T(kw[p]) for p in params)
        log_call(name, args)
        if hook is not None:
            hook(name, kw)

        def one(tag):
            return term_array(tag, args, ishape) if ishape else f"{tag}({args})"

        if returns_none:
            return None  # a "setup" function: called for its effect (the log entry), its output is None
        if nout == 1 and list_len:
            return [f"{name}.{k}({args})" for k in range(list_len)]  # ONE output whose value is a Python list
        if nout == 1:
            return (one(name),) if one_tuple else one(name)  # one_tuple: output_name=("s",) and a 1-tuple return value
        if dict_keys is not None:  # a multi-output function that returns a dict (used with a custom output_picker)
            return {key: one(f"{name}.{k}") for k, key in enumerate(dict_keys)}
        return tuple(one(f"{name}.{k}") for k in range(nout))

    order = [p for p in params if p not in sig_defaults] + [p for p in params if p in sig_defaults]
    ps = ", ".join(f"{p}={sig_defaults[p]!r}" if p in sig_defaults else p for p in order)
    src = f"def {name}({ps}):\n    return _body({', '.join(f'{p}={p}' for p in params)})\n"
    ns = {"_body": _body}
    exec(src, ns)  # noqa: S102
    fn = ns[name]
    fn.__module__ = "vmc.terms"
    return fn
