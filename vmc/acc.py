"""Accumulator returned by every work unit and merged by the runner."""
from __future__ import annotations

import collections
import json
from typing import Any

MAX_EXAMPLES = 3  # artefacts kept per distinct signature
MAX_SAMPLES = 4


def sig_key(sig: dict) -> str:
    return json.dumps(sig, sort_keys=True, default=str)


class Acc:
    def __init__(self) -> None:
        self.evaluations = 0
        self.nontrivial: set[int] = set()
        self.strata: collections.Counter[str] = collections.Counter()
        self.outcomes: set[str] = set()
        self.states = 0
        self.transitions = 0
        self.traces = 0
        self.samples: list[Any] = []
        self.violations: dict[str, dict] = {}  # sig_key -> {sig, count, examples:[artefact], text}
        self.notes: collections.Counter[str] = collections.Counter()
        self.max_depth = 0

    # -- recording ----------------------------------------------------------------------------
    def case(self, nontrivial_key: str | None = None, n: int = 1) -> None:
        self.evaluations += n
        if nontrivial_key is not None:
            # 64-bit hashes (PYTHONHASHSEED is pinned, so they are stable across the workers of a run)
            self.nontrivial.add(nontrivial_key if isinstance(nontrivial_key, int) else hash(nontrivial_key))

    def stratum(self, name: str, n: int = 1) -> None:
        self.strata[name] += n

    def outcome(self, key: Any) -> None:
        self.outcomes.add(key if isinstance(key, str) else json.dumps(key, sort_keys=True, default=str))

    def sample(self, obj: Any) -> None:
        if len(self.samples) < MAX_SAMPLES:
            self.samples.append(obj)

    def violation(self, sig: dict, artefact: dict, text: str) -> None:
        k = sig_key(sig)
        g = self.violations.get(k)
        if g is None:
            g = self.violations[k] = {"sig": sig, "count": 0, "examples": [], "text": text}
        g["count"] += 1
        if len(g["examples"]) < MAX_EXAMPLES:
            g["examples"].append(artefact)

    # -- merging ------------------------------------------------------------------------------
    def merge(self, other: "Acc") -> None:
        self.evaluations += other.evaluations
        self.nontrivial |= other.nontrivial
        self.strata.update(other.strata)
        self.outcomes |= other.outcomes
        self.states += other.states
        self.transitions += other.transitions
        self.traces += other.traces
        self.notes.update(other.notes)
        self.max_depth = max(self.max_depth, other.max_depth)
        for s in other.samples:
            self.sample(s)
        for k, g in other.violations.items():
            mine = self.violations.get(k)
            if mine is None:
                self.violations[k] = {"sig": g["sig"], "count": g["count"], "examples": list(g["examples"]), "text": g["text"]}
            else:
                mine["count"] += g["count"]
                for a in g["examples"]:
                    if len(mine["examples"]) < MAX_EXAMPLES:
                        mine["examples"].append(a)
