#!/bin/sh
# tools/import_seed.sh <worktree> <k> <seeded-name> <ID> [more IDs]: copy patch<k>.diff/demo<k>.py from a seeding worktree, confirm it
wt="$1"; k="$2"; name="$3"; shift 3
d=/verif/seeded/$name; mkdir -p "$d"
cp "$wt/patch$k.diff" "$d/patch.diff"; cp "$wt/demo$k.py" "$d/demo.py"
sed -i "/assert .*\/tmp\/wt/d" "$d/demo.py"
grep -n "/tmp/wt" "$d/demo.py" | head -5
/verif/tools/confirm_seed.sh "$d" "$@" 2>&1 | grep -E "^demo|^baseline|tier=|VIOLATION lines|PATCH" | cut -c1-250
