"""tools/audit_known.py — every finding listed as 'known' must be matched by the latest quick evidence of its property
(an entry that nothing matches any more is stale: either repaired or unreachable), and no 'fixed' entry may be matched."""
import glob
import json

d = json.load(open("/verif/known_findings.json"))
ev = {}
for f in glob.glob("/verif/evidence/C*.json"):
    ev.update(json.load(open(f))["coverage"].get("known_findings_matched", {}))
bad = 0
for e in d["findings"]:
    if e["status"] == "known" and e["id"] not in ev:
        print("known but unmatched:", e["id"])
        bad += 1
    if e["status"] == "fixed" and e["id"] in ev:
        print("fixed but matched:", e["id"])
        bad += 1
print("audit:", "ok" if not bad else f"{bad} problems", f"({sum(1 for e in d['findings'] if e['status'] == 'known')} known, {sum(1 for e in d['findings'] if e['status'] == 'fixed')} fixed)")
