#!/venv/bin/python
"""Regenerates /verif/MANIFEST.json from the property modules that exist (run after adding a check)."""
import importlib, json, os, subprocess, sys
V = os.path.dirname(os.path.dirname(os.path.abspath(__file__)))
sys.path.insert(0, V)
os.environ.setdefault("PYTHONHASHSEED", "0")
from vmc import boot
boot.boot()

ENGINE = {
    "C01": "gen_map", "C02": "gen_dag", "C03": "sched", "C04": "gen_map", "C05": "crashfs", "C06": "explore", "C07": "explore",
    "C08": "enumerate", "C09": "explore", "C10": "explore", "C11": "gen_dag", "C12": "gen_map", "C13": "sched", "C14": "threads",
    "C15": "enumerate", "C16": "enumerate", "C17": "enumerate", "C18": "gen_dag", "C19": "gen_map", "C20": "enumerate",
}
props = [json.loads(l) for l in open(os.path.join(V, "properties.jsonl"))]
checks, na = [], []
for p in props:
    pid = p["id"]
    path = os.path.join(V, "vmc", "props", pid.lower() + ".py")
    ready = open(os.path.join(V, "tools", "ready.txt")).read().split()
    if not os.path.exists(path) or pid not in ready:
        na.append({"property_id": pid, "reason": "check not built yet (design in DESIGN.md section 5); nothing is claimed for it"})
        continue
    m = importlib.import_module("vmc.props." + pid.lower())
    if getattr(m, "NOT_CLAIMED", None):
        na.append({"property_id": pid, "reason": m.NOT_CLAIMED})
        continue
    checks.append({
        "property_id": pid,
        "quick_cmd": f"./check {pid} --tier quick",
        "thorough_cmd": f"./check {pid} --tier thorough",
        "evidence_file": f"/verif/evidence/{pid}.json",
        "replay_cmd_template": f"./check {pid} --replay {{path}}",
        "engine": ENGINE.get(pid, "enumerate"),
        "level_claimed": {"category": m.LEVEL, "text": m.LEVEL_TEXT if hasattr(m, "LEVEL_TEXT") else m.RULE, "design_ref": f"DESIGN.md section 5, {pid}"},
        "level_note": "; ".join(getattr(m, "ASSUMPTIONS", [])) or "trusted base: the reference model in the property module, CPython",
        "technique": m.TECHNIQUE,
    })
hook_commits = [l.split()[0] for l in subprocess.run(["git", "-C", "/repo", "log", "--format=%H %s"], capture_output=True, text=True).stdout.splitlines() if " hook:" in l or l.split(" ", 1)[1].startswith("hook")]
man = {
    "version": 1,
    "setup_cmd": "./setup.sh",
    "hooks": {
        "guard": "PIPEFUNC_VERIF",
        "enable": "no source hooks: every seam is reached from outside (executor= argument, monkeypatched Manager/time/open inside the check process); PIPEFUNC_VERIF=1 is exported by the checks but read by nothing in /repo",
        "baseline_off_cmd": "cd /repo && /venv/bin/python -m pytest -ra -q -p no:cacheprovider --timeout=900 --continue-on-collection-errors",
        "source_commits": hook_commits,
        "add_only": True,
    },
    "engines": [
        {"name": "enumerate", "path": "vmc/runner.py", "serves_properties": ["C08", "C15", "C16", "C17", "C20"], "kind_free_text": "bounded-exhaustive case enumeration fanned out over a fork pool, reference model per property module"},
        {"name": "gen_dag", "path": "vmc/gen_dag.py", "serves_properties": ["C02", "C09", "C10", "C11", "C18"], "kind_free_text": "bounded-exhaustive generator of non-mapped pipelines (all DAGs up to N functions) + reference evaluator"},
        {"name": "gen_map", "path": "vmc/gen_map.py", "serves_properties": ["C01", "C04", "C06", "C12", "C19"], "kind_free_text": "bounded-exhaustive generator of MapSpec pipelines + reference denotation"},
        {"name": "explore", "path": "vmc/explore.py", "serves_properties": ["C03", "C05", "C06", "C07", "C09", "C10", "C13", "C14"], "kind_free_text": "ChoiceDFS (stateless, deviation-bounded, prefix replay) and StateBFS (explicit state over the real object, canonical hashing)"},
        {"name": "sched", "path": "vmc/sched.py", "serves_properties": ["C03", "C13", "C09"], "kind_free_text": "controllable concurrent.futures.Executor + virtual asyncio loop driving the real run_map/run_map_async"},
        {"name": "threads", "path": "vmc/threads.py", "serves_properties": ["C14"], "kind_free_text": "baton-passing thread scheduler with a fake multiprocessing.Manager whose proxies are scheduling points"},
        {"name": "crashfs", "path": "vmc/crashfs.py", "serves_properties": ["C05"], "kind_free_text": "file-system event numbering (audit hook + open wrapper), fork/kill at event k with torn writes, real resume"},
    ],
    "checks": checks,
    "not_applicable": na,
    "notes": "All checks: ./check <ID> --tier quick|thorough; evidence under /verif/evidence; known findings in /verif/known_findings.json; seeded breaking changes under /verif/seeded.",
}
with open("/root/.vp/MANIFEST.schema.json") as fh:
    import jsonschema
    jsonschema.validate(man, json.load(fh))
json.dump(man, open(os.path.join(V, "MANIFEST.json"), "w"), indent=1)
print("claimed:", [c["property_id"] for c in checks], "not claimed:", [n["property_id"] for n in na])
