"""tools/mk_seed_prompts.py <round> [ID ...]  — writes /tmp/seedprompts<round>/<ID>.txt for blind seeding sub-agents.

Each prompt = tools/seed_prompt.txt (worktree /tmp/wt<round>-<ID>) + the property text + the "two regressions" paragraph
+ one-line summaries of every seed already kept for that property (so that the agent picks something else).  The agent
gets nothing else from /verif.  Worktrees: git -C /repo worktree add --detach /tmp/wt<round>-<ID> HEAD; afterwards
tools/import_seed.sh <worktree> <1|2> <seeded-name> <ID...>, then git -C /repo worktree remove --force <worktree>."""
import glob
import json
import os
import sys

rnd = sys.argv[1]
ids = sys.argv[2:]
tmpl = open("/verif/tools/seed_prompt.txt").read()
props = {json.loads(l)["id"]: json.loads(l) for l in open("/verif/properties.jsonl")}
prev: dict = {}
for d in sorted(glob.glob("/verif/seeded/*/meta.json")):
    m = json.load(open(d))
    prev.setdefault(m["property"], []).append(m["summary"])
os.makedirs(f"/tmp/seedprompts{rnd}", exist_ok=True)
EXTRA = """

THIS ROUND: deliver TWO independent regressions instead of one, in two DIFFERENT functions (preferably different files) and of different kinds. Each must satisfy all requirements on its own (applied alone: test-suite summary unchanged, its own demo fails with it and passes without it). Name the files {WT}/patch1.diff + {WT}/demo1.py and {WT}/patch2.diff + {WT}/demo2.py (each patch is a diff against the UNMODIFIED tree; produce patch2 after reverting patch1). Leave the worktree with NEITHER patch applied at the end. Many regressions have already been tried for this property (list below), so the obvious places are taken: look for code paths that are reached only through a rarely used keyword argument or API entry point, through a particular combination of two features, through a second operation on the same object or folder, through unusual-but-valid values (None, empty, single-element, negative, duplicated, very long names, names that are prefixes of each other), or through helper functions shared with other features. Prefer silent wrong results over exceptions. Good candidates: a plausible-looking performance optimisation (memoisation without invalidation, a fast path, a read cache, an early exit, a cheaper comparison), state that outlives one call (module-level or attribute caches, objects shared between copies), and behaviour that depends on the relative order of two operations."""
for c in ids or sorted(props):
    p = props[c]
    text = f"[{c}] {p['title']}\n\n{p['statement']}\n\nQuantified over: {p['quantifier']['text']}\n\nAnchors: " + json.dumps(p["anchors"]["mechanism"])
    s = (tmpl + EXTRA).replace("{WT}", f"/tmp/wt{rnd}-{c}").replace("{PROPERTY}", text)
    s += ("\n\nRegressions already produced by others for this property (do NOT repeat these; pick different locations AND different "
          "kinds of mistake):\n" + "\n".join(" - " + x for x in prev.get(c, [])))
    others = [f"{k}: {x}" for k in sorted(prev) if k != c for x in prev[k]]
    s += ("\n\nRegressions already produced for OTHER properties of the same library (an identical change cannot be accepted "
          "again, whichever property it was made for):\n" + "\n".join(" - " + x for x in others))
    open(f"/tmp/seedprompts{rnd}/{c}.txt", "w").write(s)
print(f"/tmp/seedprompts{rnd}: {len(ids or props)} prompts")
