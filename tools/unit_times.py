"""tools/unit_times.py <ID> [tier]  — per-unit wall time of a check's plan (16 forked workers), to find long poles"""
import collections
import concurrent.futures as cf
import importlib
import multiprocessing
import sys
import time

import vmc  # noqa: F401
from vmc import boot

boot.boot()
mod = importlib.import_module("vmc.props." + sys.argv[1].lower())
tier = sys.argv[2] if len(sys.argv) > 2 else "quick"
units = mod.plan(tier, 0)


def run(u):
    t = time.time()
    mod.run_unit(u[1])
    return u[0], time.time() - t, str(u[1])[:160]


with cf.ProcessPoolExecutor(16, mp_context=multiprocessing.get_context("fork")) as ex:
    t0 = time.time()
    res = list(ex.map(run, units))
    print("wall", round(time.time() - t0, 1), "units", len(units))
tot = collections.Counter()
cnt = collections.Counter()
for st, t, _ in res:
    tot[st] += t
    cnt[st] += 1
for st in tot:
    print(f"{tot[st]:8.1f}s cpu  {cnt[st]:5d} units  {st}")
for st, t, u in sorted(res, key=lambda r: -r[1])[:8]:
    print(round(t, 1), st, u)
