#!/bin/sh
# tools/seed_regress.sh [pattern]  — every kept seed against the quick check of its property (scratch copy, /repo untouched).
# prints one line per seed: DETECTED / MISSED / NOAPPLY
cd /verif || exit 2
for d in seeded/${1:-*}/; do
  id=$(basename "$d"); prop=$(/venv/bin/python -c "import json,sys; print(json.load(open('$d/meta.json'))['property'])")
  if grep -q '"neutralised_by"' "$d/meta.json"; then echo "NEUTRAL  $id (its change is no regression on the current tree any more)"; continue; fi
  out=$(tools/mutant.sh "$d/patch.diff" "$prop" 2>&1)
  if echo "$out" | grep -q "PATCH DOES NOT APPLY"; then echo "NOAPPLY  $id"; continue; fi
  n=$(echo "$out" | grep -c "^VIOLATION")
  h=$(echo "$out" | grep -c "^HARNESS\|^UNSTABLE")
  if [ "$n" -gt 0 ]; then echo "DETECTED $id ($prop)"; else echo "MISSED   $id ($prop) harness=$h"; fi
done
