#!/usr/bin/env python3
"""tools/mkpatch.py out.diff <file> <old> <new> [<file> <old> <new> ...] — exact-string edit(s) of /repo files -> unified diff (does not touch /repo)."""
import difflib, sys
out, rest = sys.argv[1], sys.argv[2:]
edits = {}
for i in range(0, len(rest), 3):
    f, old, new = rest[i:i + 3]
    src = edits.get(f) or open(f"/repo/{f}").read()
    assert src.count(old) == 1, f"{f}: {src.count(old)} occurrences of {old!r}"
    edits[f] = src.replace(old, new)
with open(out, "w") as fh:
    for f, new in edits.items():
        a = open(f"/repo/{f}").read().splitlines(keepends=True)
        fh.writelines(difflib.unified_diff(a, new.splitlines(keepends=True), f"a/{f}", f"b/{f}"))
print("wrote", out)
