#!/usr/bin/env python3
"""Regenerates the generated tables of DESIGN.md §10 (between the BEGIN/END markers) from known_findings.json,
tools/handmade_mutants.json and seeded/*/meta.json."""
import glob, json, os, re
V = os.path.dirname(os.path.dirname(os.path.abspath(__file__)))
kf = json.load(open(f"{V}/known_findings.json"))["findings"]
rows = ["| id | property | status | what fails |", "|----|----------|--------|------------|"]
for e in kf:
    st = "fix " + str(e.get("commit", ""))[:40] if e["status"] == "fixed" else "known"
    txt = re.sub(r"^fixed: property=\S+ (\S+ )?", "", e["text"]).replace("|", "\\|")
    rows.append(f"| {e['id']} | {e['property']} | {st} | {txt[:260]} |")
ftab = "\n".join(rows)
rows = ["| property | change (hand-made, applied to a scratch copy; baseline tests not re-run for these) | quick check reports it |", "|----|----|----|"]
for m in json.load(open(f"{V}/tools/handmade_mutants.json")):
    rows.append(f"| {m['property']} | {m['change']}{' — ' + m['note'] if m.get('note') else ''} | {'yes' if m['quick_detects'] else 'NO'} |")
rows += ["", "Seeded changes written by blind sub-agents (each: passes the 492 baseline tests, fails its own demo.py; `seeded/<id>/`):", "",
         "| seeded id | property | needs | caught by (quick) | caught by (thorough) |", "|----|----|----|----|----|"]
for mf in sorted(glob.glob(f"{V}/seeded/*/meta.json")):
    m = json.load(open(mf))
    rows.append(f"| {os.path.basename(os.path.dirname(mf))} | {m.get('property')} | {str(m.get('needs',''))[:160].replace('|','/')} | {m.get('caught_quick')} | {m.get('caught_thorough', '')} |")
dtab = "\n".join(rows)
s = open(f"{V}/DESIGN.md").read()
def put(s, name, body):
    b, e = f"<!-- {name}:BEGIN -->", f"<!-- {name}:END -->"
    if b in s:
        return s[:s.index(b) + len(b)] + "\n" + body + "\n" + s[s.index(e):]
    return s.replace(name + "_TABLE", f"{b}\n{body}\n{e}")
rows = ["| ID | tier | level | evaluations | distinct non-trivial | states | transitions | executions of the real code | exhaustive | bound completed | known-finding cases | wall s |", "|----|----|----|----|----|----|----|----|----|----|----|----|"]
for ef in sorted(glob.glob(f"{V}/evidence/C*.json")):
    e = json.load(open(ef)); c = e["coverage"]
    rows.append(f"| {e['property_id']} | {e['tier']} | {e['level']} | {c.get('evaluations')} | {c.get('distinct_nontrivial')} | {c.get('states','')} | {c.get('transitions','')} | {c.get('traces_validated_against_impl','')} | {c.get('exhaustive')} | {c.get('bound_completed')} | {sum((c.get('known_findings_matched') or {}).values())} | {e['wall_s']} |")
etab = "\n".join(rows)
s = put(s, "EVIDENCE", etab)
s = put(s, "FINDINGS", ftab)
s = put(s, "DETECTION", dtab)
open(f"{V}/DESIGN.md", "w").write(s)
print("tables regenerated:", len(kf), "findings")
