#!/bin/sh
# tools/confirm_seed.sh <seeded/dir> <ID> [more IDs]  — confirms a seeded change independently:
#  demo passes on the unmodified tree, fails with the patch; baseline suite unchanged with the patch; then runs the checks.
set -u
dir="$(realpath "$1")"; shift
scr="$(mktemp -d /tmp/scr-XXXXXX)"
cp -r /repo/pipefunc /repo/pyproject.toml /repo/README.md /repo/tests "$scr"/
( cd "$scr" && git init -q . && git add -A >/dev/null 2>&1 && git -c user.email=a@b -c user.name=x commit -qm base >/dev/null 2>&1 )
find "$scr" -name __pycache__ -prune -exec rm -rf {} +
cd "$scr"
cp "$dir/demo.py" "$scr/demo.py"   # some demos assert that pipefunc is imported from their own directory
PYTHONPATH="$scr" timeout 600 /venv/bin/python "$scr/demo.py" >/tmp/demo_clean.out 2>&1; rc_clean=$?
git apply --whitespace=nowarn "$dir/patch.diff" || { echo "PATCH DOES NOT APPLY to current /repo"; rm -rf "$scr"; exit 3; }
PYTHONPATH="$scr" timeout 600 /venv/bin/python "$scr/demo.py" >/tmp/demo_patched.out 2>&1; rc_patched=$?
echo "demo: clean rc=$rc_clean  patched rc=$rc_patched"
cd /verif
/venv/bin/python tools/baseline_cmp.py "$scr" | tail -3
for id in "$@"; do
  VERIF_REPO="$scr" ./check "$id" --tier "${TIER:-quick}" --no-evidence ${BUDGET:+--budget $BUDGET} 2>&1 | grep -E "^(VIOLATION|UNSTABLE|HARNESS|C[0-9]+ tier)" | cut -c1-260 | awk -v id="$id" 'BEGIN{n=0} /^VIOLATION/{n++; next} {print} END{print id": "n" VIOLATION lines"}'
done
rm -rf "$scr"
