"""Run the repository's test-suite in a directory (scratch copy or /repo) and diff the passes against BASELINE.json."""
import json, subprocess, sys, tempfile, os, xml.etree.ElementTree as ET
d = sys.argv[1]
out = tempfile.mktemp(suffix=".xml")
env = dict(os.environ); env.pop("PIPEFUNC_VERIF", None); env["PYTHONPATH"] = d
# the suite leaves one run folder per map() call in the temp directory: give it a private one and remove it afterwards
import atexit, shutil
_tmp = tempfile.mkdtemp(prefix="baseline-", dir="/dev/shm" if os.path.isdir("/dev/shm") else None)
env["TMPDIR"] = _tmp
atexit.register(shutil.rmtree, _tmp, True)
_mrf = os.path.join(d, "my_run_folder")  # tests/test_parallel writes this folder into the working directory
_had_mrf = os.path.exists(_mrf)
subprocess.run(f"cd {d} && /venv/bin/python -m pytest -q -p no:cacheprovider --timeout=900 --continue-on-collection-errors --no-cov --junitxml={out}",
               shell=True, capture_output=True, env=env)
if not _had_mrf:
    shutil.rmtree(_mrf, ignore_errors=True)
b = json.load(open("/root/.vp/BASELINE.json"))
passed = set()
for tc in ET.parse(out).getroot().iter("testcase"):
    if not any(c.tag in ("failure", "error", "skipped") for c in tc):
        passed.add(f"{tc.get('classname')}::{tc.get('name')}")
os.remove(out)
want = set(b["stable_pass"])
print("baseline: passed", len(passed), "of stable", len(want), "missing", len(want - passed))
for t in sorted(want - passed)[:20]:
    print("  MISSING", t)
sys.exit(1 if want - passed else 0)
