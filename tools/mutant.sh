#!/bin/sh
# tools/mutant.sh <patch.diff> <ID> [<ID>...]  — run checks against a scratch copy of /repo with the patch applied.
# env: TIER (default quick), BASELINE=1 to also run the repository's test-suite on the scratch copy.
set -u
patch="$(realpath "$1")"; shift
scr="$(mktemp -d /tmp/scr-XXXXXX)"
cp -r /repo/pipefunc /repo/pyproject.toml /repo/README.md "$scr"/
[ "${BASELINE:-0}" = 1 ] && cp -r /repo/tests "$scr"/
( cd "$scr" && git init -q . && git apply --whitespace=nowarn "$patch" ) || { echo "PATCH DOES NOT APPLY"; rm -rf "$scr"; exit 3; }
find "$scr" -name __pycache__ -prune -exec rm -rf {} +
cd /verif
for id in "$@"; do
  VERIF_REPO="$scr" ./check "$id" --tier "${TIER:-quick}" --no-evidence ${BUDGET:+--budget $BUDGET} 2>&1 | grep -E "^(VIOLATION|KNOWN|UNSTABLE|HARNESS|C[0-9]+ tier)" | cut -c1-300 | awk -v id="$id" 'BEGIN{n=0} /^VIOLATION/{n++; if(n<=3)print; next} {print} END{print id": "n" VIOLATION lines"}'
done
if [ "${BASELINE:-0}" = 1 ]; then
  /venv/bin/python tools/baseline_cmp.py "$scr"
fi
rm -rf "$scr"
